import FCA.Proofs.Invariance
import FCA.Model.Junctors
/-
Context-level consequences of `FCA/Proofs/Invariance.lean`: relabelled contexts, contexts with one
more column, order notions under transposition / relabelling, pattern codes of `junctors.py`.
-/
namespace FCA

theorem transpose_transpose (K : Ctx) : K.transpose.transpose = K := rfl

/-! ### transposition and the order notions -/

theorem covers_transpose_imp {K : Ctx} (h : K.WF) {A₁ B₁ A₂ B₂ : Nat}
    (hc : Covers K A₁ B₁ A₂ B₂) : Covers K.transpose B₂ A₂ B₁ A₁ := by
  obtain ⟨c1, c2, hs, hne, hbetween⟩ := hc
  refine ⟨(isConcept_transpose h).mpr c2, (isConcept_transpose h).mpr c1,
    (concept_order_dual h c1 c2).mp hs, ?_, ?_⟩
  · intro e; subst e
    exact hne (concept_extent_unique c1 c2)
  · intro X Y hXY h1 h2
    have c := (isConcept_transpose h).mp hXY
    have a1 : Y ⊆ᵇ A₂ := (concept_order_dual h c c2).mpr h1
    have a2 : A₁ ⊆ᵇ Y := (concept_order_dual h c1 c).mpr h2
    rcases hbetween Y X c a2 a1 with e | e
    · right; subst e; exact concept_intent_unique c c1
    · left; subst e; exact concept_intent_unique c c2

theorem meet_transpose_imp {K : Ctx} (h : K.WF) {A₁ B₁ A₂ B₂ A B : Nat}
    (hm : IsMeet K A₁ B₁ A₂ B₂ A B) : IsJoin K.transpose B₁ A₁ B₂ A₂ B A := by
  obtain ⟨c1, c2, c, h1, h2, hg⟩ := hm
  refine ⟨(isConcept_transpose h).mpr c1, (isConcept_transpose h).mpr c2,
    (isConcept_transpose h).mpr c, (concept_order_dual h c c1).mp h1,
    (concept_order_dual h c c2).mp h2, ?_⟩
  intro X Y hXY x1 x2
  have cx := (isConcept_transpose h).mp hXY
  exact (concept_order_dual h cx c).mp
    (hg Y X cx ((concept_order_dual h cx c1).mpr x1) ((concept_order_dual h cx c2).mpr x2))

theorem join_transpose_imp {K : Ctx} (h : K.WF) {A₁ B₁ A₂ B₂ A B : Nat}
    (hm : IsJoin K A₁ B₁ A₂ B₂ A B) : IsMeet K.transpose B₁ A₁ B₂ A₂ B A := by
  obtain ⟨c1, c2, c, h1, h2, hg⟩ := hm
  refine ⟨(isConcept_transpose h).mpr c1, (isConcept_transpose h).mpr c2,
    (isConcept_transpose h).mpr c, (concept_order_dual h c1 c).mp h1,
    (concept_order_dual h c2 c).mp h2, ?_⟩
  intro X Y hXY x1 x2
  have cx := (isConcept_transpose h).mp hXY
  exact (concept_order_dual h c cx).mp
    (hg Y X cx ((concept_order_dual h c1 cx).mpr x1) ((concept_order_dual h c2 cx).mpr x2))

/-! ### relabelled contexts -/

/-- `K'` is `K` with rows permuted by `σ` and columns permuted by `τ` -/
structure Relabel (K K' : Ctx) (σ σi τ τi : Nat → Nat) : Prop where
  wf : K.WF
  wf' : K'.WF
  hn : K'.n = K.n
  hm : K'.m = K.m
  hσ : PermOn σ σi K.n
  hτ : PermOn τ τi K.m
  hR : ∀ i, i < K.n → ∀ j, j < K.m → (K'.has (σ i) (τ j) ↔ K.has i j)

theorem Relabel.symm {K K' : Ctx} {σ σi τ τi : Nat → Nat} (r : Relabel K K' σ σi τ τi) :
    Relabel K' K σi σ τi τ := by
  obtain ⟨wf, wf', hn, hm, hσ, hτ, hR⟩ := r
  refine ⟨wf', wf, hn.symm, hm.symm, by rw [hn]; exact hσ.symm, by rw [hm]; exact hτ.symm, ?_⟩
  intro i hi j hj
  rw [hn] at hi; rw [hm] at hj
  have := hR (σi i) (hσ i hi).2.1 (τi j) (hτ j hj).2.1
  rw [(hσ i hi).2.2.2, (hτ j hj).2.2.2] at this
  exact this.symm

theorem Relabel.concept_iff {K K' : Ctx} {σ σi τ τi : Nat → Nat} (r : Relabel K K' σ σi τ τi)
    {A B A' B' : Nat} (hA : Image σ K.n A A') (hB : Image τ K.m B B') :
    isConcept K A B ↔ isConcept K' A' B' := by
  rw [isConcept_iff_IsC r.wf, isConcept_iff_IsC r.wf', r.hn, r.hm]
  exact IsC_perm r.hσ r.hτ (fun i j hi hj => r.hR i hi j hj) hA hB

/-- every concept of the relabelled context is the image of a concept -/
theorem Relabel.concept_preimage {K K' : Ctx} {σ σi τ τi : Nat → Nat} (r : Relabel K K' σ σi τ τi)
    {A' B' : Nat} (h : isConcept K' A' B') :
    Image σ K.n (mapMask σi K.n A') A' ∧ Image τ K.m (mapMask τi K.m B') B' ∧
      isConcept K (mapMask σi K.n A') (mapMask τi K.m B') := by
  have bA : Bounded K.n A' := by rw [← r.hn]; exact h.1
  have bB : Bounded K.m B' := by rw [← r.hm]; exact h.2.1
  have iA := (image_mapMask r.hσ.symm bA).symm r.hσ.symm
  have iB := (image_mapMask r.hτ.symm bB).symm r.hτ.symm
  exact ⟨iA, iB, (r.concept_iff iA iB).mpr h⟩

theorem Relabel.covers_imp {K K' : Ctx} {σ σi τ τi : Nat → Nat} (r : Relabel K K' σ σi τ τi)
    {A₁ B₁ A₂ B₂ A₁' B₁' A₂' B₂' : Nat}
    (hA₁ : Image σ K.n A₁ A₁') (hB₁ : Image τ K.m B₁ B₁')
    (hA₂ : Image σ K.n A₂ A₂') (hB₂ : Image τ K.m B₂ B₂')
    (hc : Covers K A₁ B₁ A₂ B₂) : Covers K' A₁' B₁' A₂' B₂' := by
  obtain ⟨c1, c2, hs, hne, hbetween⟩ := hc
  refine ⟨(r.concept_iff hA₁ hB₁).mp c1, (r.concept_iff hA₂ hB₂).mp c2,
    (Image.sub_iff r.hσ hA₁ hA₂).mp hs, ?_, ?_⟩
  · intro e; subst e
    exact hne (Image.unique r.hσ.symm (hA₁.symm r.hσ) (hA₂.symm r.hσ))
  · intro X' Y' hXY h1 h2
    obtain ⟨iX, _, cX⟩ := r.concept_preimage hXY
    rcases hbetween _ _ cX ((Image.sub_iff r.hσ hA₁ iX).mpr h1)
        ((Image.sub_iff r.hσ iX hA₂).mpr h2) with e | e
    · left; rw [e] at iX; exact Image.unique r.hσ iX hA₁
    · right; rw [e] at iX; exact Image.unique r.hσ iX hA₂

theorem Relabel.join_imp {K K' : Ctx} {σ σi τ τi : Nat → Nat} (r : Relabel K K' σ σi τ τi)
    {A₁ B₁ A₂ B₂ A B A₁' B₁' A₂' B₂' A' B' : Nat}
    (hA₁ : Image σ K.n A₁ A₁') (hB₁ : Image τ K.m B₁ B₁')
    (hA₂ : Image σ K.n A₂ A₂') (hB₂ : Image τ K.m B₂ B₂')
    (hA : Image σ K.n A A') (hB : Image τ K.m B B')
    (hj : IsJoin K A₁ B₁ A₂ B₂ A B) : IsJoin K' A₁' B₁' A₂' B₂' A' B' := by
  obtain ⟨c1, c2, c, h1, h2, hl⟩ := hj
  refine ⟨(r.concept_iff hA₁ hB₁).mp c1, (r.concept_iff hA₂ hB₂).mp c2, (r.concept_iff hA hB).mp c,
    (Image.sub_iff r.hσ hA₁ hA).mp h1, (Image.sub_iff r.hσ hA₂ hA).mp h2, ?_⟩
  intro X' Y' hXY x1 x2
  obtain ⟨iX, _, cX⟩ := r.concept_preimage hXY
  exact (Image.sub_iff r.hσ hA iX).mp
    (hl _ _ cX ((Image.sub_iff r.hσ hA₁ iX).mpr x1) ((Image.sub_iff r.hσ hA₂ iX).mpr x2))

theorem Relabel.meet_imp {K K' : Ctx} {σ σi τ τi : Nat → Nat} (r : Relabel K K' σ σi τ τi)
    {A₁ B₁ A₂ B₂ A B A₁' B₁' A₂' B₂' A' B' : Nat}
    (hA₁ : Image σ K.n A₁ A₁') (hB₁ : Image τ K.m B₁ B₁')
    (hA₂ : Image σ K.n A₂ A₂') (hB₂ : Image τ K.m B₂ B₂')
    (hA : Image σ K.n A A') (hB : Image τ K.m B B')
    (hj : IsMeet K A₁ B₁ A₂ B₂ A B) : IsMeet K' A₁' B₁' A₂' B₂' A' B' := by
  obtain ⟨c1, c2, c, h1, h2, hl⟩ := hj
  refine ⟨(r.concept_iff hA₁ hB₁).mp c1, (r.concept_iff hA₂ hB₂).mp c2, (r.concept_iff hA hB).mp c,
    (Image.sub_iff r.hσ hA hA₁).mp h1, (Image.sub_iff r.hσ hA hA₂).mp h2, ?_⟩
  intro X' Y' hXY x1 x2
  obtain ⟨iX, _, cX⟩ := r.concept_preimage hXY
  exact (Image.sub_iff r.hσ iX hA).mp
    (hl _ _ cX ((Image.sub_iff r.hσ iX hA₁).mpr x1) ((Image.sub_iff r.hσ iX hA₂).mpr x2))

/-- images along the inverse maps, for the contexts the other way round -/
theorem Relabel.image_symm {K K' : Ctx} {σ σi τ τi : Nat → Nat} (r : Relabel K K' σ σi τ τi)
    {a a' : Nat} (h : Image σ K.n a a') : Image σi K'.n a' a := by
  rw [r.hn]; exact h.symm r.hσ

theorem Relabel.image_symm' {K K' : Ctx} {σ σi τ τi : Nat → Nat} (r : Relabel K K' σ σi τ τi)
    {b b' : Nat} (h : Image τ K.m b b') : Image τi K'.m b' b := by
  rw [r.hm]; exact h.symm r.hτ

/-! ### pattern codes of `junctors.py` -/

/-- the column mask of a well-formed context lists the objects having the property -/
theorem mem_col {K : Ctx} (h : K.WF) (i j : Nat) : i ∈ᵇ K.cols[j]! ↔ K.has i j :=
  transpose_has h i j

theorem Relabel.image_col {K K' : Ctx} {σ σi τ τi : Nat → Nat} (r : Relabel K K' σ σi τ τi)
    {j : Nat} (hj : j < K.m) : Image σ K.n (K.cols[j]!) (K'.cols[τ j]!) := by
  refine ⟨fun i hi => ?_, fun i hi => ?_, fun i hi => ?_⟩
  · exact (r.wf.has_lt ((mem_col r.wf i j).mp hi)).1
  · rw [← r.hn]; exact (r.wf'.has_lt ((mem_col r.wf' i _).mp hi)).1
  · rw [mem_col r.wf', mem_col r.wf]; exact r.hR i hi j hj

theorem exists_image_iff {σ σi : Nat → Nat} {n a a' : Nat} (hp : PermOn σ σi n)
    (h : Image σ n a a') : (∃ i, i ∈ᵇ a') ↔ ∃ i, i ∈ᵇ a := by
  constructor
  · rintro ⟨k, hk⟩
    have hkn := h.2.1 k hk
    refine ⟨σi k, (h.2.2 _ (hp k hkn).2.1).mp ?_⟩
    rw [(hp k hkn).2.2.2]; exact hk
  · rintro ⟨i, hi⟩; exact ⟨σ i, (h.2.2 i (h.1 i hi)).mpr hi⟩

theorem Image.and {σ σi : Nat → Nat} {n a a' b b' : Nat} (_hp : PermOn σ σi n)
    (h1 : Image σ n a a') (h2 : Image σ n b b') : Image σ n (a &&& b) (a' &&& b') := by
  refine ⟨fun i hi => h1.1 i (mem_and.mp hi).1, fun i hi => h1.2.1 i (mem_and.mp hi).1,
    fun i hi => ?_⟩
  rw [mem_and, mem_and, h1.2.2 i hi, h2.2.2 i hi]

theorem Image.andNot {σ σi : Nat → Nat} {n a a' b b' : Nat} (_hp : PermOn σ σi n)
    (h1 : Image σ n a a') (h2 : Image σ n b b') : Image σ n (andNot a b) (andNot a' b') := by
  refine ⟨fun i hi => h1.1 i (mem_andNot.mp hi).1, fun i hi => h1.2.1 i (mem_andNot.mp hi).1,
    fun i hi => ?_⟩
  rw [mem_andNot, mem_andNot, h1.2.2 i hi, h2.2.2 i hi]

theorem Image.or {σ σi : Nat → Nat} {n a a' b b' : Nat} (_hp : PermOn σ σi n)
    (h1 : Image σ n a a') (h2 : Image σ n b b') : Image σ n (a ||| b) (a' ||| b') := by
  refine ⟨fun i hi => ?_, fun i hi => ?_, fun i hi => ?_⟩
  · rcases mem_or.mp hi with h | h
    · exact h1.1 i h
    · exact h2.1 i h
  · rcases mem_or.mp hi with h | h
    · exact h1.2.1 i h
    · exact h2.2.1 i h
  · rw [mem_or, mem_or, h1.2.2 i hi, h2.2.2 i hi]

theorem image_full {σ σi : Nat → Nat} {n : Nat} (hp : PermOn σ σi n) :
    Image σ n (full n) (full n) := by
  refine ⟨bounded_full n, bounded_full n, fun i hi => ?_⟩
  rw [mem_full, mem_full]
  exact ⟨fun _ => hi, fun _ => (hp i hi).1⟩

theorem Image.ne_zero_iff {σ σi : Nat → Nat} {n a a' : Nat} (hp : PermOn σ σi n)
    (h : Image σ n a a') : a ≠ 0 ↔ a' ≠ 0 := by
  rw [FCA.ne_zero_iff, FCA.ne_zero_iff]; exact (exists_image_iff hp h).symm

theorem image_ne_full_iff {σ σi : Nat → Nat} {n a a' : Nat} (hp : PermOn σ σi n)
    (h : Image σ n a a') : a ≠ full n ↔ a' ≠ full n := by
  constructor
  · intro hne e; subst e
    exact hne (Image.unique hp.symm (h.symm hp) ((image_full hp).symm hp))
  · intro hne e; subst e
    exact hne (Image.unique hp h (image_full hp))

theorem binaryCode_image {σ σi : Nat → Nat} {n l l' r r' : Nat} (hp : PermOn σ σi n)
    (hl : Image σ n l l') (hr : Image σ n r r') : binaryCode n l r = binaryCode n l' r' := by
  have e1 := Image.ne_zero_iff hp (Image.and hp hl hr)
  have e2 := Image.ne_zero_iff hp (Image.andNot hp hl hr)
  have e3 := Image.ne_zero_iff hp (Image.andNot hp hr hl)
  have e4 := Image.ne_zero_iff hp (Image.andNot hp (image_full hp) (Image.or hp hl hr))
  unfold binaryCode
  simp only [e1, e2, e3, e4]

theorem unaryCode_image {σ σi : Nat → Nat} {n c c' : Nat} (hp : PermOn σ σi n)
    (hc : Image σ n c c') : unaryCode n c = unaryCode n c' := by
  have e1 := Image.ne_zero_iff hp hc
  have e2 := image_ne_full_iff hp hc
  unfold unaryCode
  simp only [e1, e2]

/-! ### contexts with one more column -/

/-- `K'` is `K` plus the new property number `K.m` whose object set is the mask `E`, an extent of `K` -/
structure AddCol (K K' : Ctx) (E : Nat) : Prop where
  wf : K.WF
  wf' : K'.WF
  hn : K'.n = K.n
  hm : K'.m = K.m + 1
  hE : ∃ BE, isConcept K E BE
  hold : ∀ i, i < K.n → ∀ j, j < K.m → (K'.has i j ↔ K.has i j)
  hnew : ∀ i, i < K.n → (K'.has i K.m ↔ i ∈ᵇ E)

theorem AddCol.fwd {K K' : Ctx} {E : Nat} (a : AddCol K K' E) {A B B' : Nat}
    (hB' : ∀ j, j ∈ᵇ B' ↔ j ∈ᵇ B ∨ (j = K.m ∧ A ⊆ᵇ E))
    (h : isConcept K A B) : isConcept K' A B' := by
  rw [isConcept_iff_IsC a.wf', a.hn, a.hm]
  exact IsC_addCol_imp (fun i j hi hj => a.hold i hi j hj) a.hnew hB' ((isConcept_iff_IsC a.wf).mp h)

theorem AddCol.bwd {K K' : Ctx} {E : Nat} (a : AddCol K K' E) {A B' : Nat}
    (h : isConcept K' A B') : isConcept K A (B' &&& full K.m) := by
  obtain ⟨BE, hE⟩ := a.hE
  rw [isConcept_iff_IsC a.wf', a.hn, a.hm] at h
  rw [isConcept_iff_IsC a.wf]
  exact IsC_addCol_restrict ((isConcept_iff_IsC a.wf).mp hE) (fun i j hi hj => a.hold i hi j hj) a.hnew h

theorem AddCol.new_mem {K K' : Ctx} {E : Nat} (a : AddCol K K' E) {A B' : Nat}
    (h : isConcept K' A B') : K.m ∈ᵇ B' ↔ A ⊆ᵇ E := by
  rw [isConcept_iff_IsC a.wf', a.hn, a.hm] at h
  exact IsC_addCol_new_mem a.hnew h

/-- the canonical new intent -/
def addColIntent (m E A B : Nat) : Nat := if A &&& E = A then B ||| 2 ^ m else B

theorem mem_addColIntent {m E A B j : Nat} :
    j ∈ᵇ addColIntent m E A B ↔ j ∈ᵇ B ∨ (j = m ∧ A ⊆ᵇ E) := by
  unfold addColIntent
  by_cases h : A &&& E = A
  · have hs := and_eq_left_iff.mp h
    simp only [h, if_true, mem_or, mem_pow]
    tauto
  · have hs : ¬ A ⊆ᵇ E := fun hs => h (and_eq_left_iff.mpr hs)
    simp only [h, if_false]
    tauto

theorem AddCol.extents_iff {K K' : Ctx} {E : Nat} (a : AddCol K K' E) {A : Nat} :
    (∃ B, isConcept K A B) ↔ (∃ B', isConcept K' A B') :=
  ⟨fun ⟨B, h⟩ => ⟨addColIntent K.m E A B, a.fwd (fun _ => mem_addColIntent) h⟩,
   fun ⟨_, h⟩ => ⟨_, a.bwd h⟩⟩

theorem AddCol.card {K K' : Ctx} {E : Nat} (a : AddCol K K' E) :
    (conceptSet K').card = (conceptSet K).card := by
  symm
  apply conceptSet_card_eq (fun p => (p.1, addColIntent K.m E p.1 p.2))
    (fun p => (p.1, p.2 &&& full K.m))
  · intro A B h; exact a.fwd (fun _ => mem_addColIntent) h
  · intro A B h; exact a.bwd h
  · intro A B h
    have hB := h.2.1
    simp only [Prod.mk.injEq, true_and]
    apply ext; intro j
    rw [mem_and, mem_addColIntent, mem_full]
    constructor
    · rintro ⟨h1 | ⟨rfl, _⟩, h2⟩
      · exact h1
      · omega
    · intro hj; exact ⟨Or.inl hj, hB j hj⟩
  · intro A B' h
    have hB : Bounded (K.m + 1) B' := by rw [← a.hm]; exact h.2.1
    have hnew := a.new_mem h
    simp only [Prod.mk.injEq, true_and]
    apply ext; intro j
    rw [mem_addColIntent, mem_and, mem_full]
    constructor
    · rintro (h1 | ⟨rfl, hs⟩)
      · exact h1.1
      · exact hnew.mpr hs
    · intro hj
      by_cases hjm : j < K.m
      · exact Or.inl ⟨hj, hjm⟩
      · have : j = K.m := by have := hB j hj; omega
        subst this
        exact Or.inr ⟨rfl, hnew.mp hj⟩

/-! ### duplicated column, full column, duplicated row -/

/-- `K'` is `K` plus a copy (number `K.m`) of property `j₀` -/
structure DupCol (K K' : Ctx) (j₀ : Nat) : Prop where
  wf : K.WF
  wf' : K'.WF
  hn : K'.n = K.n
  hm : K'.m = K.m + 1
  hj : j₀ < K.m
  hold : ∀ i, i < K.n → ∀ j, j < K.m → (K'.has i j ↔ K.has i j)
  hnew : ∀ i, i < K.n → (K'.has i K.m ↔ K.has i j₀)

theorem bounded_pow {k g : Nat} (h : g < k) : Bounded k (2 ^ g) := by
  intro i hi; rw [mem_pow] at hi; omega

theorem DupCol.addCol {K K' : Ctx} {j₀ : Nat} (d : DupCol K K' j₀) :
    AddCol K K' (K.extentOf (2 ^ j₀)) := by
  refine ⟨d.wf, d.wf', d.hn, d.hm, ⟨K.intentOf (K.extentOf (2 ^ j₀)), ?_⟩, d.hold, ?_⟩
  · exact ⟨bounded_extentOf d.wf _, bounded_intentOf _, rfl,
      extent_intent_extent d.wf (bounded_pow d.hj)⟩
  · intro i hi
    rw [d.hnew i hi, mem_extentOf d.wf]
    constructor
    · intro h; exact ⟨hi, fun j hj => by rw [mem_pow] at hj; subst hj; exact h⟩
    · intro h; exact h.2 j₀ (mem_pow.mpr rfl)

theorem DupCol.sub_iff {K K' : Ctx} {j₀ : Nat} (d : DupCol K K' j₀) {A B : Nat}
    (h : isConcept K A B) : A ⊆ᵇ K.extentOf (2 ^ j₀) ↔ j₀ ∈ᵇ B := by
  obtain ⟨hA, _, h1, _⟩ := (isConcept_spec d.wf).mp h
  rw [h1]
  constructor
  · intro hs
    refine ⟨d.hj, fun i hi => ?_⟩
    exact ((mem_extentOf d.wf _ i).mp (hs i hi)).2 j₀ (mem_pow.mpr rfl)
  · rintro ⟨_, hall⟩ i hi
    rw [mem_extentOf d.wf]
    exact ⟨hA i hi, fun j hj => by rw [mem_pow] at hj; subst hj; exact hall i hi⟩

theorem DupCol.fwd {K K' : Ctx} {j₀ : Nat} (d : DupCol K K' j₀) {A B : Nat}
    (h : isConcept K A B) : isConcept K' A (if j₀ ∈ᵇ B then B ||| 2 ^ K.m else B) := by
  apply d.addCol.fwd _ h
  intro j
  rw [d.sub_iff h]
  by_cases hj : j₀ ∈ᵇ B
  · simp only [hj, if_true, mem_or, mem_pow]; tauto
  · simp only [hj, if_false]; tauto

/-- `K'` is `K` plus a property (number `K.m`) that every object has -/
structure FullCol (K K' : Ctx) : Prop where
  wf : K.WF
  wf' : K'.WF
  hn : K'.n = K.n
  hm : K'.m = K.m + 1
  hold : ∀ i, i < K.n → ∀ j, j < K.m → (K'.has i j ↔ K.has i j)
  hnew : ∀ i, i < K.n → K'.has i K.m

theorem FullCol.addCol {K K' : Ctx} (d : FullCol K K') : AddCol K K' (full K.n) := by
  refine ⟨d.wf, d.wf', d.hn, d.hm, ⟨K.intentOf (full K.n), ?_⟩, d.hold, ?_⟩
  · refine ⟨bounded_full _, bounded_intentOf _, rfl, ?_⟩
    exact sub_antisymm (bounded_iff_sub_full.mp (bounded_extentOf d.wf _))
      (sub_extent_intent d.wf (bounded_full _))
  · intro i hi
    rw [mem_full]
    exact ⟨fun _ => hi, fun _ => d.hnew i hi⟩

theorem FullCol.fwd {K K' : Ctx} (d : FullCol K K') {A B : Nat}
    (h : isConcept K A B) : isConcept K' A (B ||| 2 ^ K.m) := by
  apply d.addCol.fwd _ h
  intro j
  have : A ⊆ᵇ full K.n := bounded_iff_sub_full.mp h.1
  rw [mem_or, mem_pow]; tauto

/-- `K'` is `K` plus a copy (number `K.n`) of object `i₀` -/
structure DupRow (K K' : Ctx) (i₀ : Nat) : Prop where
  wf : K.WF
  wf' : K'.WF
  hn : K'.n = K.n + 1
  hm : K'.m = K.m
  hi : i₀ < K.n
  hold : ∀ i, i < K.n → ∀ j, j < K.m → (K'.has i j ↔ K.has i j)
  hnew : ∀ j, j < K.m → (K'.has K.n j ↔ K.has i₀ j)

theorem DupRow.transpose {K K' : Ctx} {i₀ : Nat} (d : DupRow K K' i₀) :
    DupCol K.transpose K'.transpose i₀ := by
  refine ⟨transpose_WF d.wf, transpose_WF d.wf', d.hm, d.hn, d.hi, ?_, ?_⟩
  · intro j hj i hi
    rw [transpose_has d.wf', transpose_has d.wf]
    exact d.hold i hi j hj
  · intro j hj
    rw [transpose_has d.wf', transpose_has d.wf]
    exact d.hnew j hj

/-! ### counting -/

theorem mapMask_inv {σ σi : Nat → Nat} {n a : Nat} (hp : PermOn σ σi n) (ha : Bounded n a) :
    mapMask σi n (mapMask σ n a) = a := by
  have i1 := image_mapMask hp ha
  have i2 := image_mapMask hp.symm i1.2.1
  exact (Image.unique hp.symm (i1.symm hp) i2).symm

theorem transpose_card {K : Ctx} (h : K.WF) : (conceptSet K.transpose).card = (conceptSet K).card := by
  symm
  apply conceptSet_card_eq Prod.swap Prod.swap
  · intro A B hc; exact (isConcept_transpose h).mpr hc
  · intro A B hc; exact (isConcept_transpose h).mp hc
  · intro A B _; rfl
  · intro A B _; rfl

theorem Relabel.card {K K' : Ctx} {σ σi τ τi : Nat → Nat} (r : Relabel K K' σ σi τ τi) :
    (conceptSet K').card = (conceptSet K).card := by
  symm
  apply conceptSet_card_eq (fun p => (mapMask σ K.n p.1, mapMask τ K.m p.2))
    (fun p => (mapMask σi K.n p.1, mapMask τi K.m p.2))
  · intro A B h
    exact (r.concept_iff (image_mapMask r.hσ h.1) (image_mapMask r.hτ h.2.1)).mp h
  · intro A' B' h; exact (r.concept_preimage h).2.2
  · intro A B h
    simp only [mapMask_inv r.hσ h.1, mapMask_inv r.hτ h.2.1]
  · intro A' B' h
    have bA : Bounded K.n A' := by rw [← r.hn]; exact h.1
    have bB : Bounded K.m B' := by rw [← r.hm]; exact h.2.1
    simp only [mapMask_inv r.hσ.symm bA, mapMask_inv r.hτ.symm bB]

end FCA
