"""C15 - lattice structure is invariant under relabelling, duplication and transposition."""
from core import guard, PyCtx, lattice_view, Disagreement
from props import lat
import gen


class LCtx:
    """A real context with explicit labels (labels move with rows / columns)."""

    def __init__(self, objs, props, rows):
        import concepts
        self.objs, self.props, self.rows = list(objs), list(props), list(rows)
        self.n, self.m = len(objs), len(props)
        bools = [tuple(bool((r >> j) & 1) for j in range(self.m)) for r in rows]
        self.ctx = concepts.Context(self.objs, self.props, bools)

    @property
    def line(self):
        return 'ctx %d %d %s' % (self.n, self.m, ' '.join(map(str, self.rows)))


def label_view(lc, sample_pairs):
    """Label-level statements: concepts, covering pairs, joins/meets of sampled pairs, relations."""
    L = lc.ctx.lattice
    cs = list(L)
    by_position = [L[i] for i in range(len(L))]
    if [id(c) for c in by_position] != [id(c) for c in cs] or [id(c) for c in reversed(L)] != [id(c) for c in cs[::-1]]:
        raise Disagreement('lattice[i] for i in range(len(lattice)) (or reversed(lattice)) is not the iteration sequence')
    key = lambda c: (frozenset(c.extent), frozenset(c.intent))
    concepts_ = frozenset(key(c) for c in cs)
    covers = frozenset((key(c), key(u)) for c in cs for u in c.upper_neighbors)
    lower = frozenset((key(l), key(c)) for c in cs for l in c.lower_neighbors)
    by_ext = {frozenset(c.extent): c for c in cs}
    jm = {}
    for a, b in sample_pairs:
        x, y = by_ext.get(a), by_ext.get(b)
        if x is not None and y is not None:
            jm[(a, b)] = (key(x | y), key(x & y), key(L.join([x, y])), key(L.meet([x, y])))
    from concepts import algorithms
    for gname in ('fast_generate_from', 'fcbo_dual'):
        gen_pairs = [(frozenset(e.members()), frozenset(i.members())) for e, i in getattr(algorithms, gname)(lc.ctx)]
        if len(gen_pairs) != len(set(gen_pairs)) or frozenset(gen_pairs) != concepts_:
            raise Disagreement('%s disagrees with the lattice of this context: %d pairs (%d distinct) against %d concepts'
                               % (gname, len(gen_pairs), len(set(gen_pairs)), len(concepts_)))
    rels = set()
    for r in lc.ctx.relations():
        if r.kind == 'implication':
            rels.add((r.kind, r.left, r.right))
        else:
            rels.add((r.kind, frozenset((r.left, r.right))))
    return {'concepts': concepts_, 'covers': covers, 'lower': lower, 'joinmeet': jm, 'relations': frozenset(rels), 'count': len(cs)}


def model_pairs(drv, lc):
    drv.ask(lc.line)
    ans = drv.ask('lattice')
    model = lat.parse_lattice(ans)
    def labels(e, names):
        return frozenset(names[i] for i in range(len(names)) if (e >> i) & 1)
    return frozenset((labels(c['extent'], lc.objs), labels(c['intent'], lc.props)) for c in model)


def run(run):
    run.rule = ('contexts as C03 (small / medium); for each: 2 sampled row+column permutations (labels moving along), the transposed '
                'context (built with Definition.transposed), every choice of one duplicated row, one duplicated column and an added '
                'full column; the label-level concept sets, covering pairs, sampled joins / meets and relations() of the original and '
                'the transformed context are related as the property says, and both concept sets equal the model\'s')
    drv = run.driver
    rng = run.rng
    from concepts import Definition, Context
    for tab in gen.suite(rng, run.tier, exh_quick=6, rand_quick=140, wide_quick=6, exh_thorough=9, rand_thorough=1500, nmax=7, mmax=7):
        n, m, rows = tab
        if not run.time_left():
            run.notes.append('stopped at the deadline')
            break
        if min(n, m) > 8:
            continue
        objs = ['o%d' % ((i * 37 + 11) % 1009) for i in range(n)]
        props = ['p%d' % ((j * 53 + 7) % 1013) for j in range(m)]
        nt = gen.nontrivial(tab)
        with guard(run, 'original context', ['ctx %d %d %s' % (n, m, ' '.join(map(str, rows)))]):
            base = LCtx(objs, props, rows)
            exts = [frozenset(c.extent) for c in base.ctx.lattice]
            pairs = [(rng.choice(exts), rng.choice(exts)) for _ in range(8)]
            v0 = label_view(base, pairs)
        if model_pairs(drv, base) != v0['concepts']:
            run.notes.append('concept set differs from model (see C03)')
            continue
        extra = {'objects': objs, 'properties': props, 'rows': rows}
        # permutations
        for _ in range(2):
            po, pp = list(range(n)), list(range(m))
            rng.shuffle(po)
            rng.shuffle(pp)
            rows2 = [sum((((rows[i] >> pp[j]) & 1) << j) for j in range(m)) for i in po]
            with guard(run, 'permuted context', [base.line]):
                t = LCtx([objs[i] for i in po], [props[j] for j in pp], rows2)
                # the same permutation carried out on a definition in place: a refused rename (name in use), renames to
                # temporary names and back, moves into the new order
                dd = base.ctx.definition()
                if n > 1:
                    try:
                        dd.rename_object(objs[0], objs[1])
                    except ValueError:
                        pass
                if m > 1:
                    try:
                        dd.rename_property(props[0], props[1])
                    except ValueError:
                        pass
                for o in objs:
                    dd.rename_object(o, 'tmp ' + o)
                for o in objs:
                    dd.rename_object('tmp ' + o, o)
                for k_, i_ in enumerate(po):
                    dd.move_object(objs[i_], k_)
                for k_, j_ in enumerate(pp):
                    dd.move_property(props[j_], k_)
                if Context(*dd) != t.ctx:
                    run.fail('context of a definition permuted in place (rename / move) differs from the permuted table',
                             [dd.objects, dd.properties, dd.bools], [t.ctx.objects, t.ctx.properties, t.ctx.bools], [base.line, t.line], extra)
                v = label_view(t, pairs)
            run.case(base.line + '|perm %r %r' % (po, pp), nt, {'context': base.line, 'transformation': 'rows %r columns %r' % (po, pp)})
            for k in ('concepts', 'covers', 'lower', 'joinmeet', 'relations'):
                if v[k] != v0[k]:
                    run.fail('%s change under row/column permutation %r / %r' % (k, po, pp), sorted(map(repr, v[k]))[:6] if k != 'joinmeet' else repr(v[k])[:400],
                             sorted(map(repr, v0[k]))[:6] if k != 'joinmeet' else repr(v0[k])[:400], [base.line, t.line], extra)
            if model_pairs(drv, t) != v['concepts']:
                run.fail('permuted context: concept set differs from the model', None, None, [t.line, 'lattice'], extra)
            run.count('permutation')
        # transposition (dual lattice)
        with guard(run, 'transposed context', [base.line]):
            d0 = Definition(objs, props, base.ctx.bools)
            dt = d0.transposed()
            # what happens to the source afterwards is no business of the transposed definition
            d0.add_object('added later', props[:1])
            d0.add_property('also later', objs[:1])
            d0.rename_object(objs[0], 'renamed later')
            tctx = Context(*dt)
            t = LCtx(list(tctx.objects), list(tctx.properties), [sum(1 << j for j, b in enumerate(r) if b) for r in tctx.bools])
            vt = label_view(t, [])
            Lt = t.ctx.lattice
            by_ext_t = {frozenset(c.extent): c for c in Lt}
        run.case(base.line + '|transpose', nt, {'context': base.line, 'transformation': 'transpose'})
        swap = lambda s: frozenset((b, a) for a, b in s)
        if swap(vt['concepts']) != v0['concepts']:
            run.fail('transposed context does not have the dual concepts', None, None, [base.line, t.line], extra)
        if frozenset(((b[1], b[0]), (a[1], a[0])) for a, b in vt['covers']) != v0['covers']:
            run.fail('covering relation of the transposed context is not the reversed one', None, None, [base.line, t.line], extra)
        for (a, b), (j, mt, _j2, _m2) in v0['joinmeet'].items():
            # concept of K with extent a corresponds to the concept of K^T with intent a
            xa = [c for c in Lt if frozenset(c.intent) == a]
            xb = [c for c in Lt if frozenset(c.intent) == b]
            if len(xa) != 1 or len(xb) != 1:
                run.fail('dual concept missing in the transposed lattice', None, None, [base.line, t.line], extra)
            jt, mt_ = xa[0] | xb[0], xa[0] & xb[0]
            if (frozenset(mt_.intent), frozenset(mt_.extent)) != j or (frozenset(jt.intent), frozenset(jt.extent)) != mt:
                run.fail('join/meet are not exchanged by transposition', None, None, [base.line, t.line], extra)
        if model_pairs(drv, t) != vt['concepts']:
            run.fail('transposed context: concept set differs from the model', None, None, [t.line, 'lattice'], extra)
        run.count('transposition')
        # duplication
        if n <= 7 and m <= 7:
            intents0 = frozenset(i for _, i in v0['concepts'])
            extents0 = frozenset(e for e, _ in v0['concepts'])
            work = base.ctx.definition()      # one definition edited in place: add the copy, look, remove it again
            for i in range(n):
                with guard(run, 'duplicated row %d' % i, [base.line]):
                    t = LCtx(objs + ['copy'], props, rows + [rows[i]])
                    work.add_object('copy', [p for j, p in enumerate(props) if (rows[i] >> j) & 1])
                    via_def = Context(*work)
                    work.remove_object('copy')
                    if via_def != t.ctx:
                        run.fail('context of a definition with a copied row (add_object / remove_object in place) differs from the '
                                 'context built from the table', [via_def.objects, via_def.bools], [t.ctx.objects, t.ctx.bools], [base.line, t.line], extra)
                    cs = [(frozenset(c.extent), frozenset(c.intent)) for c in via_def.lattice]
                run.case(base.line + '|duprow %d' % i, nt)
                if frozenset(i_ for _, i_ in cs) != intents0 or len(cs) != v0['count']:
                    run.fail('duplicating row %d changes the intents / number of concepts' % i, len(cs), v0['count'], [base.line, t.line], extra)
                run.count('duplicated row')
            for j in list(range(m)) + ['full']:
                if j == 'full':
                    rows2 = [r | (1 << m) for r in rows]
                else:
                    rows2 = [r | (((r >> j) & 1) << m) for r in rows]
                with guard(run, 'duplicated / full column %r' % j, [base.line]):
                    t = LCtx(objs, props + ['copy'], rows2)
                    work.add_property('copy', [o for i2, o in enumerate(objs) if (rows2[i2] >> m) & 1])
                    via_def = Context(*work)
                    work.remove_property('copy')
                    if via_def != t.ctx:
                        run.fail('context of a definition with a copied column (add_property / remove_property in place) differs from '
                                 'the context built from the table', [via_def.properties, via_def.bools], [t.ctx.properties, t.ctx.bools], [base.line, t.line], extra)
                    cs = [(frozenset(c.extent), frozenset(c.intent)) for c in via_def.lattice]
                run.case(base.line + '|dupcol %r' % j, nt)
                if frozenset(e for e, _ in cs) != extents0 or len(cs) != v0['count']:
                    run.fail('duplicating column %r changes the extents / number of concepts' % j, len(cs), v0['count'], [base.line, t.line], extra)
                run.count('duplicated column')
