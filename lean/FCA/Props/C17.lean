import FCA.Props.C01
import FCA.Props.C13
import FCA.Proofs.Assemble
import FCA.Model.Misc
import FCA.Props.C09
import Mathlib.Data.List.Flatten
/-
C17 — All results are deterministic across processes and hash seeds.

String-hash randomisation is a runtime behaviour; its only effect on this code is the *enumeration
order of sets*. The universally quantified part of the property is therefore: at every site where the
code iterates a set, the result does not depend on the enumeration. The model takes that enumeration
as the order (and multiplicity) of a list argument, and the theorems below state independence of it.
Sites that use a set for membership tests only are listed in harness/hash_sites.json (static inventory).
The runtime part (several `PYTHONHASHSEED` values) is explored by the check, not proved.
-/
namespace FCA

/-- site `MemberBits.frommembers` (`sum(map(_map.__getitem__, set(members)))`): any enumeration of the
same set of members, with or without repeats, gives the same bit set -/
theorem C17_frommembers_order (l l' : List Nat) (h : ∀ x, x ∈ l ↔ x ∈ l') : ofMembers l = ofMembers l' :=
  C01_ofMembers_congr l l' h

theorem mem_eraseDups_iff (l : List Nat) (x : Nat) : x ∈ l.eraseDups ↔ x ∈ l := List.mem_eraseDups

/-- site `tools.maximal` (`set(iterable)` … `permutations`): which elements are kept does not depend on
the enumeration order or on repeats of the input; the kept elements then only seed a heap
(`C17_traversal_seed_order` in C09: the traversal output does not depend on the seed order either) -/
theorem C17_maximal_members (cmp : Nat → Nat → Bool) (l l' : List Nat) (h : ∀ x, x ∈ l ↔ x ∈ l') :
    ∀ x, x ∈ maximalBy cmp l ↔ x ∈ maximalBy cmp l' := by
  intro x
  have hd : ∀ y, y ∈ l.eraseDups ↔ y ∈ l'.eraseDups := fun y => by
    rw [mem_eraseDups_iff, mem_eraseDups_iff]; exact h y
  have hany : ∀ z, (l.eraseDups.any fun y => y != z && cmp z y) = (l'.eraseDups.any fun y => y != z && cmp z y) := by
    intro z
    rw [Bool.eq_iff_iff, List.any_eq_true, List.any_eq_true]
    exact ⟨fun ⟨y, hy, hp⟩ => ⟨y, (hd y).mp hy, hp⟩, fun ⟨y, hy, hp⟩ => ⟨y, (hd y).mpr hy, hp⟩⟩
  -- the `< 2` shortcut returns everything, and with fewer than two distinct elements nothing is filtered out
  have key : ∀ (m : List Nat), m.Nodup → (x ∈ (if m.length < 2 then m else m.filter fun x => !(m.any fun y => y != x && cmp x y)) ↔
      x ∈ m ∧ (2 ≤ m.length → (m.any fun y => y != x && cmp x y) = false)) := by
    intro m _
    split
    · rename_i hlt
      constructor
      · intro hx; exact ⟨hx, fun h2 => by omega⟩
      · intro hx; exact hx.1
    · rename_i hge
      rw [List.mem_filter]
      simp only [Bool.not_eq_true']
      constructor
      · rintro ⟨h1, h2⟩; exact ⟨h1, fun _ => h2⟩
      · rintro ⟨h1, h2⟩; exact ⟨h1, h2 (by omega)⟩
  have hlen : l.eraseDups.length = l'.eraseDups.length :=
    ((List.perm_ext_iff_of_nodup (nodup_eraseDups _) (nodup_eraseDups _)).mpr hd).length_eq
  show x ∈ (if l.eraseDups.length < 2 then l.eraseDups else l.eraseDups.filter fun x => !(l.eraseDups.any fun y => y != x && cmp x y)) ↔
    x ∈ (if l'.eraseDups.length < 2 then l'.eraseDups else l'.eraseDups.filter fun x => !(l'.eraseDups.any fun y => y != x && cmp x y))
  rw [key _ (nodup_eraseDups _), key _ (nodup_eraseDups _), hd x, hany x, hlen]

/-- … and the traversal seeded with them yields the same sequence for every enumeration (and any repeats)
of the same set of concepts -/
theorem C17_traversal_seed_order (K : Ctx) (h : K.WF) (cs cs' : List Nat)
    (hv : ∀ c ∈ cs, c < (mkLattice K).length) (hm : ∀ x, x ∈ cs ↔ x ∈ cs') :
    upsetUnion (mkLattice K) cs = upsetUnion (mkLattice K) cs' ∧
    downsetUnion (mkLattice K) cs = downsetUnion (mkLattice K) cs' :=
  C09_union_congr K h cs cs' hv hm

/-- site `Lattice._annotate` (`for c in touched: c.objects = tuple(c.objects)`): in the model the labels
of a concept are a function of the context and of its extent alone — no enumeration of touched
concepts enters -/
theorem C17_annotate_touched_order (K : Ctx) (recs : List Rec) (k : Nat) (r : Rec) :
    (mkConcept K recs k r).objects = (List.range K.n).filter (fun o => K.extentOf (K.intentOf (2 ^ o)) == r.extent) ∧
    (mkConcept K recs k r).properties = (List.range K.m).filter (fun p => K.extentOf (2 ^ p) == r.extent) :=
  ⟨rfl, rfl⟩

/-- sites `set_object` / `set_property` / `add_*` / `union_update` (`Unique |= names`): new names are
appended in the order given — the order of the *argument list*, no set involved (this is what the
repaired `set_object` / `set_property` do; before the repair the argument passed through a `set`) -/
theorem C17_set_object_order (d : Defn) (o : Name) (ps : List Name) (d' : Defn) (r : List Name)
    (h : d.step (.setObject o ps) = .ok (d', r)) :
    d'.props = d.props ++ uniq (ps.filter (fun x => !d.props.contains x)) := by
  simp only [Defn.step, Except.ok.injEq, Prod.mk.injEq] at h
  rw [← h.1]
  exact C13_append_order d.props ps

theorem C17_set_property_order (d : Defn) (p : Name) (os : List Name) (d' : Defn) (r : List Name)
    (h : d.step (.setProperty p os) = .ok (d', r)) :
    d'.objs = d.objs ++ uniq (os.filter (fun x => !d.objs.contains x)) := by
  simp only [Defn.step, Except.ok.injEq, Prod.mk.injEq] at h
  rw [← h.1]
  exact C13_append_order d.objs os

/-- site `conflicting_pairs` (the pairs listed in the `ValueError` message): enumerated in the table
order of the left operand (objects, then properties); the symmetric-difference *set* is only used for
membership -/
theorem C17_conflicts_order (l r : Defn) :
    (conflicts l r).Sublist (l.objs.flatMap fun o => l.props.map fun p => (o, p)) := by
  unfold conflicts
  simp only
  refine ((List.Sublist.flatMap_right _ (g := fun o => l.props.map fun p => (o, p)) ?_).trans
    (List.Sublist.flatMap List.filter_sublist _))
  intro o _
  have h1 : ((l.props.filter r.props.contains).filterMap fun p =>
      if (l.pairs.contains (o, p) != r.pairs.contains (o, p)) = true then some (o, p) else none).Sublist
      ((l.props.filter r.props.contains).map fun p => (o, p)) := by
    induction (l.props.filter r.props.contains) with
    | nil => simp
    | cons a t ih =>
      rw [List.filterMap_cons, List.map_cons]
      split
      · rename_i hnone
        exact ih.trans (List.sublist_cons_self _ _)
      · rename_i b hsome
        split at hsome
        · simp at hsome; subst hsome; exact ih.cons₂ _
        · simp at hsome
  exact h1.trans (List.Sublist.map _ List.filter_sublist)

end FCA
