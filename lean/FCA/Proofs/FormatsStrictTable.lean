import FCA.Proofs.FormatsTable
import FCA.Proofs.FormatsStrictCxt
/-
The strict reader of the ASCII-art table (`strictTable`, written from the layout alone) recovers
the triple from `dumpTable`.
-/
namespace FCA

/-! ### lines of the dumped table -/

/-- `(sep.join(parts) + sep).split(sep) == parts + ['']` -/
theorem splitChar_joinWith_sep {sep : Char} {parts : List Str} (hne : parts ≠ [])
    (h : ∀ p ∈ parts, sep ∉ p) : splitChar sep (joinWith [sep] parts ++ [sep]) = parts ++ [[]] := by
  induction parts with
  | nil => contradiction
  | cons x xs ih =>
    cases xs with
    | nil =>
      have := splitChar_append_sep (h x (by simp)) []
      simpa [joinWith, splitChar] using this
    | cons y ys =>
      rw [joinWith_cons_cons, List.append_assoc, List.append_assoc, List.singleton_append,
        splitChar_append_sep (h x (by simp)), ih (by simp) (fun p hp => h p (by simp [hp]))]
      simp

/-- the lines of the dumped table: header and one line per object -/
theorem splitChar_dumpTable {objects properties : List Str} {bools : List (List Bool)}
    (ho : ∀ o ∈ objects, '\n' ∉ o) (hp : ∀ p ∈ properties, '\n' ∉ p) (indent : Nat) :
    splitChar '\n' (dumpTable indent objects properties bools) =
      fmtLine indent (objWidth objects :: properties.map (·.length)) ([] :: properties) ::
        (objects.zip bools).map fun x =>
          fmtLine indent (objWidth objects :: properties.map (·.length)) (x.1 :: x.2.map sym) := by
  set wd := objWidth objects :: properties.map (·.length) with hwd
  set H := fmtLine indent wd ([] :: properties) with hH
  set R := (objects.zip bools).map (fun (x : Str × List Bool) =>
    fmtLine indent wd (x.1 :: x.2.map sym)) with hR
  have hform : ∀ l ∈ H :: R, ∃ cells, l = fmtLine indent wd cells ∧ ∀ c ∈ cells, '\n' ∉ c := by
    intro l hl
    rcases List.mem_cons.1 hl with rfl | hl
    · refine ⟨_, rfl, ?_⟩
      intro c hc
      rcases List.mem_cons.1 hc with rfl | hc
      · simp
      · exact hp c hc
    · simp only [hR, List.mem_map] at hl
      obtain ⟨⟨o, row⟩, hx, rfl⟩ := hl
      refine ⟨_, rfl, ?_⟩
      intro c hc
      rcases List.mem_cons.1 hc with rfl | hc
      · exact ho _ (List.of_mem_zip hx).1
      · simp only [List.mem_map] at hc
        obtain ⟨b, _, rfl⟩ := hc
        exact not_mem_sym (by decide) b
  have hsrc : dumpTable indent objects properties bools = joinWith ['\n'] (H :: R) := by
    rw [dumpTable_eq, unlines_eq_joinWith (by simp), rstripBy_append_right (by simp [isSpace_nl])]
    apply rstripBy_of_last
    apply getLast?_joinWith
    intro l hl
    obtain ⟨cells, rfl, _⟩ := hform l hl
    exact fmtLine_last _ _ _
  rw [hsrc]
  apply splitChar_joinWith (by simp)
  intro l hl
  obtain ⟨cells, rfl, hc⟩ := hform l hl
  exact not_mem_fmtLine (by decide) (by decide) _ _ hc

/-! ### cells of a line -/

theorem strictCells_fmtLine (indent : Nat) (wd : List Nat) (cells : List Str)
    (hne : wd.zip cells ≠ []) (hbar : ∀ c ∈ cells, '|' ∉ c) :
    strictCells indent (fmtLine indent wd cells) =
      some ((wd.zip cells).map fun (w, c) => ljust w c) := by
  set padded := (wd.zip cells).map (fun (w, c) => ljust w c) with hpadded
  have hpne : padded ≠ [] := by simpa [hpadded] using hne
  have hpb : ∀ x ∈ padded, '|' ∉ x := by
    intro x hx
    simp only [hpadded, List.mem_map, Prod.exists] at hx
    obtain ⟨w, c, hwc, rfl⟩ := hx
    intro hm
    rcases mem_ljust hm with hm | hm
    · exact hbar c (List.of_mem_zip hwc).2 hm
    · exact absurd hm (by decide)
  have e : fmtLine indent wd cells = List.replicate indent ' ' ++ (joinWith ['|'] padded ++ ['|']) := by
    simp [fmtLine, hpadded]
  unfold strictCells
  rw [e, List.take_left' (by simp), List.drop_left' (by simp), splitChar_joinWith_sep hpne hpb]
  simp

theorem ljust_nil (w : Nat) : ljust w [] = List.replicate w ' ' := by simp [ljust]

theorem length_ljust {w : Nat} {s : Str} (h : s.length ≤ w) : (ljust w s).length = w := by
  simp only [ljust, List.length_append, List.length_replicate]; omega

theorem le_objWidth {objects : List Str} {o : Str} (h : o ∈ objects) : o.length ≤ objWidth objects := by
  unfold objWidth
  have key : ∀ (l : List Str) (init : Nat),
      init ≤ l.foldl (fun m o => max m o.length) init ∧
      ∀ o ∈ l, o.length ≤ l.foldl (fun m o => max m o.length) init := by
    intro l
    induction l with
    | nil => intro init; simp
    | cons x xs ih =>
      intro init
      have h1 := (ih (max init x.length)).1
      have h2 := (ih (max init x.length)).2
      simp only [List.foldl_cons, List.mem_cons, forall_eq_or_imp]
      refine ⟨by omega, by omega, h2⟩
  exact (key objects 0).2 o h

/-! ### trimming -/

theorem rtrimSp_eq (s : Str) : rtrimSp s = rstripBy (· == ' ') s := rfl

theorem rtrimSp_ljust {w : Nat} {s : Str} (h : ∀ c ∈ s.getLast?, c ≠ ' ') : rtrimSp (ljust w s) = s := by
  rw [rtrimSp_eq, ljust, rstripBy_append_right (by
    intro c hc; rw [List.eq_of_mem_replicate hc]; rfl)]
  apply rstripBy_of_last
  intro c hc
  simpa using h c hc

theorem rtrimSp_id {s : Str} (h : ∀ c ∈ s.getLast?, c ≠ ' ') : rtrimSp s = s := by
  rw [rtrimSp_eq]
  apply rstripBy_of_last
  intro c hc
  simpa using h c hc

theorem rtrimSp_replicate (w : Nat) : rtrimSp (List.replicate w ' ') = [] := by
  have := rtrimSp_ljust (w := w) (s := []) (by simp)
  rwa [ljust_nil] at this

theorem TableLabel.last_ne_space {s : Str} (h : TableLabel s) : ∀ c ∈ s.getLast?, c ≠ ' ' := by
  intro c hc he
  have := h.2.2.1 c hc
  rw [he] at this
  exact absurd this (by decide)

theorem strictFlag_sym (w : Nat) (b : Bool) : strictFlag (ljust w (sym b)) = some b := by
  unfold strictFlag
  rw [rtrimSp_ljust (by cases b <;> simp [sym])]
  cases b <;> decide

theorem strictFlag_flagCells {ps : List Str} {row : List Bool} (h : row.length = ps.length) :
    (flagCells ps row).map strictFlag = row.map some := by
  induction ps generalizing row with
  | nil =>
    cases row with
    | nil => rfl
    | cons => simp at h
  | cons p ps ih =>
    cases row with
    | nil => simp at h
    | cons b bs =>
      rw [flagCells_cons, List.map_cons, strictFlag_sym, ih (by simpa using h)]
      rfl

theorem length_flagCells {ps : List Str} {row : List Bool} (hp : ∀ p ∈ ps, p ≠ [])
    (h : row.length = ps.length) : (flagCells ps row).map (·.length) = ps.map (·.length) := by
  induction ps generalizing row with
  | nil =>
    cases row with
    | nil => rfl
    | cons => simp at h
  | cons p ps ih =>
    cases row with
    | nil => simp at h
    | cons b bs =>
      have hpl : 0 < p.length := List.length_pos_iff.2 (hp p (by simp))
      have : (sym b).length ≤ p.length := by cases b <;> simp [sym]; omega
      rw [flagCells_cons, List.map_cons, List.map_cons, length_ljust this,
        ih (fun q hq => hp q (by simp [hq])) (by simpa using h)]

/-! ### the whole table -/

theorem strictTable_dumpTable {objects properties : List Str} {bools : List (List Bool)}
    (hr : Rect objects properties bools) (ho : ∀ o ∈ objects, TableLabel o)
    (hp : ∀ p ∈ properties, TableLabel p) (indent : Nat) :
    strictTable indent (dumpTable indent objects properties bools) =
      some (objects, properties, bools) := by
  obtain ⟨hone, hpne, hlen, hrow⟩ := hr
  set W := objWidth objects with hW
  have hrowlen : ∀ x ∈ objects.zip bools, x.2.length = properties.length := fun x hx =>
    hrow _ (List.of_mem_zip (a := x.1) (b := x.2) hx).2
  have hpl : ∀ x ∈ properties, x ≠ [] := fun x hx => (hp x hx).1
  -- the cells of all lines
  have hcells : seqOpt ((splitChar '\n' (dumpTable indent objects properties bools)).map
      (strictCells indent)) =
      some ((List.replicate W ' ' :: properties) ::
        (objects.zip bools).map fun x => ljust W x.1 :: flagCells properties x.2) := by
    rw [splitChar_dumpTable (fun o h => (ho o h).2.2.2.1) (fun p h => (hp p h).2.2.2.1),
      List.map_cons, List.map_map]
    have h1 : strictCells indent
        (fmtLine indent (W :: properties.map (·.length)) ([] :: properties)) =
        some (List.replicate W ' ' :: properties) := by
      rw [strictCells_fmtLine _ _ _ (by simp)]
      · simp only [List.zip_cons_cons, List.map_cons, zip_ljust_self, ljust_nil]
      · intro c hc
        rcases List.mem_cons.1 hc with rfl | hc
        · simp
        · exact (hp c hc).2.2.2.2.1
    have h2 : (objects.zip bools).map (strictCells indent ∘ fun x =>
        fmtLine indent (W :: properties.map (·.length)) (x.1 :: x.2.map sym)) =
        ((objects.zip bools).map fun x => ljust W x.1 :: flagCells properties x.2).map some := by
      rw [List.map_map]
      apply List.map_congr_left
      intro x hx
      simp only [Function.comp_apply]
      rw [strictCells_fmtLine _ _ _ (by simp)]
      · rfl
      · intro c hc
        rcases List.mem_cons.1 hc with rfl | hc
        · exact (ho _ (List.of_mem_zip (a := x.1) (b := x.2) hx).1).2.2.2.2.1
        · simp only [List.mem_map] at hc
          obtain ⟨b, _, rfl⟩ := hc
          exact not_mem_sym (by decide) b
    rw [h1, h2, seqOpt, seqOpt_map_some]
  have hz : (objects.zip bools).isEmpty = false := by
    cases objects with
    | nil => contradiction
    | cons o os =>
      cases bools with
      | nil => simp at hlen
      | cons b bs => rfl
  have hpe : properties.isEmpty = false := by cases properties <;> simp_all
  have hwidth : (((objects.zip bools).map fun x => ljust W x.1 :: flagCells properties x.2).any
      fun r => r.map (·.length) != (List.replicate W ' ' :: properties).map (·.length)) = false := by
    rw [List.any_eq_false]
    intro r hr
    simp only [List.mem_map] at hr
    obtain ⟨x, hx, rfl⟩ := hr
    have hxo := (List.of_mem_zip (a := x.1) (b := x.2) hx).1
    have hw : (ljust W x.1).length = W := length_ljust (le_objWidth hxo)
    simp only [List.map_cons, hw, List.length_replicate, length_flagCells hpl (hrowlen x hx)]
    simp
  have hprops : properties.map rtrimSp = properties := by
    conv_rhs => rw [← List.map_id properties]
    exact List.map_congr_left fun p hpm => rtrimSp_id (hp p hpm).last_ne_space
  have hobjs : (((objects.zip bools).map fun x => ljust W x.1 :: flagCells properties x.2).map
      fun r => rtrimSp (r.headD [])) = objects := by
    rw [List.map_map]
    have : (objects.zip bools).map ((fun r : List Str => rtrimSp (r.headD [])) ∘
        fun x => ljust W x.1 :: flagCells properties x.2) = (objects.zip bools).map Prod.fst := by
      apply List.map_congr_left
      intro x hx
      simp only [Function.comp_apply, List.headD_cons]
      exact rtrimSp_ljust (ho _ (List.of_mem_zip (a := x.1) (b := x.2) hx).1).last_ne_space
    rw [this, List.map_fst_zip (by omega)]
  have hflags : seqOpt ((((objects.zip bools).map fun x =>
      ljust W x.1 :: flagCells properties x.2)).map
        fun r => seqOpt ((r.drop 1).map strictFlag)) = some bools := by
    rw [List.map_map]
    have := seqOpt_map_of (l := objects.zip bools) (g := Prod.snd)
      (f := (fun r : List Str => seqOpt ((r.drop 1).map strictFlag)) ∘
        fun x => ljust W x.1 :: flagCells properties x.2) ?_
    · rw [this, List.map_snd_zip (by omega)]
    · intro x hx
      simp only [Function.comp_apply, List.drop_succ_cons, List.drop_zero]
      rw [strictFlag_flagCells (hrowlen x hx), seqOpt_map_some]
  have hne1 : (properties.any (·.isEmpty)) = false := by
    rw [List.any_eq_false]; intro p hpm; simpa using hpl p hpm
  have hne2 : (objects.any (·.isEmpty)) = false := by
    rw [List.any_eq_false]; intro o hom; simpa using (ho o hom).1
  unfold strictTable
  rw [hcells]
  simp only [rtrimSp_replicate, hpe, List.isEmpty_map, hz, hwidth, hprops, hobjs, hflags, hne1,
    hne2, bne_self_eq_false, Bool.or_self, Bool.false_eq_true, if_false]

end FCA
