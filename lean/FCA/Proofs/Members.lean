import FCA.Proofs.Bits
import FCA.Proofs.Keys
import Mathlib.Data.List.Basic
import Mathlib.Data.List.Sort
import Mathlib.Tactic
/-
`membersW` / `card` of the bit-mask layer: the member list is the filtered range.
-/
namespace FCA

theorem membersAux_eq (w off s : Nat) :
    membersAux w off s = ((List.range w).filter (fun i => s.testBit i)).map (· + off) := by
  induction w generalizing off s with
  | zero => simp [membersAux]
  | succ w ih =>
    rw [List.range_succ_eq_map, List.filter_cons, List.filter_map]
    unfold membersAux
    rw [ih]
    have h0 : s.testBit 0 = decide (s % 2 = 1) := by simp [Nat.testBit_zero]
    have hf : ((fun i => s.testBit i) ∘ Nat.succ) = (fun i => (s / 2).testBit i) := by
      funext i; simp [Nat.testBit_succ]
    have hm : ((fun x => x + off) ∘ Nat.succ) = (fun x => x + (off + 1)) := by
      funext i; simp; omega
    rw [hf]
    by_cases h : s % 2 = 1
    · simp [h, h0, hm]
    · simp [h, h0, hm]

theorem membersW_eq (w s : Nat) : membersW w s = (List.range w).filter (fun i => s.testBit i) := by
  unfold membersW; rw [membersAux_eq]; simp

theorem membersW_pairwise (w s : Nat) : (membersW w s).Pairwise (· < ·) := by
  rw [membersW_eq]; exact List.Pairwise.filter _ List.pairwise_lt_range

/-- the `card` of a mask whose members are listed (without repetition, inside the width) by `S` -/
theorem card_eq_length {w x : Nat} {S : List Nat} (hnd : S.Nodup) (hlt : ∀ i ∈ S, i < w)
    (hmem : ∀ i, i ∈ᵇ x ↔ i ∈ S) : card w x = S.length := by
  unfold card
  have hp : (membersW w x).Perm S := by
    rw [List.perm_ext_iff_of_nodup (membersW_nodup w x) hnd]
    intro i; rw [mem_membersW, hmem]
    exact ⟨fun h => h.2, fun h => ⟨hlt i h, h⟩⟩
  exact hp.length_eq

theorem card_zero (w : Nat) : card w 0 = 0 := by
  have := card_eq_length (w := w) (x := 0) (S := []) List.nodup_nil (by simp) (by simp)
  simpa using this

theorem card_membersW_sub {w a b : Nat} (h : a ⊆ᵇ b) :
    (membersW w a).Sublist (membersW w b) := by
  have : membersW w a = (membersW w b).filter (fun i => a.testBit i) := by
    rw [membersW_eq, membersW_eq, List.filter_filter]
    apply List.filter_congr
    intro i _
    have := h i
    simp only [mem] at this
    cases ha : a.testBit i <;> simp_all
  rw [this]; exact List.filter_sublist

end FCA
