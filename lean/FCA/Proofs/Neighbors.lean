import FCA.Model.Lindig
import FCA.Proofs.Closure
import FCA.Proofs.Keys
/-
`lindig.neighbors` of the model = the abstract neighbors loop over the context's closure operator:
it yields every upper cover of a closed extent exactly once, each with its intent.
-/
namespace FCA

theorem Clo.nbLoop_acc (C : Clo) (G : Nat) : ∀ (gs : List Nat) (min : Nat) (acc : List Nat),
    C.nbLoop G gs min acc = acc.reverse ++ C.nbLoop G gs min [] := by
  intro gs
  induction gs with
  | nil => intro min acc; simp [Clo.nbLoop]
  | cons g gs ih =>
    intro min acc
    unfold Clo.nbLoop
    split
    · rw [ih min (C.E G g :: acc), ih min [C.E G g]]; simp
    · exact ih _ _

theorem dpObj_eq {K : Ctx} (h : K.WF) {X : Nat} (hX : Bounded K.n X) :
    K.dpObj X = (K.doubleObj X, K.intentOf (K.doubleObj X)) := by
  unfold Ctx.dpObj Ctx.doubleObj
  simp only
  rw [intent_extent_intent h hX]

theorem neighborsLoop_eq {K : Ctx} (h : K.WF) (G : Nat) (hGb : Bounded K.n G) :
    ∀ (gs : List Nat), (∀ g ∈ gs, g < K.n) → ∀ (min : Nat) (acc : List (Nat × Nat)),
      neighborsLoop K G gs min acc =
        acc.reverse ++ ((K.clo h).nbLoop G gs min []).map (fun e => (e, K.intentOf e)) := by
  intro gs
  induction gs with
  | nil => intro _ min acc; simp [neighborsLoop, Clo.nbLoop]
  | cons g gs ih =>
    intro hgs min acc
    have hg : g < K.n := hgs g (by simp)
    have hb : Bounded K.n (G ||| 2 ^ g) := (K.clo h).bounded_or_pow hGb hg
    have hE : (K.clo h).E G g = K.doubleObj (G ||| 2 ^ g) := rfl
    unfold neighborsLoop Clo.nbLoop
    simp only [dpObj_eq h hb]
    rw [hE]
    by_cases ht : andNot (K.doubleObj (G ||| 2 ^ g)) (G ||| 2 ^ g) &&& min = 0
    · simp only [ht, ne_eq, not_true_eq_false, if_false, if_true]
      rw [ih (fun x hx => hgs x (by simp [hx])), (K.clo h).nbLoop_acc G gs min [_]]
      simp
    · simp only [ht, ne_eq, not_false_eq_true, if_true, if_false]
      exact ih (fun x hx => hgs x (by simp [hx])) _ _

/-- `D` is an upper cover of `G` in the concept lattice of `K` (on extents) -/
def covers (K : Ctx) (G D : Nat) : Prop :=
  closedObj K D ∧ G ⊆ᵇ D ∧ G ≠ D ∧ ∀ X, closedObj K X → G ⊆ᵇ X → X ⊆ᵇ D → X = G ∨ X = D

theorem covers_iff_clo {K : Ctx} (h : K.WF) (G D : Nat) : covers K G D ↔ (K.clo h).Covers G D := by
  unfold covers Clo.Covers closedObj
  constructor
  · rintro ⟨⟨hb, hc⟩, h1, h2, h3⟩
    exact ⟨hc, hb, h1, h2, fun X hX hXb => h3 X ⟨hXb, hX⟩⟩
  · rintro ⟨hc, hb, h1, h2, h3⟩
    exact ⟨⟨hb, hc⟩, h1, h2, fun X hX => h3 X hX.2 hX.1⟩

/-- C05 kernel: for a closed extent `G`, `lindig.neighbors` yields every upper cover exactly once,
paired with its intent -/
theorem neighbors_spec {K : Ctx} (h : K.WF) {G : Nat} (hG : closedObj K G) :
    ((neighbors K G).map Prod.fst).Nodup ∧
    (∀ D, D ∈ (neighbors K G).map Prod.fst ↔ covers K G D) ∧
    (∀ p ∈ neighbors K G, p.2 = K.intentOf p.1) := by
  have hgs : ∀ g, g ∈ membersW K.n (andNot (full K.n) G) ↔ g < (K.clo h).n ∧ ¬ g ∈ᵇ G := by
    intro g; rw [mem_membersW, mem_andNot, mem_full]
    show g < K.n ∧ g < K.n ∧ ¬ g ∈ᵇ G ↔ g < K.n ∧ ¬ g ∈ᵇ G
    tauto
  have hmin : ∀ i, i ∈ᵇ andNot (full K.n) G ↔ i ∈ membersW K.n (andNot (full K.n) G) := by
    intro i; rw [mem_membersW, mem_andNot, mem_full]; tauto
  have key := (K.clo h).nbLoop_covers G _ hG.2 hG.1 hgs (membersW_sorted _ _) _ hmin
  have heq : neighbors K G = ((K.clo h).nbLoop G (membersW K.n (andNot (full K.n) G)) (andNot (full K.n) G) []).map
      (fun e => (e, K.intentOf e)) := by
    unfold neighbors
    simp only
    rw [neighborsLoop_eq h G hG.1 _ (fun g hg => ((hgs g).mp hg).1)]
    simp
  have hfst : (neighbors K G).map Prod.fst =
      (K.clo h).nbLoop G (membersW K.n (andNot (full K.n) G)) (andNot (full K.n) G) [] := by
    rw [heq, List.map_map]; simp [Function.comp_def]
  refine ⟨by rw [hfst]; exact key.1, fun D => by rw [hfst, key.2 D, covers_iff_clo h], ?_⟩
  intro p hp
  rw [heq] at hp
  obtain ⟨e, _, rfl⟩ := List.mem_map.mp hp
  rfl

end FCA
