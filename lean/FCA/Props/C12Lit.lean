import FCA.Proofs.PyLiteralDoc
import FCA.Proofs.PyLiteralLines
/-
Property C12 (python-literal format) — `FCA/Model/PyLiteral.lean`.
-/
namespace FCA

/-- `ast.literal_eval(repr(s)) == s` for every string (all code points) and every printability
table: the string-literal reader yields exactly `s` and consumes the whole text. -/
theorem C12_literal_repr_roundtrip (printable : Nat → Bool) (s : Str) :
    parseStrLit (pyReprStr printable s) = some (s, []) := by
  have := parseStrLit_repr printable s []
  rwa [List.append_nil] at this

/-- the same in front of any following text -/
theorem C12_literal_repr_roundtrip_append (printable : Nat → Bool) (s rest : Str) :
    parseStrLit (pyReprStr printable s ++ rest) = some (s, rest) :=
  parseStrLit_repr printable s rest

theorem litItems_fold (d : LitDoc) : ((litItems d).foldl LitAcc.add {}).finish = some d := by
  obtain ⟨o, p, c, l⟩ := d
  cases l <;> rfl

/-- `load_file(dump_file(doc)) == doc` for every document with at least one object and one
property (any names, any rows, with or without lattice). -/
theorem C12_literal_roundtrip_partial (printable : Nat → Bool) (d : LitDoc)
    (ho : d.objects ≠ []) (hp : d.properties ≠ []) :
    loadLiteral (dumpLiteral printable d) = some d := by
  have hflat := dumpLiteral_flat printable d
  have hok : ∀ it ∈ litItems d, it.Ok := by
    intro it hit
    simp only [litItems, List.mem_append, List.mem_cons, List.not_mem_nil, or_false] at hit
    rcases hit with (rfl | rfl | rfl) | hit
    · exact ho
    · exact hp
    · trivial
    · cases hl : d.lattice with
      | none => simp [hl] at hit
      | some l =>
        simp only [hl, List.mem_cons, List.not_mem_nil, or_false] at hit
        subst hit
        trivial
  generalize hn : (dumpLiteral printable d).length = n
  have hlen := hn
  rw [hflat] at hlen
  have hloop : litSeqLoop (parseItem n) '}' n ('\n' :: ((litItems d).flatMap
      (fun it => ' ' :: ' ' :: (litItemText printable it ++ [',', '\n'])) ++ '}' :: ['\n'])) =
      some (litItems d, true, ['\n']) := by
    refine Eq.trans (litSeqLoop_ws (parseItem n) '}' ['\n'] _ (allWs_of_decide _ (by decide)) n) ?_
    exact litSeqLoop_trailing (parseItem n) '}' ws_rbrace (litItemText printable) [' ', ' '] ['\n'] []
      (allWs_of_decide _ (by decide)) (allWs_of_decide _ (by decide)) allWs_nil n (litItems d)
      (fun it _ => by
        cases it <;> exact ⟨'\'', _, rfl, by decide, by decide⟩)
      (fun it hit r h => parseItem_text printable n it r (hok it hit) h) n ['\n'] (le_refl _)
      (by
        have : ((litItems d).flatMap (fun it => [' ', ' '] ++ (litItemText printable it ++ ',' :: ['\n'])) ++
            ([] ++ '}' :: ['\n'])).length + 2 = n := hlen
        omega)
  unfold loadLiteral
  rw [hn, hflat]
  have hdrop : ∀ x : Str, (('{' :: x).dropWhile fun c => c == ' ' || c == '\t').dropWhile
      (fun c => c == '\n' || c == '\r') = '{' :: x := fun _ => rfl
  rw [hdrop]
  simp only [bne_self_eq_false, Bool.false_eq_true, if_false]
  have hloop' : litSeqLoop (parseItem n) '}' n ('\n' :: ((litItems d).flatMap
      (fun it => [' ', ' '] ++ (litItemText printable it ++ [',', '\n'])) ++ ['}', '\n'])) =
      some (litItems d, true, ['\n']) := hloop
  rw [hloop']
  simp only [litItems_fold]
  rfl

/-- The hypotheses of `C12_literal_roundtrip_partial` are necessary: for an empty names tuple
`dump_file` writes the line `    ,`, i.e. the display `(⏎    ,⏎  )`, which is a `SyntaxError` for
`ast.literal_eval` (the reader returns `none`). `Context` never has empty objects/properties. -/
theorem C12_literal_empty_names_rejected (printable : Nat → Bool) (d : LitDoc)
    (h : d.objects = [] ∨ d.properties = []) :
    loadLiteral (dumpLiteral printable d) = none := by
  have hflat := dumpLiteral_flat printable d
  generalize hn : (dumpLiteral printable d).length = n
  have hlen := hn
  rw [hflat] at hlen
  obtain ⟨tl, htl⟩ : ∃ tl, litItems d = .objects d.objects :: .properties d.properties :: tl := ⟨_, rfl⟩
  rw [htl] at hflat hlen
  have hdrop : ∀ x : Str, (('{' :: x).dropWhile fun c => c == ' ' || c == '\t').dropWhile
      (fun c => c == '\n' || c == '\r') = '{' :: x := fun _ => rfl
  obtain ⟨t1, ht1⟩ := litItemText_head printable (.objects d.objects)
  obtain ⟨t2, ht2⟩ := litItemText_head printable (.properties d.properties)
  have hloop : litSeqLoop (parseItem n) '}' n ('\n' :: ' ' :: ' ' ::
      (litItemText printable (.objects d.objects) ++ ',' :: '\n' :: ' ' :: ' ' ::
        (litItemText printable (.properties d.properties) ++ (',' :: '\n' :: (tl.flatMap
          (fun it => [' ', ' '] ++ (litItemText printable it ++ [',', '\n'])) ++ ['}', '\n']))))) =
      none := by
    by_cases ho : d.objects = []
    · rw [ho]
      exact litSeqLoop_first_fail (parseItem n) n _ _ _ (by rw [← ho]; exact ht1)
        (parseItem_objects_nil printable n)
    · have hp : d.properties = [] := h.resolve_left ho
      refine litSeqLoop_second_fail (parseItem n) n (.objects d.objects) _ _ _ t1 t2 ht1 ht2
        (fun r hr => parseItem_text printable n _ r ho hr) ?_ ?_
      · rw [hp]
        exact parseItem_properties_nil printable n
      · simp only [List.flatMap_cons, List.length_append, List.length_cons, List.length_nil] at hlen ⊢
        omega
  unfold loadLiteral
  rw [hn, hflat, hdrop]
  simp only [bne_self_eq_false, Bool.false_eq_true, if_false]
  have hloop' : litSeqLoop (parseItem n) '}' n ('\n' :: ((LitItem.objects d.objects ::
      LitItem.properties d.properties :: tl).flatMap
      (fun it => [' ', ' '] ++ (litItemText printable it ++ [',', '\n'])) ++ ['}', '\n'])) = none := by
    simpa using hloop
  rw [hloop']

/-! ### concrete instances (non-vacuity); the text is what Python 3.11 writes for this document -/

/-- printability table for the example: only `é` of the code points ≥ 0x80 used is printable -/
def exPrintable (n : Nat) : Bool := n == 0xe9

def exDoc : LitDoc :=
  ⟨["it's".toList, "say \"hi\"".toList, "both ' and \"".toList, []],
   ["back\\slash".toList, "nl\nx".toList, "\x7f\x80é\t".toList],
   [[0, 1], [2], [], [1]], some [([], [0, 1, 2], [1], [])]⟩

def exText : Str :=
  unlines ["{".toList,
    "  'objects': (".toList,
    "    \"it's\", 'say \"hi\"', 'both \\' and \"', '',".toList,
    "  ),".toList,
    "  'properties': (".toList,
    "    'back\\\\slash', 'nl\\nx', '\\x7f\\x80é\\t',".toList,
    "  ),".toList,
    "  'context': [".toList,
    "    (0, 1),".toList,
    "    (2,),".toList,
    "    (),".toList,
    "    (1,),".toList,
    "  ],".toList,
    "  'lattice': [".toList,
    "    ((), (0, 1, 2), (1,), ()),".toList,
    "  ],".toList,
    "}".toList]

example : dumpLiteral exPrintable exDoc = exText := by decide +kernel
example : loadLiteral exText = some exDoc := by decide +kernel
example : exDoc.objects ≠ [] ∧ exDoc.properties ≠ [] := by decide
example : loadLiteral (dumpLiteral exPrintable exDoc) = some exDoc :=
  C12_literal_roundtrip_partial _ _ (by decide) (by decide)
example : pyReprStr exPrintable "\x7f\x80é\t".toList = "'\\x7f\\x80é\\t'".toList := by decide +kernel
example : parseStrLit (pyReprStr exPrintable "both ' and \"".toList) = some ("both ' and \"".toList, []) :=
  C12_literal_repr_roundtrip _ _
example : pyReprStr (fun _ => false) [Char.ofNat 0x4e2d, Char.ofNat 0x1F600] =
    "'\\u4e2d\\U0001f600'".toList := by decide +kernel
/-- without lattice -/
example : dumpLiteral exPrintable ⟨[['o']], [['p']], [[0]], none⟩ =
    unlines ["{".toList,
    "  'objects': (".toList,
    "    'o',".toList,
    "  ),".toList,
    "  'properties': (".toList,
    "    'p',".toList,
    "  ),".toList,
    "  'context': [".toList,
    "    (0,),".toList,
    "  ],".toList,
    "}".toList] := by
  decide +kernel
/-- the reader accepts other layouts, either bracket and quote, any order of the keys -/
example : loadLiteral "  {'context':[(0 , ) ,[ ] , ],\"properties\":['p' , ],'objects':('a',\"\\x62\",),}\n\n".toList =
    some ⟨[['a'], ['b']], [['p']], [[0], []], none⟩ := by decide +kernel
/-- `(x)` is not a tuple, `(,)` is a syntax error, ints have no leading zeros -/
example : loadLiteral "{'objects': ('a'), 'properties': ('p',), 'context': []}".toList = none := by
  decide +kernel
example : loadLiteral "{'objects': ('a',), 'properties': ('p',), 'context': [(01,)]}".toList = none := by
  decide +kernel
/-- an empty names tuple is written as a syntax error (counterexample for the unrestricted round trip) -/
example : dumpLiteral exPrintable ⟨[], [['p']], [], none⟩ =
    unlines ["{".toList,
    "  'objects': (".toList,
    "    ,".toList,
    "  ),".toList,
    "  'properties': (".toList,
    "    'p',".toList,
    "  ),".toList,
    "  'context': [".toList,
    "  ],".toList,
    "}".toList] := by
  decide +kernel
example : loadLiteral (dumpLiteral exPrintable ⟨[], [['p']], [], none⟩) = none := by decide +kernel

/-- no printed line contains a line break, so the lines of the text are the printed lines -/
theorem C12_literal_lines (printable : Nat → Bool) (d : LitDoc) :
    splitChar '\n' (dumpLiteral printable d) = dumpLiteralLines printable d ++ [[]] :=
  splitChar_dumpLiteral printable d

theorem dumpLiteralLines_context (printable : Nat → Bool) (d : LitDoc) :
    ∃ pre post, pre.length = 7 ∧ dumpLiteralLines printable d =
      pre ++ ("  'context': [".toList :: ((d.context.map fun row =>
        "    ".toList ++ pyReprIntTuple row ++ [',']) ++ ("  ],".toList :: post))) := by
  refine ⟨[['{']] ++ litNamesSection printable litKeyObjects d.objects ++
    litNamesSection printable litKeyProperties d.properties,
    (match d.lattice with
     | none => []
     | some l => litListSection litKeyLattice (l.map pyReprEntry)) ++ [['}']], ?_, ?_⟩
  · simp [litNamesSection, litSection, litItemLines]
  · have h1 : [' ', ' '] ++ litKeyContext ++ [':', ' ', '['] = "  'context': [".toList := by decide
    have h2 : [' ', ' ', ']', ','] = "  ],".toList := by decide
    have h3 : "    ".toList = [' ', ' ', ' ', ' '] := by decide
    rw [dumpLiteralLines, litListSection, litSection, h1, h2, h3, litItemLines, List.map_map]
    simp only [List.append_assoc, List.cons_append, List.nil_append]
    rfl

/-- The `context` section of the text: line 7 (counting from 0; after `{` and the two three-line
name sections) is `  'context': [`, the following lines list, per row, exactly the given indexes as
`repr` of the tuple with four blanks of indent and a comma, then `  ],` closes the section. -/
theorem C12_literal_context_rows (printable : Nat → Bool) (d : LitDoc) :
    (splitChar '\n' (dumpLiteral printable d))[7]? = some "  'context': [".toList ∧
    (∀ k (h : k < d.context.length), (splitChar '\n' (dumpLiteral printable d))[8 + k]? =
      some ("    ".toList ++ pyReprIntTuple d.context[k] ++ [','])) ∧
    (splitChar '\n' (dumpLiteral printable d))[8 + d.context.length]? = some "  ],".toList := by
  obtain ⟨pre, post, hpre, hl⟩ := dumpLiteralLines_context printable d
  rw [C12_literal_lines, hl]
  refine ⟨?_, ?_, ?_⟩
  · rw [List.append_assoc, List.getElem?_append_right (by omega), hpre]
    rfl
  · intro k hk
    rw [List.append_assoc, List.getElem?_append_right (by omega), hpre,
      show 8 + k - 7 = k + 1 by omega, List.cons_append, List.getElem?_cons_succ, List.append_assoc,
      List.getElem?_append_left (by simpa using hk)]
    simp [hk]
  · rw [List.append_assoc, List.getElem?_append_right (by omega), hpre,
      show 8 + d.context.length - 7 = d.context.length + 1 by omega, List.cons_append,
      List.getElem?_cons_succ, List.append_assoc, List.getElem?_append_right (by simp)]
    simp

example : (splitChar '\n' (dumpLiteral exPrintable exDoc))[8 + 1]? = some "    (2,),".toList :=
  (C12_literal_context_rows exPrintable exDoc).2.1 1 (by decide)

#print axioms C12_literal_repr_roundtrip
#print axioms C12_literal_context_rows
#print axioms C12_literal_roundtrip_partial
#print axioms C12_literal_empty_names_rejected

end FCA
