import FCA.Model.Galois
/-
Model of `concepts/algorithms/fcbo.py`: `fast_generate_from` (by intents) and `fcbo_dual`
(by extents), written once over a "side" record.

The Python code keeps an explicit stack; children of a node are pushed for `j` descending and
share one `next_property_sets` list which the parent's loop keeps mutating until it ends; each
child copies it only when popped. Hence every child sees the parent's *final* list and children
are visited for `j` ascending — which is what the recursive model does.
-/
namespace FCA

/-- what differs between `fast_generate_from` and `fcbo_dual` -/
structure Side where
  /-- number of items iterated over (`n_properties` / `n_objects`) -/
  width : Nat
  /-- `context._extents[j]` / `context._intents[j]` -/
  col : Nat → Nat
  /-- `Objects.prime` / `Properties.prime` applied to the intersected set -/
  prime : Nat → Nat

/-- node state: `own` is the set the generator grows (intent for FCbO, extent for the dual),
`other` is its derivation -/
structure FNode where
  own : Nat
  other : Nat
deriving Repr, BEq

/-- the `for j, j_property in reversed(j_atom[property_index:])` loop: `js` is already reversed.
Returns the children `(j, node)` in push order and the final `next_property_sets`. -/
def fcboInner (S : Side) (nd : FNode) : List Nat → Array Nat → List (Nat × FNode) →
    List (Nat × FNode) × Array Nat
  | [], sets, acc => (acc.reverse, sets)
  | j :: js, sets, acc =>
    let jAtom := 2 ^ j
    if jAtom &&& nd.own ≠ 0 then fcboInner S nd js sets acc else
    let jMask := jAtom - 1
    let x := sets[j]! &&& jMask
    if x &&& nd.own = x then
      let jOther := nd.other &&& S.col j
      let jOwn := S.prime jOther
      let jLower := jOwn &&& jMask
      if jLower &&& nd.own = jLower then
        fcboInner S nd js sets ((j, ⟨jOwn, jOther⟩) :: acc)
      else
        fcboInner S nd js (sets.set! j jOwn) acc
    else fcboInner S nd js sets acc

/-- one popped stack entry and everything below it, in yield order -/
def fcboNode (S : Side) : Nat → FNode → Nat → Array Nat → List FNode
  | 0, nd, _, _ => [nd]
  | fuel+1, nd, idx, sets =>
    nd :: (if idx = S.width ∨ nd.other = 0 then [] else
      let js := (List.range' idx (S.width - idx)).reverse
      let (children, sets') := fcboInner S nd js sets []
      -- pushed for j descending, popped for j ascending
      children.reverse.flatMap fun (j, child) => fcboNode S fuel child (j + 1) sets')

/-- `fast_generate_from(context)`: `(extent, intent)` pairs in yield order -/
def fcbo (K : Ctx) : List (Nat × Nat) :=
  let S : Side := ⟨K.m, fun j => K.cols[j]!, K.intentOf⟩
  let (e0, i0) := K.dpObj (full K.n)   -- Objects.supremum.doubleprime()
  (fcboNode S (K.m + 1) ⟨i0, e0⟩ 0 (Array.replicate K.m 0)).map fun nd => (nd.other, nd.own)

/-- `fcbo_dual(context)`: `(extent, intent)` pairs in yield order -/
def fcboDual (K : Ctx) : List (Nat × Nat) :=
  let S : Side := ⟨K.n, fun j => K.rows[j]!, K.extentOf⟩
  let (e0, i0) := K.dpObj 0            -- Objects.infimum.doubleprime()
  (fcboNode S (K.n + 1) ⟨e0, i0⟩ 0 (Array.replicate K.n 0)).map fun nd => (nd.own, nd.other)

/-- `algorithms.iterconcepts(context)`: `map(Concept._make, fast_generate_from(context))` — the same pairs, in the same order -/
def iterconcepts (K : Ctx) : List (Nat × Nat) := (fcbo K).map fun p => (p.1, p.2)

/-- `algorithms.get_concepts(context)`: `ConceptList.frompairs(fast_generate_from(context))` -/
def getConcepts (K : Ctx) : List (Nat × Nat) := (fcbo K).map fun p => (p.1, p.2)

end FCA
