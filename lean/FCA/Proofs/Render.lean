import FCA.Model.Render
import FCA.Proofs.Junctors
import FCA.Proofs.FormatsTable
/-
Helper lemmas for the rendering part of C16 (`relToString`), the uniqueness of table patterns
(first match = last match) and the object-level reading of the mask conditions.
-/
namespace FCA

/-! ### `relWidth` -/

theorem foldl_max_le_init {α : Type} (f : α → Nat) (l : List α) (a : Nat) :
    a ≤ l.foldl (fun m r => max m (f r)) a := by
  induction l generalizing a with
  | nil => exact le_refl _
  | cons x xs ih => exact le_trans (le_max_left _ _) (ih _)

theorem foldl_max_ge {α : Type} (f : α → Nat) (l : List α) (a : Nat) {x : α} (hx : x ∈ l) :
    f x ≤ l.foldl (fun m r => max m (f r)) a := by
  induction l generalizing a with
  | nil => cases hx
  | cons y ys ih =>
    rcases List.mem_cons.mp hx with rfl | h
    · exact le_trans (le_max_right _ _) (foldl_max_le_init f ys _)
    · exact ih _ h

theorem foldl_max_attained {α : Type} (f : α → Nat) (l : List α) (a : Nat) :
    l.foldl (fun m r => max m (f r)) a = a ∨ ∃ x ∈ l, l.foldl (fun m r => max m (f r)) a = f x := by
  induction l generalizing a with
  | nil => exact Or.inl rfl
  | cons y ys ih =>
    rcases ih (max a (f y)) with h | ⟨x, hx, h⟩
    · rcases max_cases a (f y) with ⟨hm, _⟩ | ⟨hm, _⟩
      · left; rw [List.foldl_cons, h, hm]
      · right; exact ⟨y, by simp, by rw [List.foldl_cons, h, hm]⟩
    · right; exact ⟨x, by simp [hx], h⟩

/-- the width is at least the length of every left label (of ALL entries) -/
theorem le_relWidth (names : Nat → Str) {items : List RelItem} {r : RelItem} (hr : r ∈ items) :
    (names r.left).length ≤ relWidth names items :=
  foldl_max_ge (fun r => (names r.left).length) items 0 hr

/-- … and it is attained (or `0` for no entries) -/
theorem relWidth_attained (names : Nat → Str) (items : List RelItem) :
    (items = [] ∧ relWidth names items = 0) ∨
      ∃ r ∈ items, relWidth names items = (names r.left).length := by
  cases items with
  | nil => exact Or.inl ⟨rfl, rfl⟩
  | cons y ys =>
    right
    rcases foldl_max_attained (fun r => (names r.left).length) (y :: ys) 0 with h | h
    · refine ⟨y, by simp, ?_⟩
      have := foldl_max_ge (fun r => (names r.left).length) (y :: ys) 0 (x := y) (by simp)
      unfold relWidth
      rw [h] at this ⊢
      exact (Nat.le_zero.mp this).symm
    · exact h

theorem length_ljust_max (w : Nat) (s : Str) : (ljust w s).length = max w s.length := by
  simp only [ljust, List.length_append, List.length_replicate]
  omega

/-! ### lines -/

theorem not_mem_ljust {ch : Char} (hsp : ch ≠ ' ') {w : Nat} {s : Str} (h : ch ∉ s) : ch ∉ ljust w s := by
  intro hc
  rcases mem_ljust hc with h' | h'
  · exact h h'
  · exact hsp h'

/-- a line contains no line break when the labels and the kind contain none -/
theorem nl_not_mem_relLine {names : Nat → Str} (w : Nat) {r : RelItem}
    (hl : '\n' ∉ names r.left) (hk : '\n' ∉ r.kind.toList) (hr : ∀ p, r.right = some p → '\n' ∉ names p) :
    '\n' ∉ relLine names w r := by
  unfold relLine relRight
  simp only [List.mem_append, List.mem_singleton, not_or]
  refine ⟨⟨⟨⟨not_mem_ljust (by decide) hl, by decide⟩, not_mem_ljust (by decide) hk⟩, by decide⟩, ?_⟩
  cases h : r.right with
  | none => simp
  | some p => exact hr p h

theorem relKept_sublist (b : Bool) (items : List RelItem) : (relKept b items).Sublist items := by
  unfold relKept
  split
  · exact List.filter_sublist
  · exact List.Sublist.refl _

theorem mem_relKept {b : Bool} {items : List RelItem} {r : RelItem} :
    r ∈ relKept b items ↔ r ∈ items ∧ (b = true → r.kind ≠ "orthogonal") := by
  unfold relKept
  cases b <;> simp

/-! ### first match = last match on a duplicate-free key list -/

theorem find?_reverse_of_nodup {α β : Type} [DecidableEq β] (f : α → β) (c : β) (l : List α)
    (h : (l.map f).Nodup) :
    l.reverse.find? (fun e => f e == c) = l.find? (fun e => f e == c) := by
  induction l with
  | nil => rfl
  | cons x xs ih =>
    rw [List.map_cons, List.nodup_cons] at h
    rw [List.reverse_cons, List.find?_append, ih h.2, List.find?_cons]
    by_cases hx : f x = c
    · have hnone : xs.find? (fun e => f e == c) = none := by
        rw [List.find?_eq_none]
        intro y hy hy'
        apply h.1
        rw [List.mem_map]
        exact ⟨y, hy, by rw [hx]; simpa using hy'⟩
      simp [hx, hnone]
    · have : (f x == c) = false := by simpa using hx
      rw [this]
      cases hf : xs.find? (fun e => f e == c) <;> simp [this, hf]

theorem filter_length_le_one_of_nodup {α β : Type} [DecidableEq β] (f : α → β) (c : β) (l : List α)
    (h : (l.map f).Nodup) : (l.filter (fun e => f e == c)).length ≤ 1 := by
  induction l with
  | nil => simp
  | cons x xs ih =>
    rw [List.map_cons, List.nodup_cons] at h
    rw [List.filter_cons]
    by_cases hx : f x = c
    · have hnone : xs.filter (fun e => f e == c) = [] := by
        rw [List.filter_eq_nil_iff]
        intro y hy hy'
        apply h.1
        rw [List.mem_map]
        exact ⟨y, hy, by rw [hx]; simpa using hy'⟩
      simp [hx, hnone]
    · have : (f x == c) = false := by simpa using hx
      rw [this]
      exact ih h.2

theorem filter_length_pos_of_find? {α : Type} (p : α → Bool) (l : List α) (h : (l.find? p).isSome = true) :
    0 < (l.filter p).length := by
  rw [List.find?_isSome] at h
  obtain ⟨x, hx, hp⟩ := h
  exact List.length_pos_of_mem (List.mem_filter.mpr ⟨hx, hp⟩)

/-! ### duplicate-free tables -/

/-- no pattern is the pattern of two entries (separately for the unary and the binary classes): the
decidable condition under which "first match" (`List.find?` of the model) and "last definition wins"
(`RelationMeta.__map[pattern] = cls` in Python) select the same entry -/
def JTable.NoDupPatterns (T : JTable) : Prop :=
  (T.binary.map (·.pattern)).Nodup ∧ (T.unary.map (·.pattern)).Nodup

instance (T : JTable) : Decidable T.NoDupPatterns := by unfold JTable.NoDupPatterns; infer_instance

/-- no class name is used twice (`globals()[cls.__name__] = cls`: the names `Replication`,
`Implication`, `Contingency`, `Orthogonal` the code refers to are then unambiguous) -/
def JTable.NoDupNames (T : JTable) : Prop := ((T.unary ++ T.binary).map (·.name)).Nodup

instance (T : JTable) : Decidable T.NoDupNames := by unfold JTable.NoDupNames; infer_instance

theorem nl_not_mem_kindOfCode (c : Nat) : '\n' ∉ (kindOfCode c).toList := by
  unfold kindOfCode; split <;> decide

theorem nl_not_mem_unaryKind (c : Nat) : '\n' ∉ (unaryKind c).toList := by
  unfold unaryKind; split <;> decide

theorem nl_not_mem_kind_specBinary (n l r cl cr : Nat) : '\n' ∉ (specBinary n l r cl cr).kind.toList := by
  unfold specBinary
  split
  · show '\n' ∉ ("implication" : String).toList
    decide
  · exact nl_not_mem_kindOfCode _

/-! ### object-level reading of the mask conditions -/

theorem and_eq_zero_iff_forall {a b : Nat} : a &&& b = 0 ↔ ∀ i, ¬ (i ∈ᵇ a ∧ i ∈ᵇ b) := by
  rw [eq_zero_iff]; simp

theorem or_eq_full_iff {n a b : Nat} (ha : Bounded n a) (hb : Bounded n b) :
    a ||| b = full n ↔ ∀ i, i < n → i ∈ᵇ a ∨ i ∈ᵇ b := by
  rw [ext_iff]
  constructor
  · intro h i hi
    exact mem_or.mp ((h i).mpr (mem_full.mpr hi))
  · intro h i
    rw [mem_full, mem_or]
    constructor
    · rintro (h' | h')
      · exact ha i h'
      · exact hb i h'
    · exact h i

theorem or_ne_full_iff {n a b : Nat} (ha : Bounded n a) (hb : Bounded n b) :
    a ||| b ≠ full n ↔ ∃ i, i < n ∧ ¬ i ∈ᵇ a ∧ ¬ i ∈ᵇ b := by
  rw [Ne, or_eq_full_iff ha hb]
  push Not
  rfl

theorem eq_iff_forall_lt {n a b : Nat} (ha : Bounded n a) (hb : Bounded n b) :
    a = b ↔ ∀ i, i < n → (i ∈ᵇ a ↔ i ∈ᵇ b) := by
  rw [ext_iff]
  constructor
  · intro h i _; exact h i
  · intro h i
    by_cases hi : i < n
    · exact h i hi
    · exact ⟨fun h' => absurd (ha i h') hi, fun h' => absurd (hb i h') hi⟩

theorem not_sub_iff {a b : Nat} : ¬ a ⊆ᵇ b ↔ ∃ i, i ∈ᵇ a ∧ ¬ i ∈ᵇ b := by
  unfold sub
  push Not
  rfl

end FCA
