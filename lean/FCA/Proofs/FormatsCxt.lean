import FCA.Proofs.FormatsStr
/-
Label predicates of the text formats and the `.cxt` round trip.
-/
namespace FCA

/-- label accepted by the Burmeister `.cxt` format: non-empty, no leading/trailing whitespace,
no line break -/
def CxtLabel (s : Str) : Prop :=
  s ≠ [] ∧ (∀ c ∈ s.head?, isSpace c = false) ∧ (∀ c ∈ s.getLast?, isSpace c = false) ∧ '\n' ∉ s

/-- label accepted by the ASCII-art table format: as for `.cxt`, and no `|`, no `#` -/
def TableLabel (s : Str) : Prop :=
  s ≠ [] ∧ (∀ c ∈ s.head?, isSpace c = false) ∧ (∀ c ∈ s.getLast?, isSpace c = false) ∧
    '\n' ∉ s ∧ '|' ∉ s ∧ '#' ∉ s

instance (s : Str) : Decidable (CxtLabel s) := by unfold CxtLabel; infer_instance
instance (s : Str) : Decidable (TableLabel s) := by unfold TableLabel; infer_instance

/-- objects × properties table of the right shape, at least one object and one property -/
def Rect (objects properties : List Str) (bools : List (List Bool)) : Prop :=
  objects ≠ [] ∧ properties ≠ [] ∧ bools.length = objects.length ∧
    ∀ r ∈ bools, r.length = properties.length

instance (o p : List Str) (b : List (List Bool)) : Decidable (Rect o p b) := by
  unfold Rect; infer_instance

theorem TableLabel.cxt {s : Str} (h : TableLabel s) : CxtLabel s := ⟨h.1, h.2.1, h.2.2.1, h.2.2.2.1⟩

/-! ### head / last of joined lines -/

theorem joinWith_ne_nil {sep x : Str} (hx : x ≠ []) (xs : List Str) : joinWith sep (x :: xs) ≠ [] := by
  cases xs with
  | nil => simpa [joinWith] using hx
  | cons y ys => rw [joinWith_cons_cons]; simp [hx]

theorem head?_joinWith {sep x : Str} (hx : x ≠ []) (xs : List Str) :
    (joinWith sep (x :: xs)).head? = x.head? := by
  cases xs with
  | nil => simp [joinWith]
  | cons y ys =>
    rw [joinWith_cons_cons, List.append_assoc, List.head?_append_of_ne_nil _ hx]

theorem getLast?_joinWith {sep : Str} {P : Char → Prop} {ls : List Str}
    (h : ∀ l ∈ ls, l ≠ [] ∧ ∀ c ∈ l.getLast?, P c) : ∀ c ∈ (joinWith sep ls).getLast?, P c := by
  induction ls with
  | nil => simp [joinWith]
  | cons x xs ih =>
    cases xs with
    | nil => simpa [joinWith] using (h x (by simp)).2
    | cons y ys =>
      have hJ := joinWith_ne_nil (sep := sep) (h y (by simp)).1 ys
      rw [joinWith_cons_cons, List.getLast?_append_of_ne_nil _ hJ]
      exact ih (by intro l hl; exact h l (by simp [hl]))

/-! ### a block of well-formed lines -/

/-- the lines of a block of `CxtLabel` lines survive `strip`, `split('\n')` and per-line `strip` -/
theorem strip_lines {ls : List Str} (hne : ls ≠ []) (h : ∀ l ∈ ls, CxtLabel l) :
    strip (joinWith ['\n'] ls) = joinWith ['\n'] ls := by
  cases ls with
  | nil => contradiction
  | cons x xs =>
    apply stripBy_id
    · rw [head?_joinWith (h x (by simp)).1]; exact (h x (by simp)).2.1
    · exact getLast?_joinWith (fun l hl => ⟨(h l hl).1, (h l hl).2.2.1⟩)

theorem strip_CxtLabel {l : Str} (h : CxtLabel l) : strip l = l := stripBy_id h.2.1 h.2.2.1

theorem map_strip_lines {ls : List Str} (h : ∀ l ∈ ls, CxtLabel l) : ls.map strip = ls := by
  conv_rhs => rw [← List.map_id ls]
  exact List.map_congr_left (fun l hl => strip_CxtLabel (h l hl))

theorem NoBlank_lines {ls : List Str} (h : ∀ l ∈ ls, CxtLabel l) : NoBlank (joinWith ['\n'] ls) :=
  NoBlank_joinWith (fun l hl => ⟨(h l hl).1, (h l hl).2.2.2⟩)

theorem splitChar_lines {ls : List Str} (hne : ls ≠ []) (h : ∀ l ∈ ls, CxtLabel l) :
    splitChar '\n' (joinWith ['\n'] ls) = ls :=
  splitChar_joinWith hne (fun l hl => (h l hl).2.2.2)

/-! ### `.cxt` -/

/-- a row of the `.cxt` cross table -/
def rowStr (row : List Bool) : Str := row.map fun b => if b then 'X' else '.'

theorem rowStr_CxtLabel {row : List Bool} (hne : row ≠ []) : CxtLabel (rowStr row) := by
  have hall : ∀ c ∈ rowStr row, c = 'X' ∨ c = '.' := by
    intro c hc
    simp only [rowStr, List.mem_map] at hc
    obtain ⟨b, _, rfl⟩ := hc
    cases b <;> simp
  have hsp : ∀ c ∈ rowStr row, isSpace c = false := by
    intro c hc; rcases hall c hc with rfl | rfl <;> decide
  refine ⟨by simpa [rowStr] using hne, ?_, ?_, ?_⟩
  · intro c hc; exact hsp c (List.mem_of_mem_head? hc)
  · intro c hc; exact hsp c (List.mem_of_getLast? hc)
  · intro hc; rcases hall _ hc with h | h <;> exact absurd h (by decide)

theorem dumpCxt_eq (objects properties : List Str) (bools : List (List Bool))
    (hne : objects ++ properties ++ bools.map rowStr ≠ []) :
    dumpCxt objects properties bools =
      (['B'] ++ '\n' :: '\n' :: (joinWith ['\n'] [(toString objects.length).toList,
        (toString properties.length).toList] ++ '\n' :: '\n' ::
        joinWith ['\n'] (objects ++ properties ++ bools.map rowStr))) ++ ['\n'] := by
  unfold dumpCxt
  rw [unlines_cons, unlines_cons, unlines_cons, unlines_cons, unlines_cons]
  have : (objects ++ properties ++ bools.map fun row => row.map fun b => if b then 'X' else '.')
      = objects ++ properties ++ bools.map rowStr := rfl
  rw [this, unlines_eq_joinWith hne]
  simp [joinWith]

theorem decode_rowStr (row : List Bool) :
    ((rowStr row).map fun c =>
      if c == 'X' then some true else if c == '.' then some false else none) = row.map some := by
  simp only [rowStr, List.map_map]
  apply List.map_congr_left
  intro b _
  cases b <;> simp

/-- general `.cxt` round trip: at least one property and no empty row -/
theorem loadCxt_dumpCxt {objects properties : List Str} {bools : List (List Bool)}
    (hp : properties ≠ []) (hb : ∀ r ∈ bools, r ≠ [])
    (ho : ∀ o ∈ objects, CxtLabel o) (hpl : ∀ p ∈ properties, CxtLabel p) :
    loadCxt (dumpCxt objects properties bools) = .ok (objects, properties, bools) := by
  set body := objects ++ properties ++ bools.map rowStr with hbody
  have hne : body ≠ [] := by simp [hbody, hp]
  have hlines : ∀ l ∈ body, CxtLabel l := by
    intro l hl
    simp only [hbody, List.mem_append, List.mem_map] at hl
    rcases hl with (hl | hl) | ⟨r, hr, rfl⟩
    · exact ho l hl
    · exact hpl l hl
    · exact rowStr_CxtLabel (hb r hr)
  set N := (toString objects.length).toList with hN
  set M := (toString properties.length).toList with hM
  set T := joinWith ['\n'] body with hT
  -- strip of the whole text
  have hstrip : strip (dumpCxt objects properties bools) =
      ['B'] ++ '\n' :: '\n' :: (joinWith ['\n'] [N, M] ++ '\n' :: '\n' :: T) := by
    rw [dumpCxt_eq _ _ _ hne]
    have := stripBy_pad (p := isSpace) (a := []) (b := ['\n'])
      (s := ['B'] ++ '\n' :: '\n' :: (joinWith ['\n'] [N, M] ++ '\n' :: '\n' :: T))
      (by simp) (by simp [isSpace_nl]) (by simp; decide) ?_
    · exact this
    · have hTne : T ≠ [] := by
        cases hb' : body with
        | nil => exact absurd hb' hne
        | cons x xs =>
          rw [hT, hb']; exact joinWith_ne_nil (hlines x (by simp [hb'])).1 xs
      have e : ['B'] ++ '\n' :: '\n' :: (joinWith ['\n'] [N, M] ++ '\n' :: '\n' :: T) =
          (['B'] ++ '\n' :: '\n' :: (joinWith ['\n'] [N, M] ++ ['\n', '\n'])) ++ T := by simp
      rw [e, List.getLast?_append_of_ne_nil _ hTne]
      exact getLast?_joinWith (fun l hl => ⟨(hlines l hl).1, (hlines l hl).2.2.1⟩)
  have hNM : NoBlank (joinWith ['\n'] [N, M]) := by
    apply NoBlank_joinWith
    intro l hl
    simp only [List.mem_cons, List.not_mem_nil, or_false] at hl
    have hnl : ∀ n : Nat, '\n' ∉ (toString n).toList := by
      intro n hc; have := toString_nat_nospace n _ hc; simp [isSpace_nl] at this
    rcases hl with rfl | rfl
    · exact ⟨toString_nat_ne_nil _, hnl _⟩
    · exact ⟨toString_nat_ne_nil _, hnl _⟩
  have hsplit : splitBlank (strip (dumpCxt objects properties bools)) =
      [['B'], joinWith ['\n'] [N, M], T] := by
    rw [hstrip, splitBlank_append (NoBlank_of_not_mem (by decide)),
      splitBlank_append hNM, splitBlank_noBlank (NoBlank_lines hlines)]
  have hws : (splitWs (joinWith ['\n'] [N, M])).map parseNat? =
      [some objects.length, some properties.length] := by
    have : joinWith ['\n'] [N, M] = N ++ '\n' :: M := by simp [joinWith]
    rw [this, splitWs_two (toString_nat_nospace _) (toString_nat_nospace _)
      (toString_nat_ne_nil _) (toString_nat_ne_nil _)]
    simp only [List.map_cons, List.map_nil, parseNat?_toString]
  have hl : (splitChar '\n' (strip T)).map strip = body := by
    rw [hT, strip_lines hne hlines, splitChar_lines hne hlines, map_strip_lines hlines]
  unfold loadCxt
  rw [hsplit]
  simp only []
  rw [hws]
  simp only []
  rw [hl]
  have h1 : body.take objects.length = objects := by simp [hbody, List.append_assoc]
  have h2 : (body.drop objects.length).take properties.length = properties := by
    simp [hbody, List.append_assoc]
  have h3 : body.drop (objects.length + properties.length) = bools.map rowStr := by
    rw [hbody, ← List.length_append, List.drop_left]
  rw [h1, h2, h3]
  simp only [List.map_map]
  have h4 : (fun l : Str => l.map fun c =>
      if c == 'X' then some true else if c == '.' then some false else none) ∘ rowStr
        = fun r => r.map some := by
    funext r; exact decode_rowStr r
  rw [h4]
  have h5 : (bools.map fun r => r.map some).all (·.all Option.isSome) = true := by
    simp [List.all_eq_true]
  rw [if_pos h5]
  simp [Function.comp_def]

end FCA
