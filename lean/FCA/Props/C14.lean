import FCA.Proofs.DefnDerive
import FCA.Props.C13
/-
C14 — derived definitions are correct and unaliased; Context <-> Definition are inverse.

`union`, `intersection`, `take`, `transposed`, `inverted` return the mathematically expected table
as a new value (the model has value semantics, so "shares no mutable state" is `C14_frame`);
`Context(*definition)` stores exactly the definition's table.
-/
namespace FCA

/-! ### union / intersection -/

/-- `d.union(e)`: cell-wise or; names of `e` appended in order; invariant kept -/
theorem C14_union_cells {d e u : Defn} {ig : Bool} (hd : d.Inv) (he : e.Inv)
    (h : d.union e ig = .ok u) :
    (∀ o p, (o, p) ∈ u.pairs ↔ (o, p) ∈ d.pairs ∨ (o, p) ∈ e.pairs) ∧
    u.objs = uIor d.objs e.objs ∧ u.props = uIor d.props e.props ∧ u.Inv := by
  obtain ⟨r, hs⟩ := union_ok_iff.mp h
  have hi : u.Inv := inv_step (op := .unionUpdate e ig) hd he hs
  obtain ⟨_, rfl⟩ := step_unionUpdate_ok hs
  exact ⟨fun o p => mem_foldl_pAdd, rfl, rfl, hi⟩

/-- the same without the invariant (cells and names only) -/
theorem C14_union_cells' {d e u : Defn} {ig : Bool} (h : d.union e ig = .ok u) :
    (∀ o p, (o, p) ∈ u.pairs ↔ (o, p) ∈ d.pairs ∨ (o, p) ∈ e.pairs) ∧
    u.objs = d.objs ++ uniq (e.objs.filter (fun x => !d.objs.contains x)) ∧
    u.props = d.props ++ uniq (e.props.filter (fun x => !d.props.contains x)) := by
  obtain ⟨r, hs⟩ := union_ok_iff.mp h
  obtain ⟨_, rfl⟩ := step_unionUpdate_ok hs
  exact ⟨fun o p => mem_foldl_pAdd, uIor_eq _ _, uIor_eq _ _⟩

example : exD.Inv ∧ exE.Inv ∧ ∃ u, exD.union exE false = .ok u ∧
    u.objs = ["o1", "o2", "o3"] ∧ u.bools = [[true, false, false], [false, true, false], [false, false, true]] :=
  ⟨exD_inv, exE_inv, _, rfl, by decide, by decide⟩

/-- `union` is rejected exactly when conflicts are not ignored and the operands differ on a
shared cell; the exception is `ValueError` -/
theorem C14_union_rejects_iff {d e : Defn} {ig : Bool} :
    (∃ err, d.union e ig = .error err) ↔ ig = false ∧ Conflict d e := by
  simp only [union_error_iff, step_unionUpdate_error_iff]
  constructor
  · rintro ⟨_, _, h⟩; exact h
  · intro h; exact ⟨_, rfl, h⟩

theorem C14_union_error_class {d e : Defn} {ig : Bool} {err : Err} (h : d.union e ig = .error err) :
    err = .valueError := (step_unionUpdate_error_iff.mp (union_error_iff.mp h)).1

/-- with `ignore_conflicts` or without conflict the union exists -/
theorem C14_union_accepts_iff {d e : Defn} {ig : Bool} :
    (∃ u, d.union e ig = .ok u) ↔ ig = true ∨ ¬Conflict d e := by
  cases h : d.union e ig with
  | ok u =>
    simp only [Except.ok.injEq, exists_eq', true_iff]
    by_contra hc
    push Not at hc
    have := (C14_union_rejects_iff (d := d) (e := e) (ig := ig)).mpr ⟨by simpa using hc.1, hc.2⟩
    rw [h] at this
    obtain ⟨_, h'⟩ := this
    cases h'
  | error err =>
    have := (C14_union_rejects_iff (d := d) (e := e) (ig := ig)).mp ⟨err, h⟩
    simp [this.1, this.2]

example : exD.union exF false = .error .valueError := by decide
example : Conflict exD exF :=
  ⟨"o2", "p2", by decide, by decide, by decide, by decide, by decide⟩
example : ∃ u, exD.union exF true = .ok u ∧ u.getItem "o2" "p2" = .ok true := ⟨_, rfl, by decide⟩

/-- `d.intersection(e)`: cell-wise and on the common names, in the order of `d` -/
theorem C14_intersection_cells {d e u : Defn} {ig : Bool} (hd : d.Inv) (he : e.Inv)
    (h : d.intersection e ig = .ok u) :
    (∀ o p, (o, p) ∈ u.pairs ↔ (o, p) ∈ d.pairs ∧ (o, p) ∈ e.pairs) ∧
    u.objs = uIand d.objs e.objs ∧ u.props = uIand d.props e.props ∧ u.Inv := by
  obtain ⟨r, hs⟩ := intersection_ok_iff.mp h
  have hi : u.Inv := inv_step (op := .intersectionUpdate e ig) hd he hs
  obtain ⟨_, rfl⟩ := step_intersectionUpdate_ok hs
  refine ⟨fun o p => ?_, rfl, rfl, hi⟩
  simp [List.mem_filter]

/-- `uIand` keeps the names of the left operand that also occur on the right, in left order -/
theorem C14_uIand_spec (l xs : List Name) :
    (uIand l xs).Sublist l ∧ ∀ x, x ∈ uIand l xs ↔ x ∈ l ∧ x ∈ xs :=
  ⟨List.filter_sublist, fun _ => mem_uIand⟩

theorem C14_intersection_rejects_iff {d e : Defn} {ig : Bool} :
    (∃ err, d.intersection e ig = .error err) ↔ ig = false ∧ Conflict d e := by
  simp only [intersection_error_iff, step_intersectionUpdate_error_iff]
  constructor
  · rintro ⟨_, _, h⟩; exact h
  · intro h; exact ⟨_, rfl, h⟩

theorem C14_intersection_error_class {d e : Defn} {ig : Bool} {err : Err}
    (h : d.intersection e ig = .error err) : err = .valueError :=
  (step_intersectionUpdate_error_iff.mp (intersection_error_iff.mp h)).1

example : exD.Inv ∧ exE.Inv ∧ ∃ u, exD.intersection exE false = .ok u ∧
    u.objs = ["o2"] ∧ u.props = ["p2"] ∧ u.bools = [[true]] :=
  ⟨exD_inv, exE_inv, _, rfl, by decide, by decide, by decide⟩
example : exD.intersection exF false = .error .valueError := by decide

/-- the derived value and the in-place operation agree -/
theorem C14_union_eq_unionUpdate {d e u : Defn} {ig : Bool} :
    d.union e ig = .ok u ↔ d.step (.unionUpdate e ig) = .ok (u, []) := by
  rw [union_ok_iff]
  constructor
  · rintro ⟨r, hs⟩; rw [hs, (step_unionUpdate_ok hs).1]
  · intro hs; exact ⟨_, hs⟩

theorem C14_intersection_eq_intersectionUpdate {d e u : Defn} {ig : Bool} :
    d.intersection e ig = .ok u ↔ d.step (.intersectionUpdate e ig) = .ok (u, []) := by
  rw [intersection_ok_iff]
  constructor
  · rintro ⟨r, hs⟩; rw [hs, (step_intersectionUpdate_ok hs).1]
  · intro hs; exact ⟨_, hs⟩

/-! ### take -/

/-- the name list `take` keeps for one axis -/
def takeNames (l : List Name) (req : Option (List Name)) (reorder : Bool) : List Name :=
  match req with
  | none => l
  | some xs => if reorder then uniq xs else l.filter xs.contains

theorem take_eq (d : Defn) (objects properties : Option (List Name)) (reorder : Bool) :
    d.take objects properties reorder =
      if ((!(objects.getD []).isEmpty && !(objects.getD []).all d.objs.contains) ||
          (!(properties.getD []).isEmpty && !(properties.getD []).all d.props.contains)) = true then
        .error (.keyError, uIor (uRsub d.objs (objects.getD [])) (uRsub d.props (properties.getD [])))
      else
        .ok ⟨takeNames d.objs objects reorder, takeNames d.props properties reorder,
          (takeNames d.objs objects reorder).flatMap fun o =>
            (takeNames d.props properties reorder).filterMap fun p =>
              if d.pairs.contains (o, p) then some (o, p) else none⟩ := by
  cases objects <;> cases properties <;> cases reorder <;> rfl

/-- `take`: the result is the sub-table on the kept names: names in the original order (or in the
requested order, first occurrences, with `reorder`), cells as in `d` -/
theorem C14_take {d t : Defn} {objects properties : Option (List Name)} {reorder : Bool}
    (h : d.take objects properties reorder = .ok t) :
    t.objs = takeNames d.objs objects reorder ∧ t.props = takeNames d.props properties reorder ∧
    (∀ o p, (o, p) ∈ t.pairs ↔ o ∈ t.objs ∧ p ∈ t.props ∧ (o, p) ∈ d.pairs) ∧
    (∀ o ∈ t.objs, o ∈ d.objs) ∧ (∀ p ∈ t.props, p ∈ d.props) ∧
    (∀ o ∈ t.objs, ∀ p ∈ t.props, t.getItem o p = d.getItem o p) := by
  rw [take_eq] at h
  split at h
  · cases h
  · rename_i hg
    rw [take_guard_iff] at hg
    push Not at hg
    obtain ⟨hg1, hg2⟩ := hg
    cases h
    have s1 : ∀ o ∈ takeNames d.objs objects reorder, o ∈ d.objs := by
      intro o ho
      cases objects with
      | none => exact ho
      | some xs =>
        cases reorder
        · simp [takeNames] at ho; exact ho.1
        · simp [takeNames] at ho; exact hg1 o (by simpa using ho)
    have s2 : ∀ p ∈ takeNames d.props properties reorder, p ∈ d.props := by
      intro p hp
      cases properties with
      | none => exact hp
      | some xs =>
        cases reorder
        · simp [takeNames] at hp; exact hp.1
        · simp [takeNames] at hp; exact hg2 p (by simpa using hp)
    refine ⟨rfl, rfl, fun o p => mem_subtable, s1, s2, ?_⟩
    intro o ho p hp
    have ho' : o ∈ takeNames d.objs objects reorder := ho
    have hp' : p ∈ takeNames d.props properties reorder := hp
    have hcb : ((takeNames d.objs objects reorder).flatMap (fun o =>
        (takeNames d.props properties reorder).filterMap fun p =>
          if d.pairs.contains (o, p) then some (o, p) else none)).contains (o, p)
          = d.pairs.contains (o, p) := by
      rw [Bool.eq_iff_iff, List.contains_iff_mem, List.contains_iff_mem, mem_subtable]; tauto
    have c1 := List.contains_iff_mem.mpr ho'
    have c2 := List.contains_iff_mem.mpr hp'
    have c3 := List.contains_iff_mem.mpr (s1 o ho')
    have c4 := List.contains_iff_mem.mpr (s2 p hp')
    simp only [Defn.getItem, c1, c2, c3, c4, hcb, Bool.and_self, if_true]

/-- `take` keeps the invariant; without `reorder` the kept names are a sublist of the original -/
theorem C14_take_inv {d t : Defn} {objects properties : Option (List Name)} {reorder : Bool}
    (hd : d.Inv) (h : d.take objects properties reorder = .ok t) : t.Inv := by
  obtain ⟨h1, h2, h3, _, _, _⟩ := C14_take h
  have n1 : (takeNames d.objs objects reorder).Nodup := by
    cases objects with
    | none => exact hd.1
    | some xs => cases reorder <;> simp only [takeNames, if_true, Bool.false_eq_true, if_false]
                 · exact hd.1.filter _
                 · exact nodup_uniq _
  have n2 : (takeNames d.props properties reorder).Nodup := by
    cases properties with
    | none => exact hd.2.1
    | some xs => cases reorder <;> simp only [takeNames, if_true, Bool.false_eq_true, if_false]
                 · exact hd.2.1.filter _
                 · exact nodup_uniq _
  refine ⟨h1 ▸ n1, h2 ▸ n2, ?_, fun o p hop => ⟨((h3 o p).mp hop).1, ((h3 o p).mp hop).2.1⟩⟩
  rw [take_eq] at h
  split at h
  · cases h
  · cases h
    exact nodup_subtable n1 n2

theorem C14_take_order (l xs : List Name) :
    (takeNames l (some xs) false).Sublist l ∧ takeNames l (some xs) true = uniq xs ∧
    takeNames l none false = l ∧ takeNames l none true = l :=
  ⟨List.filter_sublist, rfl, rfl, rfl⟩

example : ∃ t, exD.take (some ["o2", "o1", "o2"]) (some ["p2"]) true = .ok t ∧
    t.objs = ["o2", "o1"] ∧ t.props = ["p2"] ∧ t.bools = [[true], [false]] :=
  ⟨_, rfl, by decide, by decide, by decide⟩
example : ∃ t, exD.take (some ["o2", "o1", "o2"]) none false = .ok t ∧
    t.objs = ["o1", "o2"] ∧ t.props = ["p1", "p2"] := ⟨_, rfl, by decide, by decide⟩
/-- the truthiness quirk: an empty (but given) list is not validated and selects nothing -/
example : ∃ t, exD.take (some []) none false = .ok t ∧ t.objs = [] ∧ t.props = ["p1", "p2"] :=
  ⟨_, rfl, by decide, by decide⟩

/-- `take` raises exactly when some requested name is unknown (an empty or missing list requests
nothing) -/
theorem C14_take_keyerror {d : Defn} {objects properties : Option (List Name)} {reorder : Bool} :
    (∃ e, d.take objects properties reorder = .error e) ↔
      (∃ x ∈ objects.getD [], x ∉ d.objs) ∨ (∃ x ∈ properties.getD [], x ∉ d.props) := by
  unfold Defn.take
  simp only
  split
  · rename_i hg
    rw [take_guard_iff] at hg
    simp [hg]
  · rename_i hg
    rw [take_guard_iff] at hg
    simp only [reduceCtorEq, exists_false, false_iff]
    exact hg

/-- the `KeyError` carries exactly the unknown names: unknown objects first, then unknown
properties, each in the given order, without repeats -/
theorem C14_take_keyerror_names {d : Defn} {objects properties : Option (List Name)} {reorder : Bool}
    {e : Err × List Name} (h : d.take objects properties reorder = .error e) :
    e.1 = .keyError ∧
    e.2 = uniq ((objects.getD []).filter (fun x => !d.objs.contains x)) ++
      (uniq ((properties.getD []).filter (fun x => !d.props.contains x))).filter
        (fun x => !(uniq ((objects.getD []).filter (fun x => !d.objs.contains x))).contains x) ∧
    e.2.Nodup ∧
    ∀ x, x ∈ e.2 ↔ (x ∈ objects.getD [] ∧ x ∉ d.objs) ∨ (x ∈ properties.getD [] ∧ x ∉ d.props) := by
  unfold Defn.take at h
  simp only at h
  split at h
  · cases h
    refine ⟨rfl, take_notfound_eq d _ _, nodup_uIor (nodup_uniq _), ?_⟩
    intro x
    simp only [mem_uIor, uRsub, mem_uniq, List.mem_filter, List.contains_eq_mem, Bool.not_eq_true',
      decide_eq_false_iff_not]
  · cases h

example : exD.take (some ["zz", "o1", "aa", "zz"]) (some ["p1", "qq", "aa"]) false
    = .error (.keyError, ["zz", "aa", "qq"]) := by decide

/-! ### transposed -/

theorem C14_transposed_involutive (d : Defn) : d.transposed.transposed = d := by
  cases d with
  | mk objs props pairs =>
    simp only [Defn.transposed, List.map_map, Defn.mk.injEq, true_and]
    conv_rhs => rw [← List.map_id pairs]
    apply List.map_congr_left
    rintro ⟨o, p⟩ _
    rfl

theorem C14_transposed_cells (d : Defn) :
    d.transposed.objs = d.props ∧ d.transposed.props = d.objs ∧
    (∀ o p, (p, o) ∈ d.transposed.pairs ↔ (o, p) ∈ d.pairs) ∧
    (∀ o p, d.transposed.getItem p o = d.getItem o p) := by
  have hc : ∀ o p, (p, o) ∈ d.transposed.pairs ↔ (o, p) ∈ d.pairs := by
    intro o p
    simp only [Defn.transposed, List.mem_map, Prod.exists, Prod.mk.injEq]
    constructor
    · rintro ⟨a, b, hab, rfl, rfl⟩; exact hab
    · intro h; exact ⟨o, p, h, rfl, rfl⟩
  refine ⟨rfl, rfl, hc, ?_⟩
  intro o p
  have e : d.transposed.pairs.contains (p, o) = d.pairs.contains (o, p) := by
    rw [Bool.eq_iff_iff, List.contains_iff_mem, List.contains_iff_mem]; exact hc o p
  unfold Defn.getItem
  rw [e]
  show (if (d.props.contains p && d.objs.contains o) = true then _ else _) = _
  rw [Bool.and_comm]

theorem C14_transposed_inv {d : Defn} (h : d.Inv) : d.transposed.Inv := by
  obtain ⟨h1, h2, h3, h4⟩ := h
  refine ⟨h2, h1, ?_, ?_⟩
  · apply List.Nodup.map_on _ h3
    rintro ⟨a, b⟩ _ ⟨a', b'⟩ _ heq
    simp only [Prod.mk.injEq] at heq
    rw [heq.1, heq.2]
  · intro o p hop
    have := ((C14_transposed_cells d).2.2.1 p o).mp hop
    exact ⟨(h4 _ _ this).2, (h4 _ _ this).1⟩

example : exD.transposed.bools = [[true, false], [false, true]] ∧
    (exD.step (.setItem "o1" "p2" true)).toOption.map (·.1.transposed.bools)
      = some [[true, false], [true, true]] := ⟨by decide, by decide⟩

/-! ### inverted -/

/-- `inverted`: complement of the cells inside `objs × props`, same names -/
theorem C14_inverted_cells (d : Defn) :
    d.inverted.objs = d.objs ∧ d.inverted.props = d.props ∧
    (∀ o p, (o, p) ∈ d.inverted.pairs ↔ o ∈ d.objs ∧ p ∈ d.props ∧ (o, p) ∉ d.pairs) ∧
    (∀ o p, d.inverted.getItem o p = (d.getItem o p).map (!·)) := by
  have hc : ∀ o p, (o, p) ∈ d.inverted.pairs ↔ o ∈ d.objs ∧ p ∈ d.props ∧ (o, p) ∉ d.pairs :=
    fun o p => mem_invtable
  refine ⟨rfl, rfl, hc, ?_⟩
  intro o p
  simp only [Defn.getItem, List.contains_eq_mem, hc]
  simp only [Defn.inverted]
  by_cases ho : o ∈ d.objs <;> by_cases hp : p ∈ d.props <;> simp [ho, hp, Except.map]

theorem C14_inverted_inv {d : Defn} (h : d.Inv) : d.inverted.Inv := by
  refine ⟨h.1, h.2.1, nodup_invtable h.1 h.2.1, ?_⟩
  intro o p hop
  have := ((C14_inverted_cells d).2.2.1 o p).mp hop
  exact ⟨this.1, this.2.1⟩

/-- `inverted` is an involution on proper definitions: same names in the same order, same table,
equal as definitions (the internal cell list is a set, its order is not observable) -/
theorem C14_inverted_involutive {d : Defn} (h : d.Inv) :
    d.inverted.inverted.objs = d.objs ∧ d.inverted.inverted.props = d.props ∧
    d.inverted.inverted.bools = d.bools ∧ d.inverted.inverted.eqv d = true ∧
    (∀ o p, (o, p) ∈ d.inverted.inverted.pairs ↔ (o, p) ∈ d.pairs) := by
  have hc : ∀ o p, (o, p) ∈ d.inverted.inverted.pairs ↔ (o, p) ∈ d.pairs := by
    intro o p
    rw [(C14_inverted_cells d.inverted).2.2.1, (C14_inverted_cells d).2.2.1]
    simp only [(C14_inverted_cells d).1, (C14_inverted_cells d).2.1]
    constructor
    · rintro ⟨ho, hp, hn⟩
      by_contra hne
      exact hn ⟨ho, hp, hne⟩
    · intro hop
      exact ⟨(h.2.2.2 o p hop).1, (h.2.2.2 o p hop).2, fun hn => hn.2.2 hop⟩
  refine ⟨rfl, rfl, ?_, ?_, hc⟩
  · refine (bools_eq_iff (d := d.inverted.inverted) (e := d) rfl rfl).mpr ?_
    intro o _ p _
    exact hc o p
  · rw [eqv_iff]
    exact ⟨fun _ => Iff.rfl, fun _ => Iff.rfl, fun ⟨o, p⟩ => hc o p⟩

/-- without the invariant the table is still restored (residue cells are invisible in `bools`) -/
theorem C14_inverted_involutive_bools (d : Defn) : d.inverted.inverted.bools = d.bools := by
  refine (bools_eq_iff (d := d.inverted.inverted) (e := d) rfl rfl).mpr ?_
  intro o ho p hp
  rw [(C14_inverted_cells d.inverted).2.2.1, (C14_inverted_cells d).2.2.1]
  simp only [(C14_inverted_cells d).1, (C14_inverted_cells d).2.1] at ho hp ⊢
  constructor
  · rintro ⟨_, _, hn⟩
    by_contra hne
    exact hn ⟨ho, hp, hne⟩
  · intro hop
    exact ⟨ho, hp, fun hn => hn.2.2 hop⟩

example : exD.Inv ∧ exD.inverted.bools = [[false, true], [true, false]] ∧
    exD.inverted.inverted.eqv exD = true := ⟨exD_inv, by decide, by decide⟩

/-! ### Context(*definition) -/

/-- what `Context.bools` / `Context.definition()` read back from the index-level context -/
def ctxBools (K : Ctx) : List (List Bool) :=
  (List.range K.n).map fun i => (List.range K.m).map fun j => (K.rows[i]!).testBit j

/-- the guard chain of `Context.__init__` accepts exactly: names non-empty, duplicate free,
disjoint, and a rectangular table -/
theorem C14_ctorAccepts_iff {os ps : List Name} {lens : List Nat} :
    ctorAccepts os ps lens = true ↔
      os ≠ [] ∧ os.Nodup ∧ ps ≠ [] ∧ ps.Nodup ∧ (∀ x ∈ os, x ∉ ps) ∧
      lens.length = os.length ∧ ∀ n ∈ lens, n = ps.length := defn_ctorAccepts_iff

/-- for a proper definition the shape clause always holds -/
theorem C14_ctorAccepts_defn {d : Defn} (h : d.Inv) :
    ctorAccepts d.objs d.props (d.bools.map (·.length)) = true ↔
      d.objs ≠ [] ∧ d.props ≠ [] ∧ ∀ x ∈ d.objs, x ∉ d.props := by
  rw [defn_ctorAccepts_iff]
  have h1 : (d.bools.map (·.length)).length = d.objs.length := by simp [bools_length]
  have h2 : ∀ n ∈ d.bools.map (·.length), n = d.props.length := by
    intro n hn
    simp only [List.mem_map] at hn
    obtain ⟨row, hrow, rfl⟩ := hn
    exact bools_row_length d row hrow
  have := h.1
  have := h.2.1
  tauto

/-- an accepted triple gives a well-formed context that stores exactly the given table -/
theorem C14_ctxOfTriple_ok {os ps : List Name} {bs : List (List Bool)} {K : Ctx}
    (h : ctxOfTriple os ps bs = .ok K) :
    K.n = os.length ∧ K.m = ps.length ∧ K.WF ∧
    ∀ i j, (K.rows[i]!).testBit j = (bs.getD i []).getD j false := by
  unfold ctxOfTriple at h
  split at h
  · rename_i hacc
    rw [defn_ctorAccepts_iff] at hacc
    obtain ⟨_, _, _, _, _, hl, hrow⟩ := hacc
    cases h
    have hbit : ∀ i j, ((bs.map rowMask).toArray[i]!).testBit j = (bs.getD i []).getD j false := by
      intro i j
      rw [defn_getElem!_map_rowMask, testBit_rowMask]
    refine ⟨rfl, rfl, ⟨?_, ?_, rfl⟩, hbit⟩
    · simp only [mkCtx, List.size_toArray, List.length_map]
      simpa using hl
    · intro i hi
      simp only [mkCtx] at hi ⊢
      rw [defn_getElem!_map_rowMask]
      have hlen : i < bs.length := by
        have : bs.length = os.length := by simpa using hl
        omega
      have : (bs.getD i []).length = ps.length := by
        apply hrow
        simp only [List.mem_map]
        exact ⟨bs[i], List.getElem_mem hlen, by simp [List.getD_eq_getElem?_getD, hlen]⟩
      rw [← this]
      exact defn_rowMask_lt _
  · cases h

/-- `Context(*definition)` stores exactly the definition's table, and reading the table back
(`Context.definition()`) gives the definition's `bools` again -/
theorem C14_ctx_def_inverse {d : Defn} {K : Ctx} (h : ctxOfTriple d.objs d.props d.bools = .ok K) :
    K.n = d.objs.length ∧ K.m = d.props.length ∧ K.WF ∧
    (∀ i j, (K.rows[i]!).testBit j = (d.bools.getD i []).getD j false) ∧
    (∀ i j (hi : i < d.objs.length) (hj : j < d.props.length),
      (K.rows[i]!).testBit j = d.pairs.contains (d.objs[i], d.props[j])) ∧
    ctxBools K = d.bools := by
  obtain ⟨h1, h2, h3, h4⟩ := C14_ctxOfTriple_ok h
  have h5 : ∀ i j (hi : i < d.objs.length) (hj : j < d.props.length),
      (K.rows[i]!).testBit j = d.pairs.contains (d.objs[i], d.props[j]) := by
    intro i j hi hj
    rw [h4]
    simp [Defn.bools, List.getD_eq_getElem?_getD, hi, hj]
  refine ⟨h1, h2, h3, h4, h5, ?_⟩
  apply List.ext_getElem
  · simp [ctxBools, h1, bools_length]
  · intro i hi1 hi2
    have hi : i < d.objs.length := by rw [bools_length] at hi2; exact hi2
    apply List.ext_getElem
    · simp [ctxBools, h2, Defn.bools]
    · intro j hj1 hj2
      have hj : j < d.props.length := by simpa [Defn.bools] using hj2
      simp only [ctxBools, List.getElem_map, List.getElem_range]
      rw [h5 i j hi hj]
      simp [Defn.bools]

/-- hence the definition rebuilt from the context equals the original one -/
theorem C14_def_ctx_def {d : Defn} {K : Ctx} (hd : d.Inv)
    (h : ctxOfTriple d.objs d.props d.bools = .ok K) :
    ∃ f, Defn.ofTriple d.objs d.props (ctxBools K) = .ok f ∧ d.eqv f = true ∧
      f.objs = d.objs ∧ f.props = d.props ∧ f.bools = d.bools := by
  rw [(C14_ctx_def_inverse h).2.2.2.2.2]
  have hf := C13_fresh_eq hd
  unfold Defn.freshEq at hf
  cases hof : Defn.ofTriple d.objs d.props d.bools with
  | error e => rw [hof] at hf; cases hf
  | ok f =>
    rw [hof] at hf
    obtain ⟨_, _, rfl⟩ := ofTriple_ok hof
    refine ⟨_, rfl, hf, rfl, rfl, ?_⟩
    generalize hps : ((d.objs.zip d.bools).flatMap fun (o, row) =>
      (d.props.zip row).filterMap fun (p, b) => if b then some (o, p) else none).eraseDups = ps
    have hmem : ∀ o p, (o, p) ∈ ps ↔ o ∈ d.objs ∧ p ∈ d.props ∧ (o, p) ∈ d.pairs := by
      intro o p; rw [← hps, List.mem_eraseDups, mem_fresh_cells]
    refine (bools_eq_iff (d := ⟨d.objs, d.props, ps⟩) (e := d) rfl rfl).mpr ?_
    intro o ho p hp
    rw [hmem]
    simp only at ho hp
    tauto

example : ∃ K, ctxOfTriple exD.objs exD.props exD.bools = .ok K ∧ K.rows = #[1, 2] ∧ K.cols = #[1, 2] :=
  ⟨_, rfl, by decide, by decide⟩
example : exD.Inv ∧ ctorAccepts exD.objs exD.props (exD.bools.map (·.length)) = true :=
  ⟨exD_inv, by decide⟩

/-! ### value semantics -/

/-- editing one definition of a collection leaves all others unchanged: derived definitions share
no state with their sources -/
theorem C14_frame (ds : List Defn) (i j : Nat) (d' : Defn) (hij : i ≠ j) :
    (ds.set i d')[j]? = ds[j]? := by
  simp [hij]

end FCA

open FCA in
#print axioms C14_union_cells
open FCA in
#print axioms C14_union_rejects_iff
open FCA in
#print axioms C14_union_accepts_iff
open FCA in
#print axioms C14_intersection_cells
open FCA in
#print axioms C14_intersection_rejects_iff
open FCA in
#print axioms C14_take
open FCA in
#print axioms C14_take_inv
open FCA in
#print axioms C14_take_keyerror
open FCA in
#print axioms C14_take_keyerror_names
open FCA in
#print axioms C14_transposed_involutive
open FCA in
#print axioms C14_transposed_cells
open FCA in
#print axioms C14_transposed_inv
open FCA in
#print axioms C14_inverted_cells
open FCA in
#print axioms C14_inverted_inv
open FCA in
#print axioms C14_inverted_involutive
open FCA in
#print axioms C14_ctorAccepts_iff
open FCA in
#print axioms C14_ctorAccepts_defn
open FCA in
#print axioms C14_ctxOfTriple_ok
open FCA in
#print axioms C14_ctx_def_inverse
open FCA in
#print axioms C14_def_ctx_def
open FCA in
#print axioms C14_frame
