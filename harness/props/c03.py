"""C03 - the lattice contains exactly the formal concepts of the context, once each."""
from core import guard
from props import lat
import gen


def pairs_of(pc, L):
    return sorted((pc.omask(c.extent), pc.pmask(c.intent)) for c in L)


def run(run):
    run.rule = ('contexts: exhaustive small tables, structured families (scales, chains, duplicates, empty/full rows and '
                'columns), stratified random, wide/tall; observable: multiset of (extent, intent) over iter(lattice), len(lattice); '
                'a case = one context; non-trivial = not 1x1 and not constant')
    d = run.driver
    # sizes beyond the thresholds at which an implementation may switch strategy: > 1000 concepts, > 50000 cells
    from concepts import Context
    with guard(run, 'Boolean lattice of the 10 x 10 contranominal scale', ['contranominal 10']):
        N = 10
        objs = ['g%d' % i for i in range(N)]
        props = ['m%d' % j for j in range(N)]
        big = Context(objs, props, [tuple(i != j for j in range(N)) for i in range(N)])
        got = [(frozenset(c.extent), frozenset(c.intent)) for c in big.lattice]
        want = {(frozenset(o for k, o in enumerate(objs) if (mask >> k) & 1), frozenset(p for k, p in enumerate(props) if not (mask >> k) & 1))
                for mask in range(1 << N)}
        if len(got) != 1 << N or set(got) != want or len(big.lattice) != 1 << N:
            run.fail('concepts of the 10 x 10 contranominal scale', [len(got), len(set(got))], [1 << N, 1 << N], ['contranominal 10'])
        run.case('contranominal 10', True, {'context': '10 x 10 contranominal', 'concepts': 1 << N})
    with guard(run, 'a 600 x 100 table (60000 cells)', ['nominal 600 x 100']):
        n_, m_ = 600, 100
        objs = ['g%d' % i for i in range(n_)]
        props = ['m%d' % j for j in range(m_)]
        wide = Context(objs, props, [tuple(j == i % m_ for j in range(m_)) for i in range(n_)])
        got = sorted((len(c.extent), len(c.intent)) for c in wide.lattice)
        want = sorted([(0, m_), (n_, 0)] + [(n_ // m_, 1)] * m_)
        if got != want or wide.extension([props[7]]) != tuple(o for i, o in enumerate(objs) if i % m_ == 7):
            run.fail('concepts of the 600 x 100 nominal table', got[:6], want[:6], ['nominal 600 x 100'])
        run.case('nominal 600 x 100', True, {'context': '600 x 100 nominal', 'concepts': m_ + 2})
    run.count('size-threshold contexts', 2)
    for tab, pc in lat.contexts(run, exh_quick=10, rand_quick=600, wide_quick=40, exh_thorough=14, nmax=10, mmax=10):
        if min(pc.n, pc.m) > 12:
            continue
        if run.evaluations % 5 == 0 and not getattr(pc, 'reloaded', False):
            # a partial lattice built directly above some objects (it may be refused) must leave the context's own lattice alone
            try:
                from concepts.lattices import Lattice
                Lattice(pc.ctx, infimum=pc.objects[:1])
            except Exception:
                pass
        if run.evaluations % 5 == 1 and not getattr(pc, 'reloaded', False):
            # covers asked for (twice) before the lattice is built: the enumeration must not be affected
            pc.ctx.neighbors(pc.objects[:1]), pc.ctx.neighbors(pc.objects[:1]), pc.ctx.neighbors([])
        with guard(run, 'iter(Context.lattice)', [pc.line, 'lattice']):
            L = pc.ctx.lattice
            got = pairs_of(pc, L)
            n_len = len(L)
        model = lat.parse_lattice(d.ask('lattice'))
        want = sorted((c['extent'], c['intent']) for c in model)
        run.case(pc.line, gen.nontrivial(tab), {'context': pc.line, 'concepts': len(want)})
        extra = {'objects': pc.objects, 'properties': pc.properties, 'bools': pc.bools}
        if got != want:
            missing = [p for p in want if p not in got]
            spurious = [p for p in got if p not in want]
            dup = [p for p in set(got) if got.count(p) > 1]
            run.fail('set of (extent, intent) pairs of the lattice', got, want, [pc.line, 'lattice'],
                     dict(extra, missing=missing, spurious=spurious, repeated=dup))
        if n_len != len(want):
            run.fail('len(lattice)', n_len, len(want), [pc.line, 'lattice'], extra)
        bottom = tuple(int(x) for x in d.ask('dpo 0').split())
        if bottom not in got or ((1 << pc.n) - 1) not in [e for e, _ in got]:
            run.fail('bottom / top concept missing', got, bottom, [pc.line, 'dpo 0'], extra)
        run.count('contexts')
        run.count('concepts', len(want))
        if len(want) == 1:
            run.count('one-concept lattices')
