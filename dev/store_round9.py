#!/usr/bin/env python3
"""Copy verified round-9 candidates (/tmp/mut/out9/<P>, result lines in .work/round9.log) to seeded/Cxx-r9m1."""
import json, os, re, shutil, sys
for line in open('/verif/.work/round9.log').read().splitlines():
    m = re.match(r'(C\d\d) (\S+): demo clean=(\d+) mutated=(\d+) suite=\[(.*?)\] check=\[(.*)\]', line)
    if not m:
        print('??', line[:100]); continue
    pid, sub, clean, mut, suite, check = m.groups()
    ok = clean == '0' and mut != '0' and suite.startswith('301 passed') and 'VIOLATION' in check
    src = '/tmp/mut/out9/%s' % sub
    tag = 'm1' if sub == pid else sub.split('_')[-1]
    dst = '/verif/seeded/%s-r9%s' % (pid, tag)
    if not ok:
        print('NOT STORED', line[:160]); continue
    os.makedirs(dst, exist_ok=True)
    shutil.copy(src + '/patch.diff', dst + '/patch.diff')
    shutil.copy(src + '/demo.py', dst + '/demo.py')
    meta = json.load(open(src + '/meta.json'))
    meta['verified'] = {'ran': 'dev/try8.sh <mutant dir> %s in a private scratch worktree: clean tree demo exit 0; patch applied: pytest %s, '
                               'demo exit %s; VERIF_REPO=<worktree> ./check %s --tier quick --no-build (correspondence only) -> %s' % (pid, suite, mut, pid, check.strip())}
    json.dump(meta, open(dst + '/meta.json', 'w'), indent=1)
    print('stored', dst)
