import FCA.Proofs.Stored
import FCA.Proofs.Validate
/-
Property C11 — structured persistence (`todict` / `fromdict`, `Lattice._tolist` / `_fromlist`) reloads
the same context and the same lattice.

* `C11_tolist_shape`       : the stored form is the documented index encoding
* `C11_init_annotate`      : `_init` + `_annotate` recompute all derived concept fields
* `C11_roundtrip_ordered`  : ordered path (`raw=False`) rebuilds the lattice, all fields equal
* `C11_roundtrip_raw_identity`, `C11_roundtrip_raw_inner`, `C11_roundtrip_raw` : re-sorting path
  (`raw=True`) on the stored form, on inner shuffles, on any shuffle of the stored sequences
* `C11_context_roundtrip`, `C11_context_roundtrip_ctx` : the table encoding
-/
namespace FCA

open C11

/-! ### the stored form -/

/-- `Lattice._tolist`: one entry per concept, in iteration order; the entry of concept number `k`
(`c.index = k`) lists the members of extent and intent as ascending index lists (each member exactly
once) and the upper / lower neighbors as the tuples of their positions, which are the `index` of the
neighbor concepts. -/
theorem C11_tolist_shape {K : Ctx} (h : K.WF) :
    (toStored K (mkLattice K)).length = (mkLattice K).length ∧
    ∀ (k : Nat) (c : LConcept), (mkLattice K)[k]? = some c →
      (toStored K (mkLattice K))[k]? =
        some (⟨membersW K.n c.extent, membersW K.m c.intent, c.upper, c.lower⟩ : Stored) ∧
      c.index = k ∧
      (membersW K.n c.extent).Pairwise (· < ·) ∧ (∀ o, o ∈ membersW K.n c.extent ↔ o ∈ᵇ c.extent) ∧
      (membersW K.m c.intent).Pairwise (· < ·) ∧ (∀ p, p ∈ membersW K.m c.intent ↔ p ∈ᵇ c.intent) ∧
      ofMembers (membersW K.n c.extent) = c.extent ∧ ofMembers (membersW K.m c.intent) = c.intent ∧
      (∀ j ∈ c.upper, ∃ d : LConcept, (mkLattice K)[j]? = some d ∧ d.index = j) ∧
      (∀ j ∈ c.lower, ∃ d : LConcept, (mkLattice K)[j]? = some d ∧ d.index = j) := by
  have S := mkLattice_spec h
  refine ⟨by simp [toStored], ?_⟩
  intro k c hc
  have hbe := S.bounded hc
  have hbi := bounded_intent S hc
  refine ⟨by rw [toStored_get, hc]; rfl, S.index hc, membersW_sorted _ _, ?_, membersW_sorted _ _, ?_,
    ofMembers_membersW hbe, ofMembers_membersW hbi, ?_, ?_⟩
  · intro o; rw [mem_membersW]; exact ⟨fun h' => h'.2, fun h' => ⟨hbe o h', h'⟩⟩
  · intro p; rw [mem_membersW]; exact ⟨fun h' => h'.2, fun h' => ⟨hbi p h', h'⟩⟩
  · intro j hj
    obtain ⟨d, hd, _⟩ := S.upper_get hc hj
    exact ⟨d, hd, S.index hd⟩
  · intro j hj
    obtain ⟨d, hd, _⟩ := S.lower_get hc hj
    exact ⟨d, hd, S.index hd⟩

/-! ### non-vacuity: a concrete context (3 objects, 3 properties; 6 concepts) -/

def C11_exK : Ctx := mkCtx 3 3 #[0b011, 0b001, 0b110]
theorem C11_exK_WF : C11_exK.WF := mkCtx_WF 3 3 _ rfl (by intro i hi; interval_cases i <;> decide)

/-- the stored form of the example lattice -/
def C11_exSt : List Stored :=
  [⟨[], [0, 1, 2], [1, 2], []⟩, ⟨[0], [0, 1], [3, 4], [0]⟩, ⟨[2], [1, 2], [4], [0]⟩,
   ⟨[0, 1], [0], [5], [1]⟩, ⟨[0, 2], [1], [5], [1, 2]⟩, ⟨[0, 1, 2], [], [], [3, 4]⟩]

theorem C11_exSt_eq : toStored C11_exK (mkLattice C11_exK) = C11_exSt := by
  apply List.map_injective_iff.mpr storedTup_inj
  decide +kernel

example : C11_exK.WF ∧ (mkLattice C11_exK).length = 6 := ⟨C11_exK_WF, by decide +kernel⟩

/-! ### ordered path -/

/-- `_init` + `_annotate` (the model's `finishLattice`) recompute `index`, `dindex`, `atoms` and both
label lists from the (extent, intent, upper, lower) part of the concepts -/
theorem C11_init_annotate {K : Ctx} (h : K.WF) :
    finishLattice K ((mkLattice K).map fun c => (c.extent, c.intent, c.upper, c.lower)) = mkLattice K :=
  finishLattice_spec (mkLattice_spec h)

/-- `Lattice._fromlist(context, lattice._tolist(), unordered=False)` is the lattice: the lists of
concepts are equal, i.e. every field (extent, intent, upper, lower, index, dindex, atoms, objects,
properties) of every concept -/
theorem C11_roundtrip_ordered {K : Ctx} (h : K.WF) :
    fromStored K (toStored K (mkLattice K)) false = mkLattice K := by
  have S := mkLattice_spec h
  rw [fromStored_false, decode_toStored S]
  exact finishLattice_spec S

/-! ### re-sorting path -/

/-- `st'` is a rearrangement of the stored form `st`: the entry at (new) position `p` of `st'` came
from (old) position `perm p` of `st`; `newpos` is the inverse renaming of positions; the neighbor
tuples of the entry are arbitrary permutations of the renamed old tuples and the extent / intent
index lists are arbitrary permutations of the old ones. All fields are decidable. -/
structure StoredShuffle (st st' : List Stored) (perm newpos : Nat → Nat) : Prop where
  length : st'.length = st.length
  perm_lt : ∀ p, p < st.length → perm p < st.length
  newpos_lt : ∀ q, q < st.length → newpos q < st.length
  newpos_perm : ∀ p, p < st.length → newpos (perm p) = p
  perm_newpos : ∀ q, q < st.length → perm (newpos q) = q
  entry : ∀ p, p < st.length → ∀ s' ∈ st'[p]?, ∀ s ∈ st[perm p]?,
    s'.extent.Perm s.extent ∧ s'.intent.Perm s.intent ∧
    s'.upper.Perm (s.upper.map newpos) ∧ s'.lower.Perm (s.lower.map newpos)

/-- `Lattice._fromlist(context, shuffled, unordered=True)` is the lattice, for ANY rearrangement of
the stored concepts (neighbor indexes renamed accordingly) and ANY rearrangement inside each of the
four index tuples of every stored concept. -/
theorem C11_roundtrip_raw {K : Ctx} (h : K.WF) {st' : List Stored} {perm newpos : Nat → Nat}
    (hs : StoredShuffle (toStored K (mkLattice K)) st' perm newpos) :
    fromStored K st' true = mkLattice K := by
  have S := mkLattice_spec h
  have hl : (toStored K (mkLattice K)).length = (mkLattice K).length := by simp [toStored]
  obtain ⟨h1, h2, h3, h4, h5, h6⟩ := hs
  rw [hl] at h1 h2 h3 h4 h5 h6
  rw [fromStored_true]
  refine rawFinish_spec S (σ := perm) (τ := newpos) (by simp [decode, h1]) h2 h3 h4 h5 ?_
  intro p hp
  have hp' : p < st'.length := h1 ▸ hp
  have hq := h2 p hp
  have hc : (mkLattice K)[perm p]? = some (mkLattice K)[perm p] := List.getElem?_eq_getElem hq
  have hs' : st'[p]? = some st'[p] := List.getElem?_eq_getElem hp'
  obtain ⟨e1, e2, e3, e4⟩ := h6 p hp st'[p] hs' _ (by rw [toStored_get, hc]; rfl)
  refine ⟨_, st'[p].upper, st'[p].lower, hc, ?_, e3, e4⟩
  unfold decode
  rw [List.getElem?_map, hs', Option.map_some, ofMembers_perm e1, ofMembers_perm e2,
    ofMembers_membersW (S.bounded hc), ofMembers_membersW (bounded_intent S hc)]

/-- the identity rearrangement -/
theorem C11_shuffle_refl (st : List Stored) : StoredShuffle st st id id where
  length := rfl
  perm_lt := fun _ h => h
  newpos_lt := fun _ h => h
  newpos_perm := fun _ _ => rfl
  perm_newpos := fun _ _ => rfl
  entry := by
    intro p _ s' hs' s hs
    rw [id, Option.mem_def] at hs
    rw [Option.mem_def, hs] at hs'
    cases hs'
    simp

/-- special case: the re-sorting path on the stored form itself (`raw=True` on a `todict()` that was
not touched) -/
theorem C11_roundtrip_raw_identity {K : Ctx} (h : K.WF) :
    fromStored K (toStored K (mkLattice K)) true = mkLattice K :=
  C11_roundtrip_raw h (C11_shuffle_refl _)

/-- special case: the concepts stay in place, the four index tuples of every stored concept are
shuffled arbitrarily -/
theorem C11_roundtrip_raw_inner {K : Ctx} (h : K.WF) {st' : List Stored}
    (hlen : st'.length = (toStored K (mkLattice K)).length)
    (hent : ∀ p, p < (toStored K (mkLattice K)).length → ∀ s' ∈ st'[p]?, ∀ s ∈ (toStored K (mkLattice K))[p]?,
      s'.extent.Perm s.extent ∧ s'.intent.Perm s.intent ∧ s'.upper.Perm s.upper ∧ s'.lower.Perm s.lower) :
    fromStored K st' true = mkLattice K := by
  refine C11_roundtrip_raw h (perm := id) (newpos := id)
    ⟨hlen, fun _ h => h, fun _ h => h, fun _ _ => rfl, fun _ _ => rfl, ?_⟩
  intro p hp s' hs' s hs
  simpa using hent p hp s' hs' s hs

/-- non-vacuity (inner shuffle): every tuple of the example written in another order -/
def C11_exInner : List Stored :=
  [⟨[], [2, 0, 1], [2, 1], []⟩, ⟨[0], [1, 0], [4, 3], [0]⟩, ⟨[2], [2, 1], [4], [0]⟩,
   ⟨[1, 0], [0], [5], [1]⟩, ⟨[2, 0], [1], [5], [2, 1]⟩, ⟨[1, 2, 0], [], [], [4, 3]⟩]

example : C11_exInner.length = (toStored C11_exK (mkLattice C11_exK)).length ∧
    ∀ p, p < (toStored C11_exK (mkLattice C11_exK)).length → ∀ s' ∈ C11_exInner[p]?,
      ∀ s ∈ (toStored C11_exK (mkLattice C11_exK))[p]?,
      s'.extent.Perm s.extent ∧ s'.intent.Perm s.intent ∧ s'.upper.Perm s.upper ∧ s'.lower.Perm s.lower := by
  rw [C11_exSt_eq]; decide

/-- non-vacuity (general shuffle): the six stored concepts in the order 4, 0, 5, 2, 1, 3, neighbor
indexes renamed, all tuples shuffled -/
def C11_exShuffled : List Stored :=
  [⟨[2, 0], [1], [2], [3, 4]⟩, ⟨[], [2, 0, 1], [4, 3], []⟩, ⟨[1, 2, 0], [], [], [0, 5]⟩,
   ⟨[2], [2, 1], [0], [1]⟩, ⟨[0], [0, 1], [5, 0], [1]⟩, ⟨[1, 0], [0], [2], [4]⟩]
def C11_exPerm (p : Nat) : Nat := [4, 0, 5, 2, 1, 3].getD p 0
def C11_exNewpos (q : Nat) : Nat := [1, 4, 3, 5, 0, 2].getD q 0

theorem C11_exShuffle :
    StoredShuffle (toStored C11_exK (mkLattice C11_exK)) C11_exShuffled C11_exPerm C11_exNewpos := by
  rw [C11_exSt_eq]
  exact ⟨by decide, by decide, by decide, by decide, by decide, by decide⟩

/-- the example instance of the theorem, also checked by evaluation -/
example : fromStored C11_exK C11_exShuffled true = mkLattice C11_exK := C11_roundtrip_raw C11_exK_WF C11_exShuffle
example : (fromStored C11_exK C11_exShuffled true == mkLattice C11_exK) = true := by decide +kernel
example : (fromStored C11_exK C11_exInner true == mkLattice C11_exK) = true := by decide +kernel
example : (fromStored C11_exK C11_exSt false == mkLattice C11_exK) = true := by decide +kernel
/-- the ordered path does NOT accept a shuffled list (it is only specified for canonical order) -/
example : (fromStored C11_exK C11_exShuffled false == mkLattice C11_exK) = false := by decide +kernel

/-! ### the table -/

/-- `todict()['context']` stores for every object the ascending list of its property indexes
(`membersW` of the row); `fromdict` rebuilds the row mask from it -/
theorem C11_context_roundtrip {K : Ctx} (h : K.WF) (i : Nat) (hi : i < K.n) :
    (membersW K.m K.rows[i]!).Pairwise (· < ·) ∧
    (∀ j, j ∈ membersW K.m K.rows[i]! ↔ j ∈ᵇ K.rows[i]!) ∧
    ofMembers (membersW K.m K.rows[i]!) = K.rows[i]! := by
  have hb : Bounded K.m K.rows[i]! := bounded_iff_lt.mpr (h.2.1 i hi)
  refine ⟨membersW_sorted _ _, ?_, ofMembers_membersW hb⟩
  intro j; rw [mem_membersW]; exact ⟨fun h' => h'.2, fun h' => ⟨hb j h', h'⟩⟩

/-- the Boolean row `fromdict` builds from the stored index row (`boolsOf`, see `fromdictCheck`)
has the original row mask -/
theorem C11_row_roundtrip {m r : Nat} (hb : Bounded m r) :
    rowMask ((List.range m).map fun (j : Nat) => ((membersW m r).map Int.ofNat).contains (j : Int)) = r := by
  apply ext; intro j
  rw [mem_rowMask, List.length_map, List.length_range]
  constructor
  · rintro ⟨hj, hc⟩
    rw [getElem!_pos _ j (by simpa using hj)] at hc
    simp only [List.getElem_map, List.getElem_range, List.contains_iff_mem, List.mem_map] at hc
    obtain ⟨a, ha, hja⟩ := hc
    have : a = j := Int.ofNat.inj hja
    subst this
    exact (mem_membersW.mp ha).2
  · intro hj
    have hjm := hb j hj
    refine ⟨hjm, ?_⟩
    rw [getElem!_pos _ j (by simpa using hjm)]
    simp only [List.getElem_map, List.getElem_range, List.contains_iff_mem, List.mem_map]
    exact ⟨j, mem_membersW.mpr ⟨hjm, hj⟩, rfl⟩

/-- `Context.fromdict(context.todict())` on index level: decoding the stored table
(`boolsOf` + `rowMask` + `mkCtx`, the accepted path of `fromdictCheck` / `ctxOfTriple`) gives back
the context, rows and columns -/
theorem C11_context_roundtrip_ctx {K : Ctx} (h : K.WF) :
    mkCtx K.n K.m (((boolsOf K.m (K.rows.toList.map fun r => (membersW K.m r).map Int.ofNat)).map rowMask).toArray) = K := by
  obtain ⟨hsz, hrow, hcols⟩ := h
  have hrows : ((boolsOf K.m (K.rows.toList.map fun r => (membersW K.m r).map Int.ofNat)).map rowMask).toArray = K.rows := by
    unfold boolsOf
    rw [List.map_map, List.map_map]
    conv_rhs => rw [← Array.toArray_toList (xs := K.rows), ← List.map_id K.rows.toList]
    congr 1
    apply List.map_congr_left
    intro r hr
    obtain ⟨i, hi, rfl⟩ := List.getElem_of_mem hr
    simp only [Function.comp_apply, id]
    apply C11_row_roundtrip
    rw [bounded_iff_lt]
    have hi' : i < K.rows.size := by simpa using hi
    have := hrow i (hsz ▸ hi')
    rwa [getElem!_pos K.rows i hi'] at this
  rw [hrows]
  unfold mkCtx
  rw [← hcols]

example : C11_exK.rows.toList.map (fun r => membersW C11_exK.m r) = [[0, 1], [0], [1, 2]] := by decide +kernel

end FCA

#print axioms FCA.C11_tolist_shape
#print axioms FCA.C11_init_annotate
#print axioms FCA.C11_roundtrip_ordered
#print axioms FCA.C11_roundtrip_raw
#print axioms FCA.C11_roundtrip_raw_identity
#print axioms FCA.C11_roundtrip_raw_inner
#print axioms FCA.C11_exShuffle
#print axioms FCA.C11_context_roundtrip
#print axioms FCA.C11_row_roundtrip
#print axioms FCA.C11_context_roundtrip_ctx
