import FCA.Proofs.LatticeSpec
import FCA.Proofs.JoinMeet
/-
Reduced labelling (`Lattice._annotate`) of a lattice satisfying `LatticeSpec`: helper lemmas for C10
(and the list lemmas on `flatMap` blocks used by C20).  Everything lives in `FCA.C10`.
-/
namespace FCA.C10

/-! ### generic list lemmas -/

theorem mem_iff_get {α : Type} {L : List α} {c : α} : c ∈ L ↔ ∃ k : Nat, L[k]? = some c :=
  List.mem_iff_getElem?

/-- in a duplicate-free list a member is counted once -/
theorem countP_eq_one_of_nodup {α : Type} [DecidableEq α] {l : List α} (hnd : l.Nodup) {a : α} (ha : a ∈ l) :
    l.countP (fun x => decide (x = a)) = 1 := by
  induction l with
  | nil => simp at ha
  | cons b l ih =>
    rw [List.nodup_cons] at hnd
    by_cases hb : b = a
    · subst hb
      rw [List.countP_cons_of_pos (by simp)]
      have : l.countP (fun x => decide (x = b)) = 0 := by
        rw [List.countP_eq_zero]
        intro x hx
        simp only [decide_eq_true_eq]
        rintro rfl
        exact hnd.1 hx
      omega
    · rw [List.countP_cons_of_neg (by simpa using hb)]
      rcases List.mem_cons.mp ha with rfl | ha
      · exact absurd rfl hb
      · exact ih hnd.2 ha

theorem countP_eq_zero_of_not_mem {α : Type} [DecidableEq α] {l : List α} {a : α} (ha : a ∉ l) :
    l.countP (fun x => decide (x = a)) = 0 := by
  rw [List.countP_eq_zero]
  intro x hx
  simp only [decide_eq_true_eq]
  rintro rfl
  exact ha hx

/-! ### object / attribute concepts -/

theorem bounded_pow {n o : Nat} (h : o < n) : Bounded n (2 ^ o) := by
  intro i hi
  rw [mem_pow] at hi
  omega

/-- the object concept `(o'', o')` is a concept -/
theorem objConcept_closed {K : Ctx} (h : K.WF) {o : Nat} (ho : o < K.n) : closedObj K (K.doubleObj (2 ^ o)) :=
  doubleObj_closed h _ (bounded_pow ho)

/-- the attribute concept `(p', p'')` is a concept -/
theorem attrConcept_closed {K : Ctx} (h : K.WF) {p : Nat} (hp : p < K.m) : closedObj K (K.extentOf (2 ^ p)) :=
  ⟨bounded_extentOf h _, extent_intent_extent h (bounded_pow hp)⟩

theorem mem_objConcept {K : Ctx} (h : K.WF) {o : Nat} (ho : o < K.n) : o ∈ᵇ K.doubleObj (2 ^ o) :=
  C07.sub_doubleObj h (bounded_pow ho) o (mem_pow.mpr rfl)

theorem mem_attrConcept {K : Ctx} (h : K.WF) {p i : Nat} :
    i ∈ᵇ K.extentOf (2 ^ p) ↔ i < K.n ∧ K.has i p := by
  rw [mem_extentOf h]
  constructor
  · rintro ⟨hi, hall⟩; exact ⟨hi, hall p (mem_pow.mpr rfl)⟩
  · rintro ⟨hi, hp⟩
    refine ⟨hi, fun j hj => ?_⟩
    rw [mem_pow.mp hj]; exact hp

/-- the object concept of `o` is the least concept containing `o` -/
theorem objConcept_sub_iff {K : Ctx} (h : K.WF) {o e : Nat} (ho : o < K.n) (he : closedObj K e) :
    K.doubleObj (2 ^ o) ⊆ᵇ e ↔ o ∈ᵇ e := by
  constructor
  · intro hs; exact hs o (mem_objConcept h ho)
  · intro hoe
    apply C07.closed_sub_of_sub h he
    intro i hi
    rw [mem_pow.mp hi]; exact hoe

/-- the attribute concept of `p` is the greatest concept having `p` -/
theorem sub_attrConcept_iff {K : Ctx} (h : K.WF) {p e : Nat} (hp : p < K.m) (he : Bounded K.n e) :
    e ⊆ᵇ K.extentOf (2 ^ p) ↔ p ∈ᵇ K.intentOf e := by
  rw [mem_intentOf]
  constructor
  · intro hs
    exact ⟨hp, fun i hi => ((mem_attrConcept h).mp (hs i hi)).2⟩
  · rintro ⟨_, hall⟩ i hi
    exact (mem_attrConcept h).mpr ⟨he i hi, hall i hi⟩

/-! ### the label filters -/

theorem mem_objectLabels {K : Ctx} {e o : Nat} :
    o ∈ objectLabels K e ↔ o < K.n ∧ e = K.doubleObj (2 ^ o) := by
  unfold objectLabels Ctx.doubleObj
  rw [List.mem_filter, List.mem_range, beq_iff_eq, eq_comm]

theorem mem_propertyLabels {K : Ctx} {e p : Nat} :
    p ∈ propertyLabels K e ↔ p < K.m ∧ e = K.extentOf (2 ^ p) := by
  unfold propertyLabels
  rw [List.mem_filter, List.mem_range, beq_iff_eq, eq_comm]

theorem objectLabels_sorted (K : Ctx) (e : Nat) : (objectLabels K e).Pairwise (· < ·) :=
  List.Pairwise.filter _ List.pairwise_lt_range

theorem propertyLabels_sorted (K : Ctx) (e : Nat) : (propertyLabels K e).Pairwise (· < ·) :=
  List.Pairwise.filter _ List.pairwise_lt_range

theorem nodup_of_lt {l : List Nat} (h : l.Pairwise (· < ·)) : l.Nodup :=
  h.imp (fun hlt heq => by omega)

/-! ### lattice level -/

section spec
variable {K : Ctx} {L : Lattice}

theorem closed_of_mem (S : LatticeSpec K L) {c : LConcept} (hc : c ∈ L) : closedObj K c.extent := by
  obtain ⟨k, hk⟩ := mem_iff_get.mp hc
  exact S.closed hk

theorem objects_of_mem (S : LatticeSpec K L) {c : LConcept} (hc : c ∈ L) : c.objects = objectLabels K c.extent := by
  obtain ⟨k, hk⟩ := mem_iff_get.mp hc
  exact S.objects hk

theorem properties_of_mem (S : LatticeSpec K L) {c : LConcept} (hc : c ∈ L) :
    c.properties = propertyLabels K c.extent := by
  obtain ⟨k, hk⟩ := mem_iff_get.mp hc
  exact S.properties hk

theorem intent_of_mem (S : LatticeSpec K L) {c : LConcept} (hc : c ∈ L) : c.intent = K.intentOf c.extent := by
  obtain ⟨k, hk⟩ := mem_iff_get.mp hc
  exact S.intent hk

/-- every closed set is the extent of a concept of `L` -/
theorem exists_of_closed (S : LatticeSpec K L) {e : Nat} (he : closedObj K e) : ∃ c ∈ L, c.extent = e := by
  have := (S.mem e).mpr he
  obtain ⟨c, hc, rfl⟩ := List.mem_map.mp this
  exact ⟨c, hc, rfl⟩

theorem eq_of_extent_eq (S : LatticeSpec K L) {c d : LConcept} (hc : c ∈ L) (hd : d ∈ L)
    (he : c.extent = d.extent) : c = d := by
  obtain ⟨i, hi⟩ := mem_iff_get.mp hc
  obtain ⟨j, hj⟩ := mem_iff_get.mp hd
  have := S.pos_inj hi hj he
  subst this
  rw [hi] at hj
  simpa using hj

theorem mem_objects (S : LatticeSpec K L) {c : LConcept} (hc : c ∈ L) {o : Nat} :
    o ∈ c.objects ↔ o < K.n ∧ c.extent = K.doubleObj (2 ^ o) := by
  rw [objects_of_mem S hc, mem_objectLabels]

theorem mem_properties (S : LatticeSpec K L) {c : LConcept} (hc : c ∈ L) {p : Nat} :
    p ∈ c.properties ↔ p < K.m ∧ c.extent = K.extentOf (2 ^ p) := by
  rw [properties_of_mem S hc, mem_propertyLabels]

/-- number of concepts with a given closed extent -/
theorem countP_extent (S : LatticeSpec K L) {e : Nat} (he : closedObj K e) :
    L.countP (fun c => c.extent == e) = 1 := by
  have h1 : (L.map (·.extent)).count e = 1 := List.count_eq_one_of_mem S.nodup ((S.mem e).mpr he)
  rw [List.count, List.countP_map] at h1
  rw [← h1]
  rfl

theorem countP_objects (S : LatticeSpec K L) {o : Nat} (ho : o < K.n) :
    L.countP (fun c => decide (o ∈ c.objects)) = 1 := by
  rw [← countP_extent S (objConcept_closed S.wf ho)]
  apply List.countP_congr
  intro c hc
  simp only [decide_eq_true_eq, beq_iff_eq]
  rw [mem_objects S hc]
  tauto

theorem countP_properties (S : LatticeSpec K L) {p : Nat} (hp : p < K.m) :
    L.countP (fun c => decide (p ∈ c.properties)) = 1 := by
  rw [← countP_extent S (attrConcept_closed S.wf hp)]
  apply List.countP_congr
  intro c hc
  simp only [decide_eq_true_eq, beq_iff_eq]
  rw [mem_properties S hc]
  tauto

theorem extents_pairwise_ne (S : LatticeSpec K L) : L.Pairwise (fun c d => c.extent ≠ d.extent) := by
  have := S.nodup
  rwa [List.Nodup, List.pairwise_map] at this

/-- the object labels partition the objects -/
theorem objects_partition (S : LatticeSpec K L) : (L.flatMap (·.objects)).Perm (List.range K.n) := by
  rw [List.perm_ext_iff_of_nodup ?_ List.nodup_range]
  · intro o
    rw [List.mem_flatMap, List.mem_range]
    constructor
    · rintro ⟨c, hc, ho⟩; exact ((mem_objects S hc).mp ho).1
    · intro ho
      obtain ⟨c, hc, he⟩ := exists_of_closed S (objConcept_closed S.wf ho)
      exact ⟨c, hc, (mem_objects S hc).mpr ⟨ho, he⟩⟩
  · rw [List.nodup_flatMap]
    refine ⟨fun c hc => ?_, ?_⟩
    · rw [objects_of_mem S hc]; exact nodup_of_lt (objectLabels_sorted K _)
    · refine List.Pairwise.imp_of_mem ?_ (extents_pairwise_ne S)
      intro c d hc hd hne
      show List.Disjoint c.objects d.objects
      intro o h1 h2
      exact hne (((mem_objects S hc).mp h1).2.trans ((mem_objects S hd).mp h2).2.symm)

/-- the property labels partition the properties -/
theorem properties_partition (S : LatticeSpec K L) : (L.flatMap (·.properties)).Perm (List.range K.m) := by
  rw [List.perm_ext_iff_of_nodup ?_ List.nodup_range]
  · intro p
    rw [List.mem_flatMap, List.mem_range]
    constructor
    · rintro ⟨c, hc, hp⟩; exact ((mem_properties S hc).mp hp).1
    · intro hp
      obtain ⟨c, hc, he⟩ := exists_of_closed S (attrConcept_closed S.wf hp)
      exact ⟨c, hc, (mem_properties S hc).mpr ⟨hp, he⟩⟩
  · rw [List.nodup_flatMap]
    refine ⟨fun c hc => ?_, ?_⟩
    · rw [properties_of_mem S hc]; exact nodup_of_lt (propertyLabels_sorted K _)
    · refine List.Pairwise.imp_of_mem ?_ (extents_pairwise_ne S)
      intro c d hc hd hne
      show List.Disjoint c.properties d.properties
      intro p h1 h2
      exact hne (((mem_properties S hc).mp h1).2.trans ((mem_properties S hd).mp h2).2.symm)

/-- extent = union of the object labels in the downset -/
theorem extent_from_labels (S : LatticeSpec K L) {c : LConcept} (hc : c ∈ L) (i : Nat) :
    i ∈ᵇ c.extent ↔ ∃ d ∈ L, d.extent ⊆ᵇ c.extent ∧ i ∈ d.objects := by
  have hcl := closed_of_mem S hc
  constructor
  · intro hi
    have hin : i < K.n := hcl.1 i hi
    obtain ⟨d, hd, he⟩ := exists_of_closed S (objConcept_closed S.wf hin)
    refine ⟨d, hd, ?_, (mem_objects S hd).mpr ⟨hin, he⟩⟩
    rw [he]
    exact (objConcept_sub_iff S.wf hin hcl).mpr hi
  · rintro ⟨d, hd, hs, hi⟩
    obtain ⟨hin, he⟩ := (mem_objects S hd).mp hi
    apply hs
    rw [he]
    exact mem_objConcept S.wf hin

/-- intent = union of the property labels in the upset -/
theorem intent_from_labels (S : LatticeSpec K L) {c : LConcept} (hc : c ∈ L) (j : Nat) :
    j ∈ᵇ c.intent ↔ ∃ d ∈ L, c.extent ⊆ᵇ d.extent ∧ j ∈ d.properties := by
  have hcl := closed_of_mem S hc
  rw [intent_of_mem S hc]
  constructor
  · intro hj
    have hjm : j < K.m := bounded_intentOf _ j hj
    obtain ⟨d, hd, he⟩ := exists_of_closed S (attrConcept_closed S.wf hjm)
    refine ⟨d, hd, ?_, (mem_properties S hd).mpr ⟨hjm, he⟩⟩
    rw [he]
    exact (sub_attrConcept_iff S.wf hjm hcl.1).mpr hj
  · rintro ⟨d, hd, hs, hj⟩
    obtain ⟨hjm, he⟩ := (mem_properties S hd).mp hj
    rw [he] at hs
    exact (sub_attrConcept_iff S.wf hjm hcl.1).mp hs

/-- `Concept.atoms` is in iteration (index) order -/
theorem atoms_sorted (S : LatticeSpec K L) {k : Nat} {c : LConcept} (h : L[k]? = some c) :
    c.atoms.Pairwise (· < ·) := by
  obtain ⟨c0, h0, _, hu⟩ := S.upperAt_zero
  rw [S.atoms h, hu]
  exact List.Pairwise.filter _ (S.upper_sorted h0)

theorem map_index (S : LatticeSpec K L) : L.map (·.index) = List.range L.length := by
  apply List.ext_getElem
  · simp
  · intro i h1 h2
    simp only [List.getElem_map, List.getElem_range]
    exact S.index (List.getElem?_eq_getElem (by simpa using h1))

theorem index_pairwise_ne (S : LatticeSpec K L) : L.Pairwise (fun c d => c.index ≠ d.index) := by
  have : (L.map (·.index)).Nodup := by rw [map_index S]; exact List.nodup_range
  rwa [List.Nodup, List.pairwise_map] at this

end spec

/-! ### the imperative loop of `_annotate` -/

/-- labels built so far (by position of the concept) and the concepts `touched`, most recent first -/
structure AnnState where
  label : Nat → List Nat
  touched : List Nat

/-- one iteration of `for o in context.objects:` — `target o` is `mapping[extent]` -/
def annotateStep (target : Nat → Option Nat) (s : AnnState) (o : Nat) : AnnState :=
  match target o with
  | none => s
  | some k =>
    if (s.label k).isEmpty then ⟨Function.update s.label k [o], k :: s.touched⟩
    else ⟨Function.update s.label k (s.label k ++ [o]), s.touched⟩

def annotateLoop (target : Nat → Option Nat) (items : List Nat) : AnnState :=
  items.foldl (annotateStep target) ⟨fun _ => [], []⟩

/-- `for c in touched: c.objects = tuple(c.objects)` in the enumeration order `order` of the set -/
def tupleize (order : List Nat) (label : Nat → List Nat) : Nat → List Nat :=
  order.foldl (fun lab k => Function.update lab k (lab k)) label

theorem tupleize_eq (order : List Nat) (label : Nat → List Nat) : tupleize order label = label := by
  unfold tupleize
  induction order generalizing label with
  | nil => rfl
  | cons a t ih => rw [List.foldl_cons, Function.update_eq_self, ih]

theorem annotateStep_label (target : Nat → Option Nat) (s : AnnState) (o k : Nat) :
    (annotateStep target s o).label k = s.label k ++ (if target o = some k then [o] else []) := by
  unfold annotateStep
  cases ht : target o with
  | none => simp
  | some k' =>
    by_cases hk : k' = k
    · subst hk
      by_cases he : (s.label k').isEmpty
      · simp only [he, if_true, Function.update_self]
        rw [List.isEmpty_iff.mp he]; rfl
      · simp [he]
    · have hk' : k ≠ k' := fun e => hk e.symm
      by_cases he : (s.label k').isEmpty
      · simp [he, Function.update_of_ne hk', hk]
      · simp [he, Function.update_of_ne hk', hk]

theorem annotateStep_touched (target : Nat → Option Nat) (s : AnnState) (o k : Nat) :
    k ∈ (annotateStep target s o).touched ↔ k ∈ s.touched ∨ (s.label k = [] ∧ target o = some k) := by
  unfold annotateStep
  cases ht : target o with
  | none => simp
  | some k' =>
    by_cases he : (s.label k').isEmpty
    · simp only [he, if_true, List.mem_cons, Option.some.injEq]
      have := List.isEmpty_iff.mp he
      constructor
      · rintro (rfl | h)
        · exact Or.inr ⟨this, rfl⟩
        · exact Or.inl h
      · rintro (h | ⟨_, rfl⟩)
        · exact Or.inr h
        · exact Or.inl rfl
    · simp only [he, Option.some.injEq]
      have : s.label k' ≠ [] := fun e => he (List.isEmpty_iff.mpr e)
      constructor
      · intro h; exact Or.inl h
      · rintro (h | ⟨h1, rfl⟩)
        · exact h
        · exact absurd h1 this

theorem foldl_label (target : Nat → Option Nat) (items : List Nat) (s : AnnState) (k : Nat) :
    (items.foldl (annotateStep target) s).label k = s.label k ++ items.filter (fun o => target o == some k) := by
  induction items generalizing s with
  | nil => simp
  | cons o t ih =>
    rw [List.foldl_cons, ih, annotateStep_label, List.filter_cons]
    by_cases h : target o = some k
    · simp [h]
    · simp [h]

theorem foldl_touched (target : Nat → Option Nat) (items : List Nat) (s : AnnState) (k : Nat) :
    k ∈ (items.foldl (annotateStep target) s).touched ↔
      k ∈ s.touched ∨ (s.label k = [] ∧ ∃ o ∈ items, target o = some k) := by
  induction items generalizing s with
  | nil => simp
  | cons o t ih =>
    rw [List.foldl_cons, ih, annotateStep_touched, annotateStep_label]
    by_cases h : target o = some k
    · by_cases he : s.label k = []
      · simp [h, he]
      · simp [h, he]
    · simp [h]

/-- the label a concept ends up with is the sublist of the items mapped to it, in item order -/
theorem annotateLoop_label (target : Nat → Option Nat) (items : List Nat) (k : Nat) :
    (annotateLoop target items).label k = items.filter (fun o => target o == some k) := by
  unfold annotateLoop
  rw [foldl_label]; rfl

/-- `touched` = the concepts that received a label -/
theorem annotateLoop_touched (target : Nat → Option Nat) (items : List Nat) (k : Nat) :
    k ∈ (annotateLoop target items).touched ↔ (annotateLoop target items).label k ≠ [] := by
  rw [annotateLoop_label]
  unfold annotateLoop
  rw [foldl_touched]
  simp only [List.not_mem_nil, false_or, true_and, ne_eq, List.filter_eq_nil_iff, beq_iff_eq]
  push Not
  rfl

end FCA.C10
