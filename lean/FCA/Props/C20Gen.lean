import FCA.Generated.Dot
import FCA.Model.Misc
/-
C20 over the regenerated source: the body of `for concept in lattice._concepts:` of `visualize.lattice`, translated from the
current `visualize.py` (node statement, the two guarded label edges with the callback applied to exactly `concept.objects` /
`concept.properties`, the edges to the lower neighbors sorted by index), folded over the concepts, is the model's `dotItems` —
about which `C20_*` are proved.
-/
namespace FCA

/-- one pass appends the model's statements for that concept -/
theorem C20_generated_dot_body (c : LConcept) (out : List DotItem) :
    Generated.dot_body c out = out ++
      ([DotItem.node c.index] ++
       (if c.objects.isEmpty then [] else [DotItem.objectLabel c.index c.objects]) ++
       (if c.properties.isEmpty then [] else [DotItem.propertyLabel c.index c.properties]) ++
       (sortBy id c.lower).map (DotItem.edge c.index)) := by
  simp only [Generated.dot_body]
  cases c.objects.isEmpty <;> cases c.properties.isEmpty <;> simp

theorem C20_generated_dot_fold (L : Lattice) (out : List DotItem) :
    L.foldl (fun out c => Generated.dot_body c out) out = out ++ dotItems L := by
  induction L generalizing out with
  | nil => simp [dotItems]
  | cons c L ih =>
    rw [List.foldl_cons, ih, C20_generated_dot_body]
    simp only [dotItems, List.flatMap_cons, List.append_assoc]

/-- the statements `lattice.graphviz()` of the current source emits, in order -/
theorem C20_generated_dot (L : Lattice) :
    L.foldl (fun out c => Generated.dot_body c out) [] = dotItems L := by
  rw [C20_generated_dot_fold]; simp

end FCA
#print axioms FCA.C20_generated_dot_body
#print axioms FCA.C20_generated_dot_fold
#print axioms FCA.C20_generated_dot
