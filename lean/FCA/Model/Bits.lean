/-
Bit-mask layer of the model (core Lean only).

A subset of objects (or of properties) is a `Nat` used as a bit mask: bit `i` = member number `i`,
exactly the representation `bitsets` gives the code (`member 0` is the least significant bit).
-/
namespace FCA

/-- number of trailing zero bits of a positive natural (`0` for `0`);
Python: `(b & -b).bit_length() - 1` -/
def tz : Nat → Nat
  | 0 => 0
  | n+1 => if (n+1) % 2 = 1 then 0 else 1 + tz ((n+1) / 2)
decreasing_by omega

/-- `a & ~b` on in-domain masks -/
def andNot (a b : Nat) : Nat := a ^^^ (a &&& b)

/-- all-ones mask of width `k`: `BitSet.supremum` -/
def full (k : Nat) : Nat := 2 ^ k - 1

/-- ascending list of the set bit positions `< w + off` of `s >>> off`:
`MemberBits.iter_set` / `_indexes` (fuel `w` = width) -/
def membersAux : Nat → Nat → Nat → List Nat
  | 0, _, _ => []
  | w+1, off, s => if s % 2 = 1 then off :: membersAux w (off+1) (s / 2) else membersAux w (off+1) (s / 2)

/-- members of `s` below width `w`, ascending -/
def membersW (w s : Nat) : List Nat := membersAux w 0 s

/-- `bin(s).count('1')` for `s < 2^w` -/
def card (w s : Nat) : Nat := (membersW w s).length

/-- `BitSet.frommembers` on indexes: the sum over the *set* of given indexes -/
def ofMembers (l : List Nat) : Nat := l.foldl (fun a i => a ||| 2 ^ i) 0

/-- `integers.reinverted(s, w)`: bits reversed and inverted inside width `w`:
bit `w-1-i` of the result is set iff `i ∉ s` -/
def reinv (w s : Nat) : Nat :=
  (List.range w).foldl (fun acc i => if s.testBit i then acc else acc ||| 2 ^ (w - 1 - i)) 0

/-- `MemberBits.shortlex()` as one number: `(count, reinverted)` compared lexicographically -/
def shortlexKey (w s : Nat) : Nat := card w s * 2 ^ w + reinv w s

/-- `MemberBits.longlex()` as one number: `(-count, reinverted)` -/
def longlexKey (w s : Nat) : Nat := (w - card w s) * 2 ^ w + reinv w s

/-- first element of minimal key (a `heapq` pop when keys are pairwise different) -/
def minBy (key : Nat → Nat) : List Nat → Option Nat
  | [] => none
  | a :: l => match minBy key l with
    | none => some a
    | some b => if key b < key a then some b else some a

/-- insertion sort by key; `sorted(..., key=…)` on pairwise different keys -/
def insertBy (key : Nat → Nat) (x : Nat) : List Nat → List Nat
  | [] => [x]
  | y :: ys => if key x ≤ key y then x :: y :: ys else y :: insertBy key x ys

def sortBy (key : Nat → Nat) : List Nat → List Nat
  | [] => []
  | x :: xs => insertBy key x (sortBy key xs)

/-- position of the first occurrence -/
def indexOf? (x : Nat) : List Nat → Option Nat
  | [] => none
  | y :: ys => if y = x then some 0 else (indexOf? x ys).map (· + 1)

end FCA
