import FCA.Proofs.LatticeSpec
import FCA.Proofs.Lindig
import FCA.Proofs.Defn
/-
Helpers for C09 (`upset` / `downset` / `upset_union` / `downset_union`):

* the heap merge `iterunion` (`algorithms/common.py`) over an abstract `key` / `next`;
* strictly sorted lists with the same members are equal;
* `tools.maximal` (`maximalBy`);
* reachability along `upper_neighbors` / `lower_neighbors` in a lattice satisfying `LatticeSpec`.
-/
namespace FCA.C09
open FCA

/-! ### reachability along `next` -/

/-- reflexive-transitive reachability along `next` -/
inductive Reach (next : Nat → List Nat) : Nat → Nat → Prop
  | refl (a) : Reach next a a
  | step {a d x} : d ∈ next a → Reach next d x → Reach next a x

theorem Reach.trans {next : Nat → List Nat} {a b c : Nat} (h1 : Reach next a b) (h2 : Reach next b c) :
    Reach next a c := by
  induction h1 with
  | refl => exact h2
  | step hd _ ih => exact Reach.step hd (ih h2)

theorem Reach.single {next : Nat → List Nat} {a d : Nat} (h : d ∈ next a) : Reach next a d :=
  Reach.step h (Reach.refl _)

theorem Reach.snoc {next : Nat → List Nat} {a d x : Nat} (h1 : Reach next a d) (h2 : x ∈ next d) :
    Reach next a x := h1.trans (Reach.single h2)

variable (key : Nat → Nat) (next : Nat → List Nat) (seeds : List Nat)

/-- reachable from one of the seeds -/
def R (x : Nat) : Prop := ∃ s ∈ seeds, Reach next s x

theorem R_congr {seeds seeds' : List Nat} (h : ∀ x, x ∈ seeds ↔ x ∈ seeds') (x : Nat) :
    R next seeds x ↔ R next seeds' x := by
  unfold R
  constructor
  · rintro ⟨s, hs, hr⟩; exact ⟨s, (h s).mp hs, hr⟩
  · rintro ⟨s, hs, hr⟩; exact ⟨s, (h s).mpr hs, hr⟩

/-- what `iterunion` requires of its arguments -/
structure Hyp (N D : Nat) : Prop where
  inj : ∀ x y, R next seeds x → R next seeds y → key x = key y → x = y
  mono : ∀ x, R next seeds x → ∀ d ∈ next x, key x < key d
  bound : ∀ x, R next seeds x → key x < N
  deg : ∀ x, R next seeds x → (next x).length ≤ D

theorem Hyp.congr {key : Nat → Nat} {next : Nat → List Nat} {seeds seeds' : List Nat} {N D : Nat}
    (H : Hyp key next seeds N D) (h : ∀ x, x ∈ seeds ↔ x ∈ seeds') : Hyp key next seeds' N D where
  inj := fun x y hx hy => H.inj x y ((R_congr next h x).mpr hx) ((R_congr next h y).mpr hy)
  mono := fun x hx => H.mono x ((R_congr next h x).mpr hx)
  bound := fun x hx => H.bound x ((R_congr next h x).mpr hx)
  deg := fun x hx => H.deg x ((R_congr next h x).mpr hx)

structure Inv (heap : List Nat) (seen : Nat) (acc : List Nat) : Prop where
  seed : ∀ s ∈ seeds, s ∈ acc ∨ s ∈ heap
  front : ∀ a ∈ acc, ∀ d ∈ next a, d ∈ acc ∨ d ∈ heap
  heapR : ∀ h ∈ heap, R next seeds h
  accR : ∀ a ∈ acc, R next seeds a ∧ key a < seen
  gt : ∀ x, R next seeds x → x ∈ acc ∨ seen ≤ key x
  sorted : acc.Pairwise (fun a b => key b < key a)

theorem R_trans {a x : Nat} (ha : R next seeds a) (h : Reach next a x) : R next seeds x := by
  obtain ⟨s, hs, hsa⟩ := ha
  exact ⟨s, hs, hsa.trans h⟩

theorem reach_key_le {N D : Nat} (H : Hyp key next seeds N D) {a x : Nat} (h : Reach next a x) :
    R next seeds a → key a ≤ key x := by
  induction h with
  | refl a => intro _; exact le_rfl
  | step hd _ ih =>
    intro ha
    have hRd := R_trans next seeds ha (Reach.single hd)
    exact le_trans (le_of_lt (H.mono _ ha _ hd)) (ih hRd)

theorem frontier {heap : List Nat} {seen : Nat} {acc : List Nat}
    (I : Inv key next seeds heap seen acc) {x : Nat} (hx : R next seeds x) (hxa : x ∉ acc) :
    ∃ h ∈ heap, Reach next h x := by
  obtain ⟨s, hs, hsx⟩ := hx
  have key_lemma : ∀ a y, Reach next a y → y ∉ acc → (a ∈ acc ∨ a ∈ heap) →
      ∃ h ∈ heap, Reach next h y := by
    intro a y hay
    induction hay with
    | refl a =>
      intro hya h
      rcases h with h | h
      · exact absurd h hya
      · exact ⟨a, h, Reach.refl _⟩
    | step hd hdx ih =>
      intro hya h
      rcases h with h | h
      · exact ih hya (I.front _ h _ hd)
      · exact ⟨_, h, Reach.step hd hdx⟩
  exact key_lemma s x hsx hxa (I.seed s hs)

theorem inv_init : Inv key next seeds seeds 0 [] where
  seed := fun s hs => Or.inr hs
  front := by simp
  heapR := fun h hh => ⟨h, hh, Reach.refl _⟩
  accR := by simp
  gt := fun x _ => Or.inr (Nat.zero_le _)
  sorted := List.Pairwise.nil

theorem inv_emit {N D : Nat} (H : Hyp key next seeds N D) {heap : List Nat} {seen : Nat} {acc : List Nat} {c : Nat}
    (I : Inv key next seeds heap seen acc) (hc : c ∈ heap) (hmin : ∀ x ∈ heap, key c ≤ key x)
    (hgt : key c ≥ seen) :
    Inv key next seeds (heap.erase c ++ next c) (key c + 1) (c :: acc) := by
  have mem_split : ∀ y ∈ heap, y = c ∨ y ∈ heap.erase c := by
    intro y hy
    by_cases h : y = c
    · exact Or.inl h
    · exact Or.inr ((List.mem_erase_of_ne h).mpr hy)
  have hRc := I.heapR c hc
  constructor
  · intro s hs
    rcases I.seed s hs with h | h
    · exact Or.inl (List.mem_cons_of_mem _ h)
    · rcases mem_split s h with rfl | h'
      · exact Or.inl (by simp)
      · exact Or.inr (List.mem_append.mpr (Or.inl h'))
  · intro a ha d hd
    rcases List.mem_cons.mp ha with rfl | ha
    · exact Or.inr (List.mem_append.mpr (Or.inr hd))
    · rcases I.front a ha d hd with h | h
      · exact Or.inl (List.mem_cons_of_mem _ h)
      · rcases mem_split d h with rfl | h'
        · exact Or.inl (by simp)
        · exact Or.inr (List.mem_append.mpr (Or.inl h'))
  · intro h hh
    rcases List.mem_append.mp hh with hh | hh
    · exact I.heapR h (List.mem_of_mem_erase hh)
    · exact R_trans next seeds hRc (Reach.single hh)
  · intro a ha
    rcases List.mem_cons.mp ha with rfl | ha
    · exact ⟨hRc, Nat.lt_succ_self _⟩
    · exact ⟨(I.accR a ha).1, by have := (I.accR a ha).2; omega⟩
  · intro x hx
    by_cases hxa : x ∈ acc
    · exact Or.inl (List.mem_cons_of_mem _ hxa)
    · obtain ⟨h, hh, hhx⟩ := frontier key next seeds I hx hxa
      have h1 : key c ≤ key h := hmin h hh
      have h2 : key h ≤ key x := reach_key_le key next seeds H hhx (I.heapR h hh)
      by_cases heq : key x = key c
      · left; rw [H.inj x c hx hRc heq]; simp
      · right; omega
  · refine List.Pairwise.cons ?_ I.sorted
    intro a ha
    have := (I.accR a ha).2
    omega

theorem inv_skip {heap : List Nat} {seen : Nat} {acc : List Nat} {c : Nat}
    (I : Inv key next seeds heap seen acc) (hc : c ∈ heap)
    (hle : ¬ key c ≥ seen) :
    Inv key next seeds (heap.erase c) seen acc := by
  have hcacc : c ∈ acc := by
    rcases I.gt c (I.heapR c hc) with h | h
    · exact h
    · exact absurd h hle
  have mem_split : ∀ y ∈ heap, y ∈ acc ∨ y ∈ heap.erase c := by
    intro y hy
    by_cases h : y = c
    · exact Or.inl (h ▸ hcacc)
    · exact Or.inr ((List.mem_erase_of_ne h).mpr hy)
  constructor
  · intro s hs
    rcases I.seed s hs with h | h
    · exact Or.inl h
    · exact mem_split s h
  · intro a ha d hd
    rcases I.front a ha d hd with h | h
    · exact Or.inl h
    · exact mem_split d h
  · exact fun h hh => I.heapR h (List.mem_of_mem_erase hh)
  · exact I.accR
  · exact I.gt
  · exact I.sorted

/-- potential: pending heap entries plus `D` for every key value still admissible -/
def pot (N D : Nat) (heap : List Nat) (seen : Nat) : Nat := heap.length + D * (N - seen)

theorem loop_correct {N D : Nat} (H : Hyp key next seeds N D) :
    ∀ (fuel : Nat) (heap : List Nat) (seen : Nat) (acc : List Nat),
      Inv key next seeds heap seen acc → pot N D heap seen < fuel →
      (iterunionLoop key next fuel heap seen acc).Pairwise (fun a b => key a < key b) ∧
      ∀ x, x ∈ iterunionLoop key next fuel heap seen acc ↔ R next seeds x := by
  intro fuel
  induction fuel with
  | zero => intro heap seen acc _ h; omega
  | succ fuel ih =>
    intro heap seen acc I hpot
    unfold iterunionLoop
    rcases minBy_spec key heap with ⟨rfl, hnone⟩ | ⟨c, hsome, hc, hmin⟩
    · simp only [hnone]
      refine ⟨?_, ?_⟩
      · rw [List.pairwise_reverse]; exact I.sorted
      · intro x
        rw [List.mem_reverse]
        constructor
        · exact fun hx => (I.accR x hx).1
        · intro hx
          by_contra hxa
          obtain ⟨h, hh, _⟩ := frontier key next seeds I hx hxa
          simp at hh
    · simp only [hsome]
      by_cases hge : key c ≥ seen
      · simp only [hge, if_true]
        apply ih _ _ _ (inv_emit key next seeds H I hc hmin hge)
        have hRc := I.heapR c hc
        have hb := H.bound c hRc
        have hd := H.deg c hRc
        have hlen : (heap.erase c).length = heap.length - 1 := List.length_erase_of_mem hc
        have hpos : 0 < heap.length := List.length_pos_of_mem hc
        unfold pot at hpot ⊢
        rw [List.length_append, hlen]
        have : D * (N - (key c + 1)) + D ≤ D * (N - seen) := by
          have : N - (key c + 1) + 1 ≤ N - seen := by omega
          calc D * (N - (key c + 1)) + D = D * (N - (key c + 1) + 1) := by ring
            _ ≤ D * (N - seen) := Nat.mul_le_mul_left D this
        omega
      · simp only [hge, if_false]
        apply ih _ _ _ (inv_skip key next seeds I hc hge)
        have hlen : (heap.erase c).length = heap.length - 1 := List.length_erase_of_mem hc
        have hpos : 0 < heap.length := List.length_pos_of_mem hc
        unfold pot at hpot ⊢
        omega

/-- `iterunion` yields exactly the elements reachable from the seeds, strictly increasing in key -/
theorem iterunion_correct {N D : Nat} (H : Hyp key next seeds N D) (fuel : Nat)
    (hf : seeds.length + D * N < fuel) :
    (iterunion key next fuel seeds).Pairwise (fun a b => key a < key b) ∧
    ∀ x, x ∈ iterunion key next fuel seeds ↔ R next seeds x :=
  loop_correct key next seeds H fuel seeds 0 [] (inv_init key next seeds) (by simpa [pot] using hf)

/-! ### strictly sorted lists are determined by their members -/

theorem nodup_of_strict {key : Nat → Nat} {l : List Nat} (h : l.Pairwise (fun a b => key a < key b)) :
    l.Nodup :=
  h.imp (fun hlt heq => by rw [heq] at hlt; exact lt_irrefl _ hlt)

theorem strict_unique {key : Nat → Nat} {l₁ l₂ : List Nat}
    (h₁ : l₁.Pairwise (fun a b => key a < key b)) (h₂ : l₂.Pairwise (fun a b => key a < key b))
    (hm : ∀ x, x ∈ l₁ ↔ x ∈ l₂) : l₁ = l₂ := by
  have hp : l₁.Perm l₂ := (List.perm_ext_iff_of_nodup (nodup_of_strict h₁) (nodup_of_strict h₂)).mpr hm
  exact List.Perm.eq_of_pairwise (le := fun a b => key a < key b)
    (fun a b _ _ hab hba => by omega) h₁ h₂ hp

/-! ### `tools.maximal` -/

section maximal
variable (cmp : Nat → Nat → Bool)

theorem mem_maximalBy (l : List Nat) (x : Nat) :
    x ∈ maximalBy cmp l ↔ x ∈ l ∧ ∀ y ∈ l, y ≠ x → cmp x y = false := by
  unfold maximalBy
  simp only
  split
  · rename_i hlen
    rw [List.mem_eraseDups]
    constructor
    · intro hx
      refine ⟨hx, fun y hy hne => ?_⟩
      exfalso
      have hx' : x ∈ l.eraseDups := List.mem_eraseDups.mpr hx
      have hy' : y ∈ l.eraseDups := List.mem_eraseDups.mpr hy
      match hl : l.eraseDups, hlen, hx', hy' with
      | [], _, hx', _ => simp at hx'
      | [a], _, hx', hy' =>
        simp only [List.mem_singleton] at hx' hy'
        exact hne (hy'.trans hx'.symm)
      | a :: b :: t, hlen, _, _ => simp at hlen
    · exact fun h => h.1
  · rw [List.mem_filter, List.mem_eraseDups]
    simp only [Bool.not_eq_eq_eq_not, Bool.not_true, List.any_eq_false, List.mem_eraseDups,
      Bool.and_eq_true, bne_iff_ne, ne_eq, not_and, Bool.not_eq_true]

theorem maximalBy_nodup (l : List Nat) : (maximalBy cmp l).Nodup := by
  unfold maximalBy
  simp only
  split
  · exact nodup_eraseDups l
  · exact (nodup_eraseDups l).filter _

theorem maximalBy_nil : maximalBy cmp [] = [] := by
  simp [maximalBy]

theorem maximalBy_sub {l : List Nat} {x : Nat} (h : x ∈ maximalBy cmp l) : x ∈ l :=
  ((mem_maximalBy cmp l x).mp h).1

theorem countP_lt_of_imp {p q : Nat → Bool} {s : List Nat} (himp : ∀ z ∈ s, p z = true → q z = true)
    {y : Nat} (hy : y ∈ s) (hq : q y = true) (hp : p y = false) : s.countP p < s.countP q := by
  induction s with
  | nil => simp at hy
  | cons a s ih =>
    have himp' : ∀ z ∈ s, p z = true → q z = true := fun z hz => himp z (List.mem_cons_of_mem _ hz)
    have hle : s.countP p ≤ s.countP q := List.countP_mono_left himp'
    rcases List.mem_cons.mp hy with rfl | hy
    · rw [List.countP_cons_of_neg (by simp [hp]), List.countP_cons_of_pos hq]
      omega
    · have := ih himp' hy
      by_cases hpa : p a = true
      · rw [List.countP_cons_of_pos hpa, List.countP_cons_of_pos (himp a (by simp) hpa)]
        omega
      · rw [List.countP_cons_of_neg hpa]
        by_cases hqa : q a = true
        · rw [List.countP_cons_of_pos hqa]; omega
        · rw [List.countP_cons_of_neg hqa]; exact this

/-- for a strict partial order `cmp x y` ("`x` is properly above `y`") on the members of `l`, every
member is above-or-equal some member of `maximalBy cmp l` -/
theorem maximalBy_dominates {l : List Nat} (hirr : ∀ x ∈ l, cmp x x = false)
    (htr : ∀ x ∈ l, ∀ y ∈ l, ∀ z ∈ l, cmp x y = true → cmp y z = true → cmp x z = true) :
    ∀ x ∈ l, ∃ m ∈ maximalBy cmp l, m = x ∨ cmp x m = true := by
  have main : ∀ (n x : Nat), l.countP (cmp x) = n → x ∈ l → ∃ m ∈ maximalBy cmp l, m = x ∨ cmp x m = true := by
    intro n
    induction n using Nat.strong_induction_on with
    | _ n ih =>
      intro x hn hx
      by_cases hmax : ∀ y ∈ l, y ≠ x → cmp x y = false
      · exact ⟨x, (mem_maximalBy cmp l x).mpr ⟨hx, hmax⟩, Or.inl rfl⟩
      · push Not at hmax
        obtain ⟨y, hy, _, hxy⟩ := hmax
        have hxy : cmp x y = true := by simpa using hxy
        have hlt : l.countP (cmp y) < l.countP (cmp x) :=
          countP_lt_of_imp (fun z hz hyz => htr x hx y hy z hz hxy hyz) hy hxy (hirr y hy)
        obtain ⟨m, hm, hym⟩ := ih _ (hn ▸ hlt) y rfl hy
        refine ⟨m, hm, Or.inr ?_⟩
        rcases hym with rfl | hym
        · exact hxy
        · exact htr x hx y hy m (maximalBy_sub cmp hm) hxy hym
  exact fun x hx => main _ x rfl hx

end maximal

end FCA.C09
