import FCA.Model.Bits
import Mathlib.Tactic
/-
List helpers of the model: `indexOf?`, `insertBy` / `sortBy` (sorting by a key), enumeration by position.
-/
namespace FCA

theorem indexOf?_some_lt {x : Nat} {l : List Nat} {k : Nat} (h : indexOf? x l = some k) : k < l.length := by
  induction l generalizing k with
  | nil => simp [indexOf?] at h
  | cons y ys ih =>
    unfold indexOf? at h
    split at h
    · simp at h; subst h; simp
    · simp only [Option.map_eq_some_iff] at h
      obtain ⟨j, hj, rfl⟩ := h
      have := ih hj; simp; omega

theorem indexOf?_some_get {x : Nat} {l : List Nat} {k : Nat} (h : indexOf? x l = some k) : l[k]? = some x := by
  induction l generalizing k with
  | nil => simp [indexOf?] at h
  | cons y ys ih =>
    unfold indexOf? at h
    split at h
    · rename_i hy; simp at h; subst h; simp [hy]
    · simp only [Option.map_eq_some_iff] at h
      obtain ⟨j, hj, rfl⟩ := h
      simpa using ih hj

theorem indexOf?_of_mem {x : Nat} {l : List Nat} (h : x ∈ l) : ∃ k, indexOf? x l = some k := by
  induction l with
  | nil => simp at h
  | cons y ys ih =>
    unfold indexOf?
    by_cases hy : y = x
    · exact ⟨0, by simp [hy]⟩
    · rcases List.mem_cons.mp h with rfl | h'
      · exact absurd rfl hy
      · obtain ⟨k, hk⟩ := ih h'
        exact ⟨k + 1, by simp [hy, hk]⟩

theorem indexOf?_eq_none {x : Nat} {l : List Nat} (h : x ∉ l) : indexOf? x l = none := by
  induction l with
  | nil => rfl
  | cons y ys ih =>
    unfold indexOf?
    have hy : y ≠ x := fun e => h (by simp [e])
    simp [hy, ih (fun hm => h (List.mem_cons_of_mem _ hm))]

/-- in a duplicate-free list the position found is the position of the element -/
theorem indexOf?_get_nodup {l : List Nat} (hnd : l.Nodup) {k : Nat} {x : Nat} (h : l[k]? = some x) :
    indexOf? x l = some k := by
  induction l generalizing k with
  | nil => simp at h
  | cons y ys ih =>
    rw [List.nodup_cons] at hnd
    unfold indexOf?
    cases k with
    | zero => simp at h; simp [h]
    | succ k =>
      simp at h
      have hx : x ∈ ys := List.mem_of_getElem? h
      have hy : y ≠ x := fun e => hnd.1 (e ▸ hx)
      simp [hy, ih hnd.2 h]

theorem mem_insertBy (key : Nat → Nat) (x y : Nat) (l : List Nat) : y ∈ insertBy key x l ↔ y = x ∨ y ∈ l := by
  induction l with
  | nil => simp [insertBy]
  | cons a l ih =>
    unfold insertBy
    split
    · simp
    · simp [ih]; tauto

theorem insertBy_perm (key : Nat → Nat) (x : Nat) (l : List Nat) : (insertBy key x l).Perm (x :: l) := by
  induction l with
  | nil => simp [insertBy]
  | cons a l ih =>
    unfold insertBy
    split
    · exact List.Perm.refl _
    · exact (List.Perm.cons a ih).trans (List.Perm.swap x a l)

theorem sortBy_perm (key : Nat → Nat) (l : List Nat) : (sortBy key l).Perm l := by
  induction l with
  | nil => exact List.Perm.refl _
  | cons a l ih => exact (insertBy_perm key a _).trans (List.Perm.cons a ih)

theorem mem_sortBy (key : Nat → Nat) (l : List Nat) (x : Nat) : x ∈ sortBy key l ↔ x ∈ l :=
  (sortBy_perm key l).mem_iff

theorem insertBy_sorted (key : Nat → Nat) (x : Nat) (l : List Nat) (h : l.Pairwise (fun a b => key a ≤ key b)) :
    (insertBy key x l).Pairwise (fun a b => key a ≤ key b) := by
  induction l with
  | nil => simp [insertBy]
  | cons a l ih =>
    unfold insertBy
    rw [List.pairwise_cons] at h
    split
    · rename_i hxa
      refine List.Pairwise.cons ?_ (List.Pairwise.cons h.1 h.2)
      intro b hb
      rcases List.mem_cons.mp hb with rfl | hb
      · exact hxa
      · exact le_trans hxa (h.1 b hb)
    · rename_i hxa
      refine List.Pairwise.cons ?_ (ih h.2)
      intro b hb
      rcases (mem_insertBy key x b l).mp hb with rfl | hb
      · omega
      · exact h.1 b hb

theorem sortBy_sorted (key : Nat → Nat) (l : List Nat) : (sortBy key l).Pairwise (fun a b => key a ≤ key b) := by
  induction l with
  | nil => exact List.Pairwise.nil
  | cons a l ih => exact insertBy_sorted key a _ ih

theorem sortBy_nodup (key : Nat → Nat) {l : List Nat} (h : l.Nodup) : (sortBy key l).Nodup :=
  (sortBy_perm key l).nodup_iff.mpr h

/-- with an injective key on the list the result is strictly sorted -/
theorem sortBy_strict (key : Nat → Nat) {l : List Nat} (hnd : l.Nodup)
    (hinj : ∀ a ∈ l, ∀ b ∈ l, key a = key b → a = b) :
    (sortBy key l).Pairwise (fun a b => key a < key b) := by
  have h1 := sortBy_sorted key l
  have h2 := sortBy_nodup key hnd
  have h3 : (sortBy key l).Pairwise (fun a b => a ∈ l ∧ b ∈ l) := by
    rw [List.pairwise_iff_forall_sublist]
    intro a b hab
    have ha : a ∈ sortBy key l := hab.subset (by simp)
    have hb : b ∈ sortBy key l := hab.subset (by simp)
    exact ⟨(mem_sortBy key l a).mp ha, (mem_sortBy key l b).mp hb⟩
  have := (h1.and h2).and h3
  exact this.imp (fun ⟨⟨hle, hne⟩, ha, hb⟩ => lt_of_le_of_ne hle (fun e => hne (hinj _ ha _ hb e)))

/-- a list that is already strictly sorted is unchanged -/
theorem sortBy_of_sorted (key : Nat → Nat) {l : List Nat} (h : l.Pairwise (fun a b => key a ≤ key b)) :
    sortBy key l = l := by
  induction l with
  | nil => rfl
  | cons a l ih =>
    rw [List.pairwise_cons] at h
    show insertBy key a (sortBy key l) = a :: l
    rw [ih h.2]
    cases l with
    | nil => rfl
    | cons b t => unfold insertBy; simp [h.1 b (by simp)]

/-- enumeration by position: what `[f k x for k, x in enumerate(l)]` computes -/
theorem filterMap_range'_get {α β : Type} (L : List α) (f : Nat → α → β) :
    ∀ (l : List α) (s : Nat), (∀ i, i < l.length → L[s + i]? = l[i]?) →
      (List.range' s l.length).filterMap (fun k => (L[k]?).map (f k)) = (l.zipIdx s).map (fun p => f p.2 p.1) := by
  intro l
  induction l with
  | nil => intro s _; simp
  | cons a l ih =>
    intro s h
    have h0 : L[s]? = some a := by simpa using h 0 (by simp)
    rw [List.length_cons, List.range'_succ, List.filterMap_cons, h0]
    simp only [Option.map_some, List.zipIdx_cons, List.map_cons]
    congr 1
    apply ih
    intro i hi
    have := h (i + 1) (by simp; omega)
    rw [show s + (i + 1) = s + 1 + i by omega] at this
    simpa using this

theorem filterMap_range_get {α β : Type} (l : List α) (f : Nat → α → β) :
    (List.range l.length).filterMap (fun k => (l[k]?).map (f k)) = l.zipIdx.map (fun p => f p.2 p.1) := by
  rw [List.range_eq_range']
  exact filterMap_range'_get l f l 0 (fun i _ => by simp)

end FCA
