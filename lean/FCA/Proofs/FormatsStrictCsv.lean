import FCA.Proofs.FormatsCsvLoad
import FCA.Proofs.FormatsStrictCxt
/-
The strict RFC 4180 automaton (`rfcRecords`) reads the records of every CR LF terminated text of
the writer family, and the strict csv reader (`strictCsv`) recovers the triple from `dumpCsv`.
-/
namespace FCA

/-! ### single steps -/

section steps
variable (fld : Str) (row : List Str) (rest : Str)

theorem rfcGo_recStart_char {c : Char} (h1 : c ≠ '\n') (h2 : c ≠ '\r') :
    rfcGo .recStart fld row (c :: rest) = rfcGo .fieldStart fld row (c :: rest) := by
  simp [rfcGo, h1, h2]

theorem rfcGo_plain_char {c : Char} (h1 : c ≠ ',') (h2 : c ≠ '"') (h3 : c ≠ '\r') (h4 : c ≠ '\n') :
    rfcGo .plain fld row (c :: rest) = rfcGo .plain (c :: fld) row rest := by
  simp [rfcGo, h1, h2, h3, h4]

theorem rfcGo_fieldStart_char {c : Char} (h1 : c ≠ ',') (h2 : c ≠ '"') (h3 : c ≠ '\r')
    (h4 : c ≠ '\n') : rfcGo .fieldStart fld row (c :: rest) = rfcGo .plain [c] row rest := by
  simp [rfcGo, h1, h2, h3, h4]

theorem rfcGo_quoted_char {c : Char} (h : c ≠ '"') :
    rfcGo .quoted fld row (c :: rest) = rfcGo .quoted (c :: fld) row rest := by
  simp [rfcGo, h]

theorem rfcGo_quoted_quote :
    rfcGo .quoted fld row ('"' :: rest) = rfcGo .quoteSeen fld row rest := by
  simp [rfcGo]

theorem rfcGo_quoteSeen_quote :
    rfcGo .quoteSeen fld row ('"' :: rest) = rfcGo .quoted ('"' :: fld) row rest := by
  simp [rfcGo]

theorem rfcGo_fieldStart_quote :
    rfcGo .fieldStart fld row ('"' :: rest) = rfcGo .quoted [] row rest := by
  simp [rfcGo]

end steps

/-! ### fields -/

theorem rfcGo_plain_run (s : Str) (hs : ∀ c ∈ s, c ≠ ',' ∧ c ≠ '"' ∧ c ≠ '\r' ∧ c ≠ '\n')
    (fld : Str) (row : List Str) (rest : Str) :
    rfcGo .plain fld row (s ++ rest) = rfcGo .plain (s.reverse ++ fld) row rest := by
  induction s generalizing fld with
  | nil => rfl
  | cons c cs ih =>
    have hc := hs c (by simp)
    rw [List.cons_append, rfcGo_plain_char _ _ _ hc.1 hc.2.1 hc.2.2.1 hc.2.2.2,
      ih (fun x hx => hs x (by simp [hx]))]
    simp

theorem rfcGo_quoted_run (s : Str) (fld : Str) (row : List Str) (rest : Str) :
    rfcGo .quoted fld row (csvEsc s ++ rest) = rfcGo .quoted (s.reverse ++ fld) row rest := by
  induction s generalizing fld with
  | nil => rfl
  | cons c cs ih =>
    by_cases hc : c = '"'
    · subst hc
      rw [csvEsc_cons_quote, List.cons_append, List.cons_append, rfcGo_quoted_quote,
        rfcGo_quoteSeen_quote, ih]
      simp
    · rw [csvEsc_cons_char hc, List.cons_append, rfcGo_quoted_char _ _ _ hc, ih]
      simp

/-- the automaton has seen a complete field but not yet its delimiter (`fieldStart`: the empty
non-escaped field) -/
def RfcDone (st : RfcState) (fld : Str) : Prop :=
  st = .plain ∨ st = .quoteSeen ∨ (st = .fieldStart ∧ fld = [])

theorem rfcGo_field (q : Bool) (f : Str) (row : List Str) :
    ∃ st fld, RfcDone st fld ∧ fld = f.reverse ∧
      ∀ rest, rfcGo .fieldStart [] row (csvFieldQ q f ++ rest) = rfcGo st fld row rest := by
  by_cases h : q = true ∨ f.any csvSpecial = true
  · refine ⟨.quoteSeen, f.reverse, Or.inr (Or.inl rfl), rfl, ?_⟩
    intro rest
    rw [csvFieldQ_quoted h]
    have e1 : ('"' :: (csvEsc f ++ ['"'])) ++ rest = '"' :: (csvEsc f ++ ('"' :: rest)) := by simp
    rw [e1, rfcGo_fieldStart_quote, rfcGo_quoted_run, rfcGo_quoted_quote]
    simp
  · have hq : q = false := by cases q <;> simp_all
    have h' : f.any csvSpecial = false := by simpa using fun h2 => h (Or.inr h2)
    subst hq
    rw [csvFieldQ_raw h']
    cases f with
    | nil => exact ⟨.fieldStart, [], Or.inr (Or.inr ⟨rfl, rfl⟩), rfl, fun rest => rfl⟩
    | cons c cs =>
      refine ⟨.plain, (c :: cs).reverse, Or.inl rfl, rfl, ?_⟩
      intro rest
      have hs := not_special h'
      have hc := hs c (by simp)
      rw [List.cons_append, rfcGo_fieldStart_char _ _ _ hc.1 hc.2.1 hc.2.2.1 hc.2.2.2,
        rfcGo_plain_run cs (fun x hx => hs x (by simp [hx]))]
      simp

theorem rfcGo_comma {st : RfcState} {fld : Str} (h : RfcDone st fld) (row : List Str) (rest : Str) :
    rfcGo st fld row (',' :: rest) = rfcGo .fieldStart [] (row ++ [fld.reverse]) rest := by
  rcases h with rfl | rfl | ⟨rfl, rfl⟩ <;> simp [rfcGo]

theorem rfcGo_crlf {st : RfcState} {fld : Str} (h : RfcDone st fld) (row : List Str) (rest : Str) :
    rfcGo st fld row ('\r' :: '\n' :: rest) =
      (rfcGo .recStart [] [] rest).map ((row ++ [fld.reverse]) :: ·) := by
  rcases h with rfl | rfl | ⟨rfl, rfl⟩ <;> simp [rfcGo]

/-! ### records -/

theorem rfcGo_body (fields : List (Bool × Str)) (hne : fields ≠ []) (row : List Str) (rest : Str) :
    rfcGo .fieldStart [] row (csvBodyQ fields ++ ('\r' :: '\n' :: rest)) =
      (rfcGo .recStart [] [] rest).map ((row ++ fields.map (·.2)) :: ·) := by
  induction fields generalizing row with
  | nil => contradiction
  | cons f l ih =>
    obtain ⟨st, fld, hd, hfld, hrun⟩ := rfcGo_field f.1 f.2 row
    cases l with
    | nil =>
      rw [csvBodyQ_single, hrun, rfcGo_crlf hd, hfld]
      simp
    | cons g l =>
      rw [csvBodyQ_cons_cons, List.append_assoc, hrun, List.cons_append, rfcGo_comma hd, hfld,
        ih (by simp)]
      simp

theorem rfcGo_row (fields : List (Bool × Str)) (hok : CsvRowOk fields) (rest : Str) :
    rfcGo .recStart [] [] (csvRowQ true fields ++ rest) =
      (rfcGo .recStart [] [] rest).map (fields.map (·.2) :: ·) := by
  rw [csvRowQ_eq, List.append_assoc]
  change rfcGo .recStart [] [] (csvBodyQ fields ++ ('\r' :: '\n' :: rest)) = _
  obtain ⟨c, cs, hc, h1, h2⟩ := csvBodyQ_head hok ('\r' :: '\n' :: rest)
  have := rfcGo_body fields hok.1 [] rest
  rw [hc] at this ⊢
  rw [rfcGo_recStart_char _ _ _ h1 h2, this]
  simp

/-- the strict automaton reads the records of every CR LF terminated text of the writer family -/
theorem rfcRecords_textQ (rows : List (List (Bool × Str))) (h : ∀ r ∈ rows, CsvRowOk r) :
    rfcRecords (csvTextQ (rows.map fun r => (true, r))) = some (rows.map fun r => r.map (·.2)) := by
  unfold rfcRecords
  induction rows with
  | nil => rfl
  | cons r rs ih =>
    rw [List.map_cons, csvTextQ, List.flatMap_cons, rfcGo_row r (h r (by simp))]
    rw [csvTextQ] at ih
    rw [ih (fun x hx => h x (by simp [hx]))]
    rfl

/-- … in particular what `csv.writer` writes -/
theorem rfcRecords_rows (rs : List (List Str)) (h : ∀ r ∈ rs, r ≠ []) :
    rfcRecords (rs.flatMap csvRow) = some rs := by
  rw [csvText_eq]
  have := rfcRecords_textQ (rs.map csvMarks) (by
    intro r hr
    simp only [List.mem_map] at hr
    obtain ⟨x, hx, rfl⟩ := hr
    exact csvMarks_ok (h x hx))
  simp only [List.map_map, Function.comp_def, csvMarks_snd, List.map_id'] at this
  exact this

/-! ### the table of a context -/

theorem strictCsv_dumpCsv (asInt : Bool) {objects properties : List Str} {bools : List (List Bool)}
    (hlen : bools.length = objects.length) (hrow : ∀ r ∈ bools, r.length = properties.length) :
    strictCsv asInt (dumpCsv asInt objects properties bools) = some (objects, properties, bools) := by
  have hrec : rfcRecords (dumpCsv asInt objects properties bools) =
      some (csvTable asInt objects properties bools) := by
    rw [dumpCsv_eq, rfcRecords_rows]
    intro r hr
    simp only [csvTable, List.mem_cons, List.mem_map] at hr
    rcases hr with rfl | ⟨x, _, rfl⟩ <;> simp
  have hdec : seqOpt (((objects.zip bools).map fun x => x.1 :: x.2.map (csym asInt)).map
      (strictCsvRow asInt properties.length)) = some (objects.zip bools) := by
    rw [List.map_map]
    have := seqOpt_map_of (l := objects.zip bools) (g := id)
      (f := strictCsvRow asInt properties.length ∘ fun x => x.1 :: x.2.map (csym asInt)) ?_
    · simpa using this
    · intro x hx
      have hl : (x.2.map (csym asInt)).length = properties.length := by
        simp [hrow _ (List.of_mem_zip (a := x.1) (b := x.2) hx).2]
      have hcells : seqOpt ((x.2.map (csym asInt)).map (strictCsvCell asInt)) = some x.2 := by
        rw [List.map_map]
        have := seqOpt_map_of (l := x.2) (g := id) (f := strictCsvCell asInt ∘ csym asInt) ?_
        · simpa using this
        · intro b _
          cases asInt <;> cases b <;> decide
      simp only [Function.comp_apply, strictCsvRow, hl, bne_self_eq_false, Bool.false_eq_true,
        if_false, hcells, id]
  unfold strictCsv
  rw [hrec, csvTable]
  simp only []
  rw [hdec]
  simp only []
  rw [List.map_fst_zip (by omega), List.map_snd_zip (by omega)]

end FCA
