import FCA.Generated.Iterunion
import FCA.Generated.Predicates
import FCA.Model.Lattice
/-
C09 over the regenerated source: the body of the `while heap:` loop of `algorithms.common.iterunion` as translated
from the current `common.py`, and the configuration (comparison for `tools.maximal`, sort key, neighbor attribute) that
`Concept.upset/downset` and `Lattice.upset_union/downset_union` of the current source hand to it, give the model's
`iterunionLoop`, `upsetUnion`, `downsetUnion` — about which `C09_*` are proved.
-/
namespace FCA

theorem C09_generated_push (l heap : List Nat) : l.foldl (fun heap c => heap ++ [c]) heap = heap ++ l := by
  induction l generalizing heap with
  | nil => simp
  | cons a l ih => simp [ih]

/-- one iteration of `while heap:` with the regenerated body; Python's `seen` (an int starting at `-1`) is the model's
counter minus one -/
theorem C09_generated_iterunion_step (key : Nat → Nat) (next : Nat → List Nat) (fuel : Nat) (heap : List Nat)
    (seen : Nat) (acc : List Nat) :
    iterunionLoop key next (fuel + 1) heap seen acc =
      match minBy key heap with
      | none => acc.reverse
      | some c =>
        let s := Generated.iterunion_body next (key c) c ((seen : Int) - 1) (heap.erase c) acc
        iterunionLoop key next fuel s.2.1 (s.1 + 1).toNat s.2.2 := by
  rw [iterunionLoop]
  cases minBy key heap with
  | none => rfl
  | some c =>
    simp only [Generated.iterunion_body, C09_generated_push]
    by_cases h : key c ≥ seen
    · have h' : ((key c : Nat) : Int) > (seen : Int) - 1 := by omega
      rw [if_pos h, if_pos h']
      have : (((key c : Nat) : Int) + 1).toNat = key c + 1 := by omega
      simp only [this]
    · have h' : ¬ ((key c : Nat) : Int) > (seen : Int) - 1 := by omega
      rw [if_neg h, if_neg h']
      have : ((seen : Int) - 1 + 1).toNat = seen := by omega
      simp only [this]

/-- `seen = -1` before the loop is the model's initial counter `0` -/
theorem C09_generated_iterunion_init : ((0 : Nat) : Int) - 1 = -1 := by omega

/-! #### the entry points -/

/-- the comparison a traversal hands to `tools.maximal`, by the name of the `Concept` method, evaluated with the
predicate kernels regenerated from `lattice_members.py` -/
def C09_cmpOfName (L : Lattice) (t : Nat) : String → Option (Nat → Nat → Bool)
  | "properly_subsumes" => some fun x y => Generated.properly_subsumes (L.extentAt x) (L.extentAt y) t
  | "properly_implies" => some fun x y => Generated.properly_implies (L.extentAt x) (L.extentAt y) t
  | "subsumes" => some fun x y => Generated.subsumes (L.extentAt x) (L.extentAt y) t
  | "implies" => some fun x y => Generated.implies (L.extentAt x) (L.extentAt y) t
  | _ => none

def C09_keyOfName (L : Lattice) : String → Option (Nat → Nat)
  | "index" => some id
  | "dindex" => some L.dindexAt
  | _ => none

def C09_nextOfName (L : Lattice) : String → Option (Nat → List Nat)
  | "upper_neighbors" => some L.upperAt
  | "lower_neighbors" => some L.lowerAt
  | _ => none

/-- a traversal entry point, read off its regenerated configuration: seeds reduced by `tools.maximal` with the named
comparison (or taken as they are for `""`: `Concept.upset/downset` pass `[self]`), then `iterunion` -/
def C09_traverse (L : Lattice) (t : Nat) (cfg : String × String × String) (cs : List Nat) : Option (List Nat) :=
  match C09_keyOfName L cfg.2.1, C09_nextOfName L cfg.2.2 with
  | some key, some next =>
    if cfg.1 = "" then some (iterunion key next (L.travFuel cs) cs)
    else match C09_cmpOfName L t cfg.1 with
      | some cmp => let seeds := maximalBy cmp cs; some (iterunion key next (L.travFuel seeds) seeds)
      | none => none
  | _, _ => none

/-- `Lattice.upset_union` of the current source is the model's `upsetUnion` -/
theorem C09_generated_upset_union (L : Lattice) (t : Nat) (cs : List Nat) :
    C09_traverse L t Generated.upset_union_cfg cs = some (upsetUnion L cs) := by
  simp [C09_traverse, Generated.upset_union_cfg, C09_keyOfName, C09_nextOfName, C09_cmpOfName, upsetUnion,
    Generated.properly_subsumes]

/-- `Lattice.downset_union` of the current source is the model's `downsetUnion` -/
theorem C09_generated_downset_union (L : Lattice) (t : Nat) (cs : List Nat) :
    C09_traverse L t Generated.downset_union_cfg cs = some (downsetUnion L cs) := by
  simp [C09_traverse, Generated.downset_union_cfg, C09_keyOfName, C09_nextOfName, C09_cmpOfName, downsetUnion,
    Generated.properly_implies]

theorem C09_generated_maximal_single (cmp : Nat → Nat → Bool) (c : Nat) : maximalBy cmp [c] = [c] := by
  simp [maximalBy, List.eraseDups, List.eraseDupsBy, List.eraseDupsBy.loop]

/-- `Concept.upset()` of the current source is the model's `upsetUnion` of the singleton -/
theorem C09_generated_upset (L : Lattice) (t c : Nat) :
    C09_traverse L t Generated.upset_cfg [c] = some (upsetUnion L [c]) := by
  simp [C09_traverse, Generated.upset_cfg, C09_keyOfName, C09_nextOfName, upsetUnion, C09_generated_maximal_single]

/-- `Concept.downset()` of the current source is the model's `downsetUnion` of the singleton -/
theorem C09_generated_downset (L : Lattice) (t c : Nat) :
    C09_traverse L t Generated.downset_cfg [c] = some (downsetUnion L [c]) := by
  simp [C09_traverse, Generated.downset_cfg, C09_keyOfName, C09_nextOfName, downsetUnion, C09_generated_maximal_single]

end FCA
#print axioms FCA.C09_generated_iterunion_step
#print axioms FCA.C09_generated_upset_union
#print axioms FCA.C09_generated_downset_union
#print axioms FCA.C09_generated_upset
#print axioms FCA.C09_generated_downset
