import FCA.Proofs.Junctors
import FCA.Proofs.Render
/-
Property C16 — `relations()` classifies each pair of contingent properties once and correctly.

All table-dependent theorems are stated for an arbitrary `T : JTable` under the decidable
well-formedness predicate `JTable.Good T` (`FCA/Proofs/Junctors.lean`); `C16_table_good` instantiates
it for the pinned table by `decide`.
-/
namespace FCA

/-- the pinned copy of the metaclass table is well-formed (by evaluation) -/
theorem C16_table_good : pinnedTable.Good := by decide

/-- in the pinned table every pattern two contingent columns can produce occurs exactly once, and the
three unary patterns occur exactly once -/
theorem C16_table_patterns_once :
    (∀ c ∈ [15, 7, 13, 11, 9, 14, 6], (pinnedTable.binary.filter (·.pattern == c)).length = 1) ∧
    (∀ c ∈ [1, 2, 3], (pinnedTable.unary.filter (·.pattern == c)).length = 1) := by decide

/-! ### codes -/

/-- two contingent columns produce one of the seven documented patterns -/
theorem C16_code_total {n l r : Nat} (hl : Bounded n l) (hr : Bounded n r)
    (hcl : unaryCode n l = 3) (hcr : unaryCode n r = 3) :
    binaryCode n l r ∈ [15, 7, 13, 11, 9, 14, 6] :=
  binaryCode_mem hl hr hcl hcr

example : Bounded 3 1 ∧ Bounded 3 6 ∧ unaryCode 3 1 = 3 ∧ unaryCode 3 6 = 3 ∧ binaryCode 3 1 6 = 6 :=
  ⟨bounded_iff_lt.mpr (by decide), bounded_iff_lt.mpr (by decide), by decide, by decide, by decide⟩

/-- every one of the seven patterns is produced by some pair of contingent columns (n = 4) -/
example : [binaryCode 4 3 5, binaryCode 4 7 11, binaryCode 4 1 3, binaryCode 4 3 1, binaryCode 4 3 3,
    binaryCode 4 1 2, binaryCode 4 3 12] = [15, 7, 13, 11, 9, 14, 6] := by decide

/-- the unary code of a column of a context with at least one object is 1, 2 or 3, and says whether
the column is full, empty or neither -/
theorem C16_unary_code {n col : Nat} (hn : 0 < n) :
    unaryCode n col ∈ [1, 2, 3] ∧ (unaryCode n col = 1 ↔ col = full n) ∧
    (unaryCode n col = 2 ↔ col = 0) ∧ (unaryCode n col = 3 ↔ col ≠ 0 ∧ col ≠ full n) :=
  ⟨unaryCode_mem hn, unaryCode_eq_one_iff hn, unaryCode_eq_two_iff hn, unaryCode_eq_three_iff⟩

/-! ### classification of one pair -/

section pair
variable {T : JTable} {n l r cl cr : Nat}

/-- `classifyBinary` is defined on contingent columns, and equals its specification -/
theorem C16_classify_total (hT : T.Good) (hl : Bounded n cl) (hr : Bounded n cr)
    (hcl : unaryCode n cl = 3) (hcr : unaryCode n cr = 3) :
    classifyBinary T n l r cl cr = some (specBinary n l r cl cr) :=
  classifyBinary_eq hT l r (binaryCode_mem hl hr hcl hcr)

example : pinnedTable.Good ∧ Bounded 3 1 ∧ Bounded 3 3 ∧ unaryCode 3 1 = 3 ∧ unaryCode 3 3 = 3 :=
  ⟨by decide, bounded_iff_lt.mpr (by decide), bounded_iff_lt.mpr (by decide), by decide, by decide⟩

example : (classifyBinary pinnedTable 3 0 1 1 3).map (fun x => (x.kind, x.left, x.right, x.order)) =
    some ("implication", 0, some 1, 4) := by decide
example : (classifyBinary pinnedTable 3 0 1 3 1).map (fun x => (x.kind, x.left, x.right, x.order)) =
    some ("implication", 1, some 0, 4) := by decide

/-- the result is the documented entry of the pattern: kind, orientation and rank -/
theorem C16_kind_unique (hT : T.Good) (hl : Bounded n cl) (hr : Bounded n cr)
    (hcl : unaryCode n cl = 3) (hcr : unaryCode n cr = 3) :
    ∃ it, classifyBinary T n l r cl cr = some it ∧
      (binaryCode n cl cr = 9 → it = ⟨"equivalent", l, some r, 1⟩) ∧
      (binaryCode n cl cr = 6 → it = ⟨"complement", l, some r, 2⟩) ∧
      (binaryCode n cl cr = 14 → it = ⟨"incompatible", l, some r, 3⟩) ∧
      (binaryCode n cl cr = 13 → it = ⟨"implication", l, some r, 4⟩) ∧
      (binaryCode n cl cr = 11 → it = ⟨"implication", r, some l, 4⟩) ∧
      (binaryCode n cl cr = 7 → it = ⟨"subcontrary", l, some r, 6⟩) ∧
      (binaryCode n cl cr = 15 → it = ⟨"orthogonal", l, some r, 7⟩) := by
  refine ⟨_, C16_classify_total hT hl hr hcl hcr, ?_⟩
  unfold specBinary
  refine ⟨?_, ?_, ?_, ?_, ?_, ?_, ?_⟩ <;> intro h <;> rw [h] <;> simp [kindOfCode, rankOfCode]

/-- conversely the kind determines the pattern (13 / 11 share the kind `implication`) -/
theorem C16_kind_iff (hT : T.Good) (hl : Bounded n cl) (hr : Bounded n cr)
    (hcl : unaryCode n cl = 3) (hcr : unaryCode n cr = 3) {it : RelItem}
    (h : classifyBinary T n l r cl cr = some it) :
    (it.kind = "equivalent" ↔ binaryCode n cl cr = 9) ∧
    (it.kind = "complement" ↔ binaryCode n cl cr = 6) ∧
    (it.kind = "incompatible" ↔ binaryCode n cl cr = 14) ∧
    (it.kind = "implication" ↔ binaryCode n cl cr = 13 ∨ binaryCode n cl cr = 11) ∧
    (it.kind = "subcontrary" ↔ binaryCode n cl cr = 7) ∧
    (it.kind = "orthogonal" ↔ binaryCode n cl cr = 15) := by
  rw [C16_classify_total hT hl hr hcl hcr, Option.some.injEq] at h
  subst h
  have hc := binaryCode_mem hl hr hcl hcr
  unfold specBinary
  generalize binaryCode n cl cr = c at hc
  simp only [List.mem_cons, List.not_mem_nil, or_false] at hc
  rcases hc with rfl | rfl | rfl | rfl | rfl | rfl | rfl <;> simp [kindOfCode]

/-- the kind says what the documentation says about the two columns -/
theorem C16_semantics (hT : T.Good) (hl : Bounded n cl) (hr : Bounded n cr)
    (hcl : unaryCode n cl = 3) (hcr : unaryCode n cr = 3) {it : RelItem}
    (h : classifyBinary T n l r cl cr = some it) :
    (it.kind = "equivalent" ↔ cl = cr) ∧
    (it.kind = "complement" ↔ cl &&& cr = 0 ∧ cl ||| cr = full n) ∧
    (it.kind = "incompatible" ↔ cl &&& cr = 0 ∧ cl ||| cr ≠ full n) ∧
    (it.kind = "implication" ↔ (cl ⊆ᵇ cr ∨ cr ⊆ᵇ cl) ∧ cl ≠ cr) ∧
    (it.kind = "subcontrary" ↔ cl &&& cr ≠ 0 ∧ cl ||| cr = full n ∧ ¬ cl ⊆ᵇ cr ∧ ¬ cr ⊆ᵇ cl) ∧
    (it.kind = "orthogonal" ↔ cl &&& cr ≠ 0 ∧ ¬ cl ⊆ᵇ cr ∧ ¬ cr ⊆ᵇ cl ∧ cl ||| cr ≠ full n) := by
  obtain ⟨h1, h2, h3, h4, h5, h6⟩ := C16_kind_iff hT hl hr hcl hcr h
  refine ⟨h1.trans (code9_iff hl hr hcl hcr), h2.trans (code6_iff hl hr hcl hcr),
    h3.trans (code14_iff hl hr hcl hcr), h4.trans ?_, h5.trans (code7_iff hl hr), h6.trans (code15_iff hl hr)⟩
  rw [code13_iff hl hr hcl hcr, code11_iff hl hr hcl hcr]
  constructor
  · rintro (⟨a, b⟩ | ⟨a, b⟩)
    · exact ⟨Or.inl a, b⟩
    · exact ⟨Or.inr a, b⟩
  · rintro ⟨a | a, b⟩
    · exact Or.inl ⟨a, b⟩
    · exact Or.inr ⟨a, b⟩

/-- orthogonal = all four combinations occur among the objects -/
theorem C16_orthogonal_iff (hT : T.Good) (hl : Bounded n cl) (hr : Bounded n cr)
    (hcl : unaryCode n cl = 3) (hcr : unaryCode n cr = 3) {it : RelItem}
    (h : classifyBinary T n l r cl cr = some it) :
    it.kind = "orthogonal" ↔
      (∃ i, i ∈ᵇ cl ∧ i ∈ᵇ cr) ∧ (∃ i, i ∈ᵇ cl ∧ ¬ i ∈ᵇ cr) ∧ (∃ i, i ∈ᵇ cr ∧ ¬ i ∈ᵇ cl) ∧
      (∃ i, i < n ∧ ¬ i ∈ᵇ cl ∧ ¬ i ∈ᵇ cr) := by
  rw [(C16_kind_iff hT hl hr hcl hcr h).2.2.2.2.2, show (15 : Nat) = encode4 true true true true from rfl,
    binaryCode_eq_iff]
  simp only [iff_true]
  rw [neither_ne_zero_iff, and_ne_zero_iff, andNot_ne_zero_iff, andNot_ne_zero_iff]

/-- an implication entry always points from the narrower to the wider column -/
theorem C16_orientation (hT : T.Good) (hl : Bounded n cl) (hr : Bounded n cr)
    (hcl : unaryCode n cl = 3) (hcr : unaryCode n cr = 3) {it : RelItem}
    (h : classifyBinary T n l r cl cr = some it) (hk : it.kind = "implication") :
    (it.left = l ∧ it.right = some r ∧ cl ⊆ᵇ cr ∧ cl ≠ cr) ∨
    (it.left = r ∧ it.right = some l ∧ cr ⊆ᵇ cl ∧ cl ≠ cr) := by
  have hk' := (C16_kind_iff hT hl hr hcl hcr h).2.2.2.1.mp hk
  obtain ⟨it', h', _, _, _, h13, h11, _, _⟩ := C16_kind_unique (l := l) (r := r) hT hl hr hcl hcr
  rw [h, Option.some.injEq] at h'
  subst h'
  rcases hk' with hc | hc
  · left
    rw [h13 hc]
    exact ⟨rfl, rfl, (code13_iff hl hr hcl hcr).mp hc⟩
  · right
    rw [h11 hc]
    exact ⟨rfl, rfl, (code11_iff hl hr hcl hcr).mp hc⟩

end pair

/-! ### enumeration of pairs -/

/-- `combos2` (= `itertools.combinations(·, 2)`) yields exactly the two-element subsequences, each
once when the list has no duplicates, `len·(len-1)/2` in total -/
theorem C16_combos2_spec (l : List Nat) :
    (∀ a b, (a, b) ∈ combos2 l ↔ List.Sublist [a, b] l) ∧ (l.Nodup → (combos2 l).Nodup) ∧
    (combos2 l).length = l.length * (l.length - 1) / 2 :=
  ⟨fun _ _ => mem_combos2_iff_sublist, combos2_nodup, combos2_length l⟩

/-- over the (ascending) contingent properties of a context: each pair `i < j` exactly once -/
theorem C16_combos2_contingent (K : Ctx) :
    (combos2 (contingentProps K)).Nodup ∧
    ∀ i j, (i, j) ∈ combos2 (contingentProps K) ↔
      i < j ∧ j < K.m ∧ unaryCode K.n (K.cols[i]!) = 3 ∧ unaryCode K.n (K.cols[j]!) = 3 := by
  refine ⟨combos2_nodup (contingentProps_nodup K), fun i j => ?_⟩
  rw [mem_combos2_sorted (contingentProps_sorted K), mem_contingentProps, mem_contingentProps]
  constructor
  · rintro ⟨⟨_, hi⟩, ⟨hj, hj'⟩, hij⟩; exact ⟨hij, hj, hi, hj'⟩
  · rintro ⟨hij, hj, hi, hj'⟩; exact ⟨⟨by omega, hi⟩, ⟨hj, hj'⟩, hij⟩

example : combos2 [0, 2, 3] = [(0, 2), (0, 3), (2, 3)] := by decide

/-! ### the entries of `relations` -/

section entries
variable {T : JTable} {K : Ctx}

/-- without `include_unary` the result is, up to the (stable) sort, the list of classifications of
the pairs `i < j` of contingent properties, in `combinations` order -/
theorem C16_entries_eq (hT : T.Good) (hK : K.WF) (hn : 0 < K.n) :
    relations T K false = sortRel ((combos2 (contingentProps K)).map fun q =>
      specBinary K.n q.1 q.2 (K.cols[q.1]!) (K.cols[q.2]!)) := by
  rw [relations_eq hT hK hn]; rfl

/-- every entry is the classification of a pair `i < j` of contingent properties and vice versa -/
theorem C16_entries_mem (hT : T.Good) (hK : K.WF) (hn : 0 < K.n) (x : RelItem) :
    x ∈ relations T K false ↔ ∃ i j, i < j ∧ j < K.m ∧ unaryCode K.n (K.cols[i]!) = 3 ∧
      unaryCode K.n (K.cols[j]!) = 3 ∧ classifyBinary T K.n i j (K.cols[i]!) (K.cols[j]!) = some x := by
  rw [C16_entries_eq hT hK hn, (sortRel_perm _).mem_iff, List.mem_map]
  constructor
  · rintro ⟨⟨i, j⟩, hq, rfl⟩
    obtain ⟨hij, hj, hi, hj'⟩ := ((C16_combos2_contingent K).2 i j).mp hq
    exact ⟨i, j, hij, hj, hi, hj', C16_classify_total hT (cols_bounded hK i) (cols_bounded hK j) hi hj'⟩
  · rintro ⟨i, j, hij, hj, hi, hj', hx⟩
    rw [C16_classify_total hT (cols_bounded hK i) (cols_bounded hK j) hi hj', Option.some.injEq] at hx
    exact ⟨(i, j), ((C16_combos2_contingent K).2 i j).mpr ⟨hij, hj, hi, hj'⟩, hx⟩

/-- exactly one entry per unordered pair of contingent properties, none for any other pair
(`RelItem.pair x = some (min left right, max left right)`) -/
theorem C16_entries (hT : T.Good) (hK : K.WF) (hn : 0 < K.n) (i j : Nat) :
    ((relations T K false).map RelItem.pair).count (some (i, j)) =
      if i < j ∧ j < K.m ∧ unaryCode K.n (K.cols[i]!) = 3 ∧ unaryCode K.n (K.cols[j]!) = 3 then 1 else 0 := by
  have hp : ((relations T K false).map RelItem.pair).Perm ((combos2 (contingentProps K)).map some) := by
    rw [relations_eq hT hK hn]
    refine ((sortRel_perm _).map _).trans ?_
    simp only [Bool.false_eq_true, if_false, List.nil_append]
    rw [map_pair_binaryItems]
  rw [hp.count_eq]
  have hnd : ((combos2 (contingentProps K)).map some).Nodup :=
    (C16_combos2_contingent K).1.map (fun a b h => by simpa using h)
  rw [hnd.count]
  have : some (i, j) ∈ (combos2 (contingentProps K)).map some ↔ (i, j) ∈ combos2 (contingentProps K) := by
    simp
  simp only [this, (C16_combos2_contingent K).2 i j]

/-- the number of entries: one per pair -/
theorem C16_entries_length (hT : T.Good) (hK : K.WF) (hn : 0 < K.n) :
    (relations T K false).length =
      (contingentProps K).length * ((contingentProps K).length - 1) / 2 := by
  rw [C16_entries_eq hT hK hn, (sortRel_perm _).length_eq, List.length_map, combos2_length]

/-- with fewer than two contingent properties there is nothing to list -/
theorem C16_entries_none (hT : T.Good) (hK : K.WF) (hn : 0 < K.n) (h : (contingentProps K).length ≤ 1) :
    relations T K false = [] := by
  apply List.eq_nil_of_length_eq_zero
  rw [C16_entries_length hT hK hn]
  have : (contingentProps K).length = 0 ∨ (contingentProps K).length = 1 := by omega
  rcases this with h | h <;> rw [h]

example : relations pinnedTable (mkCtx 2 2 #[0b11, 0b01]) false = [] := by decide

/-- with `include_unary`: additionally exactly the unary items of all properties -/
theorem C16_entries_unary_perm (hT : T.Good) (hK : K.WF) (hn : 0 < K.n) :
    (relations T K true).Perm
      (((List.range K.m).map fun p => specUnary K.n p (K.cols[p]!)) ++ relations T K false) := by
  rw [relations_eq hT hK hn, relations_eq hT hK hn]
  simp only [if_true, Bool.false_eq_true, if_false, List.nil_append]
  exact (sortRel_perm _).trans (List.Perm.append_left _ (sortRel_perm _).symm)

/-- the unary item of a property: exactly one of tautology / contradiction / contingency, decided
by the column being full / empty / neither -/
theorem C16_unary_kind {n : Nat} (hn : 0 < n) (p col : Nat) :
    (specUnary n p col).left = p ∧ (specUnary n p col).right = none ∧
    ((specUnary n p col).kind = "tautology" ↔ col = full n) ∧
    ((specUnary n p col).kind = "contradiction" ↔ col = 0) ∧
    ((specUnary n p col).kind = "contingency" ↔ col ≠ 0 ∧ col ≠ full n) ∧
    ((specUnary n p col).kind = "tautology" ∨ (specUnary n p col).kind = "contradiction" ∨
      (specUnary n p col).kind = "contingency") := by
  refine ⟨rfl, rfl, ?_⟩
  rw [← unaryCode_eq_one_iff hn, ← unaryCode_eq_two_iff hn, ← unaryCode_eq_three_iff]
  have hc := unaryCode_mem (n := n) (col := col) hn
  unfold specUnary
  generalize unaryCode n col = c at hc
  simp only [List.mem_cons, List.not_mem_nil, or_false] at hc
  rcases hc with rfl | rfl | rfl <;> simp [unaryKind]

/-- exactly one unary entry per property `p < K.m` -/
theorem C16_entries_unary (hT : T.Good) (hK : K.WF) (hn : 0 < K.n) (p : Nat) :
    (relations T K true).countP (fun x => x.right.isNone && x.left == p) = if p < K.m then 1 else 0 := by
  rw [(C16_entries_unary_perm hT hK hn).countP_eq, List.countP_append, List.countP_map]
  have h0 : (relations T K false).countP (fun x => x.right.isNone && x.left == p) = 0 := by
    rw [List.countP_eq_zero]
    intro x hx
    rw [C16_entries_eq hT hK hn, (sortRel_perm _).mem_iff, List.mem_map] at hx
    obtain ⟨q, _, rfl⟩ := hx
    have := right_specBinary K.n q.1 q.2 (K.cols[q.1]!) (K.cols[q.2]!)
    rw [Option.isSome_iff_ne_none] at this
    simp [this]
  rw [h0, Nat.add_zero]
  have : ((fun x : RelItem => x.right.isNone && x.left == p) ∘ fun p => specUnary K.n p (K.cols[p]!)) =
      fun q => q == p := by
    funext q; simp [specUnary]
  rw [this]
  have := (List.nodup_range (n := K.m)).count (a := p)
  rw [List.count] at this
  rw [this]; simp

/-- the binary entries are the same with and without `include_unary` -/
theorem C16_entries_binary_same (hT : T.Good) (hK : K.WF) (hn : 0 < K.n) (i j : Nat) :
    ((relations T K true).map RelItem.pair).count (some (i, j)) =
      ((relations T K false).map RelItem.pair).count (some (i, j)) := by
  rw [((C16_entries_unary_perm hT hK hn).map _).count_eq, List.map_append, List.count_append]
  have : (List.map RelItem.pair ((List.range K.m).map fun p => specUnary K.n p (K.cols[p]!))).count (some (i, j)) = 0 := by
    rw [List.count_eq_zero]
    simp [RelItem.pair, specUnary]
  rw [this, Nat.zero_add]

/-- implication entries of `relations` point from the narrower to the wider property -/
theorem C16_orientation_relations (hT : T.Good) (hK : K.WF) (hn : 0 < K.n) (iu : Bool) (x : RelItem)
    (hx : x ∈ relations T K iu) (hk : x.kind = "implication") :
    ∃ r, x.right = some r ∧ x.left < K.m ∧ r < K.m ∧
      K.cols[x.left]! ⊆ᵇ K.cols[r]! ∧ K.cols[x.left]! ≠ K.cols[r]! := by
  have hx' : x ∈ relations T K false := by
    cases iu with
    | false => exact hx
    | true =>
      rw [(C16_entries_unary_perm hT hK hn).mem_iff, List.mem_append] at hx
      rcases hx with hx | hx
      · rw [List.mem_map] at hx
        obtain ⟨p, _, rfl⟩ := hx
        rcases (C16_unary_kind hn p (K.cols[p]!)).2.2.2.2.2 with h | h | h <;> rw [h] at hk <;> exact absurd hk (by decide)
      · exact hx
  obtain ⟨i, j, hij, hj, hi, hj', hc⟩ := (C16_entries_mem hT hK hn x).mp hx'
  rcases C16_orientation hT (cols_bounded hK i) (cols_bounded hK j) hi hj' hc hk with
    ⟨h1, h2, h3, h4⟩ | ⟨h1, h2, h3, h4⟩
  · exact ⟨j, h2, by omega, hj, by rw [h1]; exact h3, by rw [h1]; exact h4⟩
  · exact ⟨i, h2, by omega, by omega, by rw [h1]; exact h3, by rw [h1]; exact fun h => h4 h.symm⟩

end entries

/-! ### sorting -/

/-- `sortRel` permutes, sorts by rank and keeps entries of equal rank in their original order -/
theorem C16_sorted_stable (l : List RelItem) :
    (sortRel l).Perm l ∧ (sortRel l).Pairwise (fun a b => a.order ≤ b.order) ∧
    ∀ k : Int, (sortRel l).filter (fun a => decide (a.order = k)) = l.filter (fun a => decide (a.order = k)) :=
  ⟨sortRel_perm l, sortRel_sorted l, fun k => filter_sortRel k l⟩

example : (sortRel [⟨"b", 0, some 1, 4⟩, ⟨"a", 5, none, -1⟩, ⟨"c", 0, some 2, 4⟩, ⟨"d", 1, some 2, 1⟩]).map (·.kind) =
    ["a", "d", "b", "c"] := by decide

/-- the result of `relations` is sorted by rank -/
theorem C16_relations_sorted (T : JTable) (K : Ctx) (iu : Bool) :
    (relations T K iu).Pairwise (fun a b => a.order ≤ b.order) := by
  unfold relations
  exact sortRel_sorted _

/-- … and the entries of one rank are in `combinations` order of their pairs (stability): e.g. all
entries of rank `k` are the rank-`k` classifications in enumeration order -/
theorem C16_relations_stable {T : JTable} {K : Ctx} (hT : T.Good) (hK : K.WF) (hn : 0 < K.n) (k : Int) :
    (relations T K false).filter (fun a => decide (a.order = k)) =
      ((combos2 (contingentProps K)).map fun q =>
        specBinary K.n q.1 q.2 (K.cols[q.1]!) (K.cols[q.2]!)).filter (fun a => decide (a.order = k)) := by
  rw [C16_entries_eq hT hK hn, filter_sortRel]

/-- a concrete context: 3 objects, 4 properties with columns 0b011, 0b110, 0b111 (universal), 0b100 -/
example : (relations pinnedTable (mkCtx 3 4 #[0b0101, 0b0111, 0b1110]) true).map
      (fun x => (x.kind, x.left, x.right)) =
    [("tautology", 2, none), ("contingency", 0, none), ("contingency", 1, none), ("contingency", 3, none),
     ("complement", 0, some 3), ("implication", 3, some 1), ("subcontrary", 0, some 1)] := by decide

example : (mkCtx 3 4 #[0b0101, 0b0111, 0b1110]).WF ∧ 0 < (mkCtx 3 4 #[0b0101, 0b0111, 0b1110]).n :=
  ⟨mkCtx_WF _ _ _ rfl (by decide), by decide⟩

/-! ### unary entries keep property order (stability with `include_unary`) -/

/-- with `include_unary` the entries of one rank are: the unary entries of that rank in property
order, followed by the binary entries of that rank in `combinations` order -/
theorem C16_unary_stable {T : JTable} {K : Ctx} (hT : T.Good) (hK : K.WF) (hn : 0 < K.n) (k : Int) :
    (relations T K true).filter (fun a => decide (a.order = k)) =
      ((List.range K.m).map fun p => specUnary K.n p (K.cols[p]!)).filter (fun a => decide (a.order = k)) ++
      ((combos2 (contingentProps K)).map fun q =>
        specBinary K.n q.1 q.2 (K.cols[q.1]!) (K.cols[q.2]!)).filter (fun a => decide (a.order = k)) := by
  rw [relations_eq hT hK hn, filter_sortRel, if_pos rfl, List.filter_append]
  rfl

/-- in particular the properties reported with one unary kind (rank `k`: -2 contradiction,
-1 tautology, 0 contingency) are listed in ascending property order -/
theorem C16_unary_stable_props {T : JTable} {K : Ctx} (hT : T.Good) (hK : K.WF) (hn : 0 < K.n) (k : Int) :
    ((relations T K true).filter (fun a => a.right.isNone && decide (a.order = k))).map (·.left) =
      (List.range K.m).filter (fun p => decide (unaryRank (unaryCode K.n (K.cols[p]!)) = k)) := by
  have hf : ∀ l : List RelItem, l.filter (fun a => a.right.isNone && decide (a.order = k)) =
      (l.filter (fun a => decide (a.order = k))).filter (fun a => a.right.isNone) := by
    intro l; rw [List.filter_filter]
  rw [hf, C16_unary_stable hT hK hn, List.filter_append]
  have h2 : (((combos2 (contingentProps K)).map fun q =>
        specBinary K.n q.1 q.2 (K.cols[q.1]!) (K.cols[q.2]!)).filter (fun a => decide (a.order = k))).filter
        (fun a => a.right.isNone) = [] := by
    rw [List.filter_eq_nil_iff]
    intro a ha
    obtain ⟨q, _, rfl⟩ := List.mem_map.mp (List.mem_filter.mp ha).1
    have := right_specBinary K.n q.1 q.2 (K.cols[q.1]!) (K.cols[q.2]!)
    rw [Option.isSome_iff_ne_none] at this
    simp [this]
  rw [h2, List.append_nil, List.filter_filter, List.filter_map, List.map_map]
  have h3 : ((fun a : RelItem => a.right.isNone && decide (a.order = k)) ∘
      fun p => specUnary K.n p (K.cols[p]!)) =
      fun p => decide (unaryRank (unaryCode K.n (K.cols[p]!)) = k) := by
    funext p; simp [specUnary]
  rw [h3]
  conv_rhs => rw [← List.map_id (List.filter _ _)]
  apply List.map_congr_left
  intro p _
  rfl

example : ((relations pinnedTable (mkCtx 3 4 #[0b0101, 0b0111, 0b1110]) true).filter
    (fun a => a.right.isNone && decide (a.order = 0))).map (·.left) = [0, 1, 3] := by decide

/-! ### first match = last match (`find?` of the model vs. the Python dict) -/

theorem C16_table_nodup : pinnedTable.NoDupPatterns ∧ pinnedTable.NoDupNames := by decide

/-- For a well-formed table without duplicate patterns: each of the seven binary and three unary
patterns is the pattern of exactly one entry, and looking a pattern up from the front (`find?`, the
model) or from the back (the entry defined last wins: Python's `__map[pattern] = cls`) gives the
same entry — for every pattern. -/
theorem C16_good_patterns_once {T : JTable} (hT : T.Good) (hN : T.NoDupPatterns) :
    (∀ c ∈ [15, 7, 13, 11, 9, 14, 6], (T.binary.filter (·.pattern == c)).length = 1) ∧
    (∀ c ∈ [1, 2, 3], (T.unary.filter (·.pattern == c)).length = 1) ∧
    (∀ c, T.binary.reverse.find? (·.pattern == c) = T.binary.find? (·.pattern == c)) ∧
    (∀ c, T.unary.reverse.find? (·.pattern == c) = T.unary.find? (·.pattern == c)) := by
  obtain ⟨h6, h11, _, hu⟩ := hT
  refine ⟨fun c hc => ?_, fun c hc => ?_, fun c => find?_reverse_of_nodup JEntry.pattern c _ hN.1,
    fun c => find?_reverse_of_nodup JEntry.pattern c _ hN.2⟩
  · have hle := filter_length_le_one_of_nodup JEntry.pattern c T.binary hN.1
    have hsome : (T.binary.find? (·.pattern == c)).isSome = true := by
      by_cases h : c = 11
      · subst h
        simp only [JTable.binInfo, Option.map_map] at h11
        cases hf : T.binary.find? (·.pattern == 11) with
        | none => rw [hf] at h11; cases h11
        | some e => rfl
      · have hc' : c ∈ [15, 7, 13, 9, 14, 6] := by
          simp only [List.mem_cons, List.not_mem_nil, or_false] at hc ⊢; tauto
        have := h6 c hc'
        simp only [JTable.binInfo] at this
        cases hf : T.binary.find? (·.pattern == c) with
        | none => rw [hf] at this; cases this
        | some e => rfl
    have := filter_length_pos_of_find? _ _ hsome
    omega
  · have hle := filter_length_le_one_of_nodup JEntry.pattern c T.unary hN.2
    have hsome : (T.unary.find? (·.pattern == c)).isSome = true := by
      have := hu c hc
      simp only [JTable.unInfo] at this
      cases hf : T.unary.find? (·.pattern == c) with
      | none => rw [hf] at this; cases this
      | some e => rfl
    have := filter_length_pos_of_find? _ _ hsome
    omega

/-- likewise the lookups by class name (`Implication`, `Replication`, `Contingency`) do not depend on
the direction of the search when no name is used twice -/
theorem C16_good_names_once {T : JTable} (hN : T.NoDupNames) (s : String) :
    T.binary.reverse.find? (·.name == s) = T.binary.find? (·.name == s) ∧
    T.unary.reverse.find? (·.name == s) = T.unary.find? (·.name == s) := by
  unfold JTable.NoDupNames at hN
  rw [List.map_append, List.nodup_append] at hN
  exact ⟨find?_reverse_of_nodup JEntry.name s _ hN.2.1, find?_reverse_of_nodup JEntry.name s _ hN.1⟩

example : pinnedTable.Good ∧ pinnedTable.NoDupPatterns := ⟨by decide, by decide⟩
/-- a table with a repeated pattern is rejected by the predicate -/
example : ¬ (JTable.mk [] [⟨"A", "a", 1, 9⟩, ⟨"B", "b", 2, 9⟩]).NoDupPatterns := by decide

/-! ### the kinds, read on the objects -/

section objects
variable {T : JTable} {n l r cl cr : Nat}

/-- what each kind says about the objects `i < n` (`i ∈ᵇ cl`: object `i` has the left property):
* equivalent: every object has both or neither;
* complement: every object has exactly one;
* incompatible: no object has both, and some object has neither;
* implication (either direction): every object with the one has the other, and not conversely;
* subcontrary: every object has at least one, some object has both, neither column contains the other;
* orthogonal: all four combinations occur. -/
theorem C16_kind_objects (hT : T.Good) (hl : Bounded n cl) (hr : Bounded n cr)
    (hcl : unaryCode n cl = 3) (hcr : unaryCode n cr = 3) {it : RelItem}
    (h : classifyBinary T n l r cl cr = some it) :
    (it.kind = "equivalent" ↔ ∀ i, i < n → (i ∈ᵇ cl ↔ i ∈ᵇ cr)) ∧
    (it.kind = "complement" ↔ ∀ i, i < n → (i ∈ᵇ cl ↔ ¬ i ∈ᵇ cr)) ∧
    (it.kind = "incompatible" ↔
      (∀ i, ¬ (i ∈ᵇ cl ∧ i ∈ᵇ cr)) ∧ ∃ i, i < n ∧ ¬ i ∈ᵇ cl ∧ ¬ i ∈ᵇ cr) ∧
    (it.kind = "implication" ↔
      ((∀ i, i ∈ᵇ cl → i ∈ᵇ cr) ∧ ∃ i, i ∈ᵇ cr ∧ ¬ i ∈ᵇ cl) ∨
      ((∀ i, i ∈ᵇ cr → i ∈ᵇ cl) ∧ ∃ i, i ∈ᵇ cl ∧ ¬ i ∈ᵇ cr)) ∧
    (it.kind = "subcontrary" ↔
      (∀ i, i < n → i ∈ᵇ cl ∨ i ∈ᵇ cr) ∧ (∃ i, i ∈ᵇ cl ∧ i ∈ᵇ cr) ∧
      (∃ i, i ∈ᵇ cl ∧ ¬ i ∈ᵇ cr) ∧ (∃ i, i ∈ᵇ cr ∧ ¬ i ∈ᵇ cl)) ∧
    (it.kind = "orthogonal" ↔
      (∃ i, i ∈ᵇ cl ∧ i ∈ᵇ cr) ∧ (∃ i, i ∈ᵇ cl ∧ ¬ i ∈ᵇ cr) ∧ (∃ i, i ∈ᵇ cr ∧ ¬ i ∈ᵇ cl) ∧
      (∃ i, i < n ∧ ¬ i ∈ᵇ cl ∧ ¬ i ∈ᵇ cr)) := by
  obtain ⟨h1, h2, h3, h4, h5, _⟩ := C16_semantics hT hl hr hcl hcr h
  refine ⟨h1.trans (eq_iff_forall_lt hl hr), h2.trans ?_, h3.trans ?_, h4.trans ?_, h5.trans ?_,
    C16_orthogonal_iff hT hl hr hcl hcr h⟩
  · rw [and_eq_zero_iff_forall, or_eq_full_iff hl hr]
    constructor
    · rintro ⟨a, b⟩ i hi
      exact ⟨fun h1 h2 => a i ⟨h1, h2⟩, fun h2 => (b i hi).resolve_right h2⟩
    · intro a
      refine ⟨fun i hi => ((a i (hl i hi.1)).mp hi.1) hi.2, fun i hi => ?_⟩
      by_cases h2 : i ∈ᵇ cr
      · exact Or.inr h2
      · exact Or.inl ((a i hi).mpr h2)
  · rw [and_eq_zero_iff_forall, or_ne_full_iff hl hr]
  · constructor
    · rintro ⟨a | a, b⟩
      · left
        refine ⟨a, not_sub_iff.mp fun hs => b (sub_antisymm a hs)⟩
      · right
        refine ⟨a, not_sub_iff.mp fun hs => b (sub_antisymm hs a)⟩
    · rintro (⟨a, i, hi, hi'⟩ | ⟨a, i, hi, hi'⟩)
      · exact ⟨Or.inl a, fun he => hi' (he ▸ hi)⟩
      · exact ⟨Or.inr a, fun he => hi' (he ▸ hi)⟩
  · rw [and_ne_zero_iff, or_eq_full_iff hl hr, not_sub_iff, not_sub_iff]
    exact ⟨fun ⟨a, b, c, d⟩ => ⟨b, a, c, d⟩, fun ⟨b, a, c, d⟩ => ⟨a, b, c, d⟩⟩

end objects

/-- … and for the entries of `relations` themselves, with the orientation the entry reports:
`has i p` = object `i` has property `p`. An `implication` entry `left → right` says: every object
with `left` has `right`, and some object has `right` without `left`. -/
theorem C16_kind_objects_relations {T : JTable} {K : Ctx} (hT : T.Good) (hK : K.WF) (hn : 0 < K.n)
    (iu : Bool) (x : RelItem) (hx : x ∈ relations T K iu) (q : Nat) (hq : x.right = some q) :
    x.left < K.m ∧ q < K.m ∧ x.left ≠ q ∧
    (x.kind = "equivalent" ↔ ∀ i, i < K.n → (i ∈ᵇ K.cols[x.left]! ↔ i ∈ᵇ K.cols[q]!)) ∧
    (x.kind = "complement" ↔ ∀ i, i < K.n → (i ∈ᵇ K.cols[x.left]! ↔ ¬ i ∈ᵇ K.cols[q]!)) ∧
    (x.kind = "incompatible" ↔
      (∀ i, ¬ (i ∈ᵇ K.cols[x.left]! ∧ i ∈ᵇ K.cols[q]!)) ∧
      ∃ i, i < K.n ∧ ¬ i ∈ᵇ K.cols[x.left]! ∧ ¬ i ∈ᵇ K.cols[q]!) ∧
    (x.kind = "implication" ↔
      (∀ i, i ∈ᵇ K.cols[x.left]! → i ∈ᵇ K.cols[q]!) ∧ ∃ i, i ∈ᵇ K.cols[q]! ∧ ¬ i ∈ᵇ K.cols[x.left]!) ∧
    (x.kind = "subcontrary" ↔
      (∀ i, i < K.n → i ∈ᵇ K.cols[x.left]! ∨ i ∈ᵇ K.cols[q]!) ∧ (∃ i, i ∈ᵇ K.cols[x.left]! ∧ i ∈ᵇ K.cols[q]!) ∧
      (∃ i, i ∈ᵇ K.cols[x.left]! ∧ ¬ i ∈ᵇ K.cols[q]!) ∧ (∃ i, i ∈ᵇ K.cols[q]! ∧ ¬ i ∈ᵇ K.cols[x.left]!)) ∧
    (x.kind = "orthogonal" ↔
      (∃ i, i ∈ᵇ K.cols[x.left]! ∧ i ∈ᵇ K.cols[q]!) ∧ (∃ i, i ∈ᵇ K.cols[x.left]! ∧ ¬ i ∈ᵇ K.cols[q]!) ∧
      (∃ i, i ∈ᵇ K.cols[q]! ∧ ¬ i ∈ᵇ K.cols[x.left]!) ∧
      (∃ i, i < K.n ∧ ¬ i ∈ᵇ K.cols[x.left]! ∧ ¬ i ∈ᵇ K.cols[q]!)) := by
  have hx' : x ∈ relations T K false := by
    cases iu with
    | false => exact hx
    | true =>
      rw [(C16_entries_unary_perm hT hK hn).mem_iff, List.mem_append] at hx
      rcases hx with hx | hx
      · rw [List.mem_map] at hx
        obtain ⟨p, _, rfl⟩ := hx
        cases hq
      · exact hx
  obtain ⟨i, j, hij, hj, hi, hj', hc⟩ := (C16_entries_mem hT hK hn x).mp hx'
  have hbi := cols_bounded hK i
  have hbj := cols_bounded hK j
  obtain ⟨k1, k2, k3, k4, k5, k6⟩ := C16_kind_objects hT hbi hbj hi hj' hc
  have hspec := C16_classify_total (T := T) (l := i) (r := j) hT hbi hbj hi hj'
  rw [hc, Option.some.injEq] at hspec
  by_cases h11 : binaryCode K.n (K.cols[i]!) (K.cols[j]!) = 11
  · -- reported as implication j → i
    have hxe : x = ⟨"implication", j, some i, 4⟩ := by rw [hspec, specBinary, if_pos h11]
    have hsub := (code11_iff hbi hbj hi hj').mp h11
    subst hxe
    simp only [Option.some.injEq] at hq
    subst hq
    refine ⟨hj, by omega, ?_, ?_, ?_, ?_, ?_, ?_, ?_⟩
    · show j ≠ i; omega
    · have := k1; simp only at this ⊢
      rw [this]; exact ⟨fun a i hi => (a i hi).symm, fun a i hi => (a i hi).symm⟩
    · have := k2; simp only at this ⊢
      rw [this]
      exact ⟨fun a i hi => iff_not_comm.mp (a i hi), fun a i hi => iff_not_comm.mp (a i hi)⟩
    · have := k3; simp only at this ⊢
      rw [this]
      constructor
      · rintro ⟨a, i, b1, b2, b3⟩; exact ⟨fun i hi => a i hi.symm, i, b1, b3, b2⟩
      · rintro ⟨a, i, b1, b2, b3⟩; exact ⟨fun i hi => a i hi.symm, i, b1, b3, b2⟩
    · simp only [true_iff]
      exact ⟨hsub.1, not_sub_iff.mp fun hs => hsub.2 (sub_antisymm hs hsub.1)⟩
    · have := k5; simp only at this ⊢
      rw [this]
      constructor
      · rintro ⟨a, ⟨i1, b1⟩, ⟨i2, b2⟩, ⟨i3, b3⟩⟩
        exact ⟨fun i hi => (a i hi).symm, ⟨i1, b1.symm⟩, ⟨i3, b3⟩, ⟨i2, b2⟩⟩
      · rintro ⟨a, ⟨i1, b1⟩, ⟨i2, b2⟩, ⟨i3, b3⟩⟩
        exact ⟨fun i hi => (a i hi).symm, ⟨i1, b1.symm⟩, ⟨i3, b3⟩, ⟨i2, b2⟩⟩
    · have := k6; simp only at this ⊢
      rw [this]
      constructor
      · rintro ⟨⟨i1, b1⟩, ⟨i2, b2⟩, ⟨i3, b3⟩, ⟨i4, b4, b5, b6⟩⟩
        exact ⟨⟨i1, b1.symm⟩, ⟨i3, b3⟩, ⟨i2, b2⟩, ⟨i4, b4, b6, b5⟩⟩
      · rintro ⟨⟨i1, b1⟩, ⟨i2, b2⟩, ⟨i3, b3⟩, ⟨i4, b4, b5, b6⟩⟩
        exact ⟨⟨i1, b1.symm⟩, ⟨i3, b3⟩, ⟨i2, b2⟩, ⟨i4, b4, b6, b5⟩⟩
  · have hxl : x.left = i ∧ x.right = some j := by rw [hspec, specBinary, if_neg h11]; exact ⟨rfl, rfl⟩
    obtain ⟨hxl, hxr⟩ := hxl
    rw [hxr, Option.some.injEq] at hq
    subst hq
    rw [hxl]
    refine ⟨by omega, hj, by omega, k1, k2, k3, k4.trans ?_, k5, k6⟩
    constructor
    · rintro (a | ⟨a, b⟩)
      · exact a
      · exfalso
        apply h11
        rw [code11_iff hbi hbj hi hj']
        obtain ⟨i0, b1, b2⟩ := b
        exact ⟨a, fun he => b2 (he ▸ b1)⟩
    · exact Or.inl

example : (relations pinnedTable (mkCtx 3 4 #[0b0101, 0b0111, 0b1110]) false).map
    (fun x => (x.kind, x.left, x.right)) =
    [("complement", 0, some 3), ("implication", 3, some 1), ("subcontrary", 0, some 1)] := by decide

/-! ### printing: `Relations.tostring`, `Relations.__str__` (model: `relToString`) -/

section render
variable (names : Nat → Str)

/-- nothing to list: the text is empty (the width is `max(..., default=0)`) -/
theorem C16_render_empty (b : Bool) : relToString names [] b = [] := by cases b <;> rfl

/-- before the repair the width was `max(...)` of the left labels, which fails exactly when there is
nothing to list; the repaired computation is total and agrees with it otherwise -/
theorem C16_render_strict (items : List RelItem) :
    (relWidthStrict names items = .error .valueError ↔ items = []) ∧
    (items ≠ [] → relWidthStrict names items = .ok (relWidth names items)) ∧
    relWidth names [] = 0 := by
  unfold relWidthStrict
  cases items <;> simp [relWidth]

/-- only orthogonal entries, and those excluded (`__str__`): the text is empty -/
theorem C16_render_only_orthogonal {items : List RelItem} (h : ∀ r ∈ items, r.kind = "orthogonal") :
    relToString names items true = [] ∧ relStr names items = [] := by
  have : relKept true items = [] := by
    unfold relKept
    rw [if_pos rfl, List.filter_eq_nil_iff]
    intro r hr
    simp [h r hr]
  refine ⟨?_, ?_⟩ <;> simp only [relStr, relToString, this] <;> rfl

example : relStr (fun _ => ['a']) [⟨"orthogonal", 0, some 1, 7⟩] = [] := by decide

/-- the text: one line per kept entry (all entries, or all but the orthogonal ones), in list order,
joined by line breaks; a line is the left label padded to the common width, a blank, the kind padded
to 12, a blank, and the right label (nothing for a unary entry — such a line ends in the blank) -/
theorem C16_render_lines (items : List RelItem) (b : Bool) :
    relToString names items b =
      joinWith ['\n'] ((items.filter fun r => !(b && r.kind == "orthogonal")).map fun r =>
        ljust (relWidth names items) (names r.left) ++ [' '] ++ ljust 12 r.kind.toList ++ [' '] ++
          (match r.right with | some p => names p | none => [])) := by
  have hk : relKept b items = items.filter fun r => !(b && r.kind == "orthogonal") := by
    unfold relKept
    cases b
    · simp
    · simp only [if_true, Bool.true_and]
      apply List.filter_congr
      intro r _
      simp [bne]
  unfold relToString
  rw [hk]
  rfl

/-- `__str__` excludes the orthogonal entries -/
theorem C16_render_str (items : List RelItem) : relStr names items = relToString names items true := rfl

/-- when no label contains a line break, splitting the text at line breaks gives back exactly one
line per kept entry (and the text is empty when no entry is kept) -/
theorem C16_render_split (items : List RelItem) (b : Bool)
    (hl : ∀ r ∈ items, '\n' ∉ names r.left) (hk : ∀ r ∈ items, '\n' ∉ r.kind.toList)
    (hr : ∀ r ∈ items, ∀ p, r.right = some p → '\n' ∉ names p) :
    (relKept b items = [] → relToString names items b = []) ∧
    (relKept b items ≠ [] → splitChar '\n' (relToString names items b) =
      (relKept b items).map (relLine names (relWidth names items))) := by
  constructor
  · intro h; unfold relToString; rw [h]; rfl
  · intro h
    unfold relToString
    apply splitChar_nl_joinWith
    · simpa using h
    · intro line hline
      obtain ⟨r, hr', rfl⟩ := List.mem_map.mp hline
      have hri := (relKept_sublist b items).subset hr'
      exact nl_not_mem_relLine _ (hl r hri) (hk r hri) (hr r hri)

/-- the common width is the greatest length of a left label over ALL entries — the orthogonal ones
included, also when they are not printed —, so every left column has exactly that width and the kind
column starts at the same offset in every line -/
theorem C16_render_width (items : List RelItem) :
    (∀ r ∈ items, (names r.left).length ≤ relWidth names items ∧
      (ljust (relWidth names items) (names r.left)).length = relWidth names items) ∧
    ((items = [] ∧ relWidth names items = 0) ∨
      ∃ r ∈ items, relWidth names items = (names r.left).length) := by
  refine ⟨fun r hr => ?_, relWidth_attained names items⟩
  have := le_relWidth names hr
  exact ⟨this, by rw [length_ljust_max]; omega⟩

example : relWidth (fun p => List.replicate (p + 1) 'x') [⟨"orthogonal", 4, some 1, 7⟩, ⟨"equivalent", 0, some 1, 1⟩] = 5 := by
  decide

/-- `%-12s` pads but never truncates (`contradiction` has 13 characters) -/
example : ljust 12 "contradiction".toList = "contradiction".toList ∧ ljust 12 "tautology".toList = "tautology   ".toList := by
  decide

/-- the doctest of `junctors.py` -/
example : relToString (fun p => ["Never", "Always", "Possibly", "Maybe"].toArray[p]!.toList)
    [⟨"contradiction", 0, none, -2⟩, ⟨"tautology", 1, none, -1⟩, ⟨"contingency", 2, none, 0⟩,
     ⟨"contingency", 3, none, 0⟩, ⟨"equivalent", 2, some 3, 1⟩] true =
    ("Never    contradiction \nAlways   tautology    \nPossibly contingency  \nMaybe    contingency  \n" ++
     "Possibly equivalent   Maybe").toList := by decide +kernel

end render

/-- the kinds of the entries of `relations` contain no line break -/
theorem C16_kinds_no_newline {T : JTable} {K : Ctx} (hT : T.Good) (hK : K.WF) (hn : 0 < K.n) (iu : Bool) :
    ∀ x ∈ relations T K iu, '\n' ∉ x.kind.toList := by
  intro x hx
  rw [relations_eq hT hK hn, (sortRel_perm _).mem_iff, List.mem_append] at hx
  rcases hx with hx | hx
  · cases iu
    · simp at hx
    · rw [if_pos rfl] at hx
      obtain ⟨p, _, rfl⟩ := List.mem_map.mp hx
      exact nl_not_mem_unaryKind _
  · obtain ⟨q, _, rfl⟩ := List.mem_map.mp hx
    exact nl_not_mem_kind_specBinary _ _ _ _ _

/-- printing `relations()` is defined for every table, context, naming and both flags (the model is a
total function), and … -/
theorem C16_render_total (T : JTable) (K : Ctx) (names : Nat → Str) (iu b : Bool) :
    ∃ s : Str, relationsToString T K names iu b = s := ⟨_, rfl⟩

/-- … a context with fewer than two contingent properties — nothing to list — prints as the empty
text (where `max()` of the empty sequence used to raise) -/
theorem C16_render_nothing {T : JTable} {K : Ctx} (hT : T.Good) (hK : K.WF) (hn : 0 < K.n)
    (h : (contingentProps K).length ≤ 1) (names : Nat → Str) (b : Bool) :
    relationsToString T K names false b = [] ∧
    relWidthStrict names (relations T K false) = .error .valueError := by
  unfold relationsToString
  rw [C16_entries_none hT hK hn h]
  exact ⟨C16_render_empty names b, rfl⟩

example : (contingentProps (mkCtx 2 2 #[0b11, 0b01])).length ≤ 1 := by decide

/-- for newline-free property labels the printed text of `relations()` splits into exactly one line
per kept entry, in the (sorted, stable) order of the list -/
theorem C16_render_relations {T : JTable} {K : Ctx} (hT : T.Good) (hK : K.WF) (hn : 0 < K.n)
    (names : Nat → Str) (hnames : ∀ p, '\n' ∉ names p) (iu b : Bool)
    (hne : relKept b (relations T K iu) ≠ []) :
    splitChar '\n' (relationsToString T K names iu b) =
      (relKept b (relations T K iu)).map (relLine names (relWidth names (relations T K iu))) :=
  (C16_render_split names _ b (fun _ _ => hnames _) (C16_kinds_no_newline hT hK hn iu)
    (fun _ _ _ _ => hnames _)).2 hne

example : relationsToString pinnedTable (mkCtx 3 4 #[0b0101, 0b0111, 0b1110])
    (fun p => ["a", "bb", "ccc", "dddd"].toArray[p]!.toList) false true =
    "a    complement   dddd\ndddd implication  bb\na    subcontrary  bb".toList := by decide +kernel

end FCA

#print axioms FCA.C16_table_good
#print axioms FCA.C16_code_total
#print axioms FCA.C16_classify_total
#print axioms FCA.C16_kind_unique
#print axioms FCA.C16_kind_iff
#print axioms FCA.C16_semantics
#print axioms FCA.C16_orthogonal_iff
#print axioms FCA.C16_orientation
#print axioms FCA.C16_orientation_relations
#print axioms FCA.C16_combos2_spec
#print axioms FCA.C16_entries_mem
#print axioms FCA.C16_entries
#print axioms FCA.C16_entries_unary
#print axioms FCA.C16_entries_none
#print axioms FCA.C16_entries_length
#print axioms FCA.C16_entries_unary_perm
#print axioms FCA.C16_sorted_stable
#print axioms FCA.C16_relations_stable
#print axioms FCA.C16_unary_stable
#print axioms FCA.C16_unary_stable_props
#print axioms FCA.C16_good_patterns_once
#print axioms FCA.C16_good_names_once
#print axioms FCA.C16_kind_objects
#print axioms FCA.C16_kind_objects_relations
#print axioms FCA.C16_render_empty
#print axioms FCA.C16_render_strict
#print axioms FCA.C16_render_only_orthogonal
#print axioms FCA.C16_render_lines
#print axioms FCA.C16_render_split
#print axioms FCA.C16_render_width
#print axioms FCA.C16_kinds_no_newline
#print axioms FCA.C16_render_total
#print axioms FCA.C16_render_nothing
#print axioms FCA.C16_render_relations
