import FCA.Generated.Validate
import FCA.Generated.FromdictRow
import FCA.Props.C19
import FCA.Proofs.Defn
/-
C19 over the regenerated source: the chain of `if …: raise ValueError` guards of `Context.__init__`, as translated from
the current `contexts.py` by harness/extract.py, rejects exactly the triples the model's `ctorAccepts` rejects — so the
`C19_*` theorems about `ctorAccepts` / `ctxOfTriple` speak about the guards the source has now.
-/
namespace FCA

theorem uniq_length_bne (l : List Name) : ((uniq l).length != l.length) = hasDup l := by
  cases h : hasDup l
  · have := (hasDup_eq_false_iff l).mp h
    simp [length_uniq_eq_iff.mpr this]
  · have hn : ¬ l.Nodup := fun hnd => by simp [(hasDup_eq_false_iff l).mpr hnd] at h
    have : (uniq l).length ≠ l.length := fun he => hn (length_uniq_eq_iff.mp he)
    simpa using this

theorem any_uniq_contains (a b : List Name) : (uniq a).any b.contains = a.any b.contains := by
  rw [Bool.eq_iff_iff]
  simp only [List.any_eq_true]
  constructor
  · rintro ⟨x, hx, hb⟩; exact ⟨x, mem_uniq.mp hx, hb⟩
  · rintro ⟨x, hx, hb⟩; exact ⟨x, mem_uniq.mpr hx, hb⟩

theorem pySetNe_singleton (lens : List Nat) (k : Nat) (hne : lens ≠ []) :
    pySetNe lens [k] = !(lens.all (· == k)) := by
  unfold pySetNe
  congr 1
  rw [Bool.eq_iff_iff]
  simp only [Bool.and_eq_true, List.all_eq_true, List.contains_iff_mem, List.mem_singleton, beq_iff_eq]
  constructor
  · intro h; exact h.1
  · intro h
    refine ⟨h, ?_⟩
    intro x hx
    subst hx
    obtain ⟨y, ys, rfl⟩ := List.exists_cons_of_ne_nil hne
    have := h y (by simp)
    subst this
    simp

/-- the guard chain of the current source rejects exactly what the model's `ctorAccepts` rejects -/
theorem C19_generated_ctor (os ps : List Name) (bools : List (List Bool)) :
    Generated.ctorRejects os ps bools = !ctorAccepts os ps (bools.map (·.length)) := by
  unfold Generated.ctorRejects ctorAccepts
  rw [uniq_length_bne, uniq_length_bne, any_uniq_contains]
  by_cases ho : os = []
  · subst ho; simp
  · by_cases hl : bools.length = os.length
    · have hne : (bools.map fun b => b.length) ≠ [] := by
        intro h
        have : bools = [] := by simpa using h
        subst this
        exact ho (List.length_eq_zero_iff.mp hl.symm)
      rw [pySetNe_singleton _ _ hne]
      simp only [List.length_map, hl, bne_self_eq_false, Bool.false_or, beq_self_eq_true, Bool.true_and]
      cases os.isEmpty <;> cases hasDup os <;> cases ps.isEmpty <;> cases hasDup ps <;>
        cases os.any ps.contains <;> cases (bools.map fun b => b.length).all (· == ps.length) <;> rfl
    · have : (bools.length != os.length) = true := by simpa using hl
      have h2 : ((bools.map (·.length)).length == os.length) = false := by simpa using hl
      rw [this, h2]
      cases os.isEmpty <;> cases hasDup os <;> cases ps.isEmpty <;> cases hasDup ps <;>
        cases os.any ps.contains <;> simp

/-- `Context(objects, properties, bools)` of the model succeeds iff no guard of the current source raises -/
theorem C19_generated_ctxOfTriple (os ps : List Name) (bools : List (List Bool)) :
    (∃ K, ctxOfTriple os ps bools = .ok K) ↔ Generated.ctorRejects os ps bools = false := by
  rw [C19_generated_ctor]
  unfold ctxOfTriple
  cases ctorAccepts os ps (bools.map (·.length)) <;> simp

/-! ### `Context.fromdict`: the row validator `_make_set` and the cells, regenerated from the current source -/

/-- `_make_set(r)` of the current source raises exactly when the model's row test (`rowOk` in `fromdictCheck`: no repeated index,
every index in `0 ≤ i < len(properties)` — negative indexes included) fails -/
theorem C19_generated_fromdict_row (np : Nat) (r : List Int) :
    Generated.fromdict_rowRejects np r =
      !(r.eraseDups.length == r.length && r.all fun i => decide (0 ≤ i) && decide (i < (np : Int))) := by
  have h : (r.eraseDups.all ((List.range np).map Int.ofNat).contains) = r.all fun i => decide (0 ≤ i) && decide (i < (np : Int)) := by
    rw [Bool.eq_iff_iff]
    simp only [List.all_eq_true, List.mem_eraseDups, List.contains_iff_mem, List.mem_map, List.mem_range, Bool.and_eq_true, decide_eq_true_eq]
    constructor
    · intro h x hx
      obtain ⟨a, ha, rfl⟩ := h x hx
      exact ⟨by simp, by simpa using ha⟩
    · intro h x hx
      obtain ⟨h0, h1⟩ := h x hx
      exact ⟨x.toNat, by omega, by simp; omega⟩
  simp only [Generated.fromdict_rowRejects]
  rw [h]
  simp only [bne, Bool.not_and]

theorem C19_generated_fromdict_cells (np : Nat) (r : List Int) :
    Generated.fromdict_rowCells np r = (List.range np).map fun (j : Nat) => r.contains (Int.ofNat j) := by
  simp only [Generated.fromdict_rowCells]
  apply List.map_congr_left
  intro j _
  rw [Bool.eq_iff_iff]
  simp [List.mem_eraseDups]

/-- all rows: `fromdictCheck` goes on iff no row is rejected by the regenerated validator, and the cells it builds are the
regenerated ones -/
theorem C19_generated_fromdict_rows (np : Nat) (context : List (List Int)) :
    (context.all fun r => r.eraseDups.length == r.length && r.all fun i => decide (0 ≤ i) && decide (i < (np : Int))) =
      !(context.any (Generated.fromdict_rowRejects np)) ∧
    (context.map fun r => (List.range np).map fun (j : Nat) => r.contains (Int.ofNat j)) =
      context.map (Generated.fromdict_rowCells np) := by
  constructor
  · induction context with
    | nil => simp
    | cons r rs ih =>
      simp only [List.all_cons, List.any_cons, ih, C19_generated_fromdict_row, Bool.not_or, Bool.not_not]
  · apply List.map_congr_left
    intro r _
    exact (C19_generated_fromdict_cells np r).symm

end FCA
#print axioms FCA.C19_generated_ctor
#print axioms FCA.C19_generated_ctxOfTriple
#print axioms FCA.C19_generated_fromdict_row
#print axioms FCA.C19_generated_fromdict_cells
#print axioms FCA.C19_generated_fromdict_rows
