import FCA.Model.Bits
import Mathlib.Data.Nat.Bitwise
import Mathlib.Tactic
/-
Mask library used by every proof: membership view of a `Nat` bit mask, extensionality, Boolean
algebra, subset, bounds.
-/
namespace FCA

/-- membership view of a bit mask -/
def mem (i s : Nat) : Prop := s.testBit i = true
infix:50 " ∈ᵇ " => mem

instance (i s : Nat) : Decidable (i ∈ᵇ s) := by unfold mem; infer_instance

@[simp] theorem mem_and {i a b : Nat} : i ∈ᵇ (a &&& b) ↔ i ∈ᵇ a ∧ i ∈ᵇ b := by
  simp [mem, Nat.testBit_and]
@[simp] theorem mem_or {i a b : Nat} : i ∈ᵇ (a ||| b) ↔ i ∈ᵇ a ∨ i ∈ᵇ b := by
  simp [mem, Nat.testBit_or]
@[simp] theorem mem_andNot {i a b : Nat} : i ∈ᵇ andNot a b ↔ i ∈ᵇ a ∧ ¬ i ∈ᵇ b := by
  simp only [mem, andNot, Nat.testBit_xor, Nat.testBit_and]
  cases a.testBit i <;> cases b.testBit i <;> simp
@[simp] theorem mem_pow {i g : Nat} : i ∈ᵇ (2 ^ g) ↔ i = g := by
  simp [mem, Nat.testBit_two_pow, eq_comm]
@[simp] theorem not_mem_zero {i : Nat} : ¬ i ∈ᵇ 0 := by simp [mem]
@[simp] theorem mem_full {i k : Nat} : i ∈ᵇ full k ↔ i < k := by
  simp [mem, full, Nat.testBit_two_pow_sub_one]
@[simp] theorem mem_shiftRight {i a k : Nat} : i ∈ᵇ (a >>> k) ↔ (k + i) ∈ᵇ a := by
  simp [mem, Nat.testBit_shiftRight]

theorem eq_zero_iff {a : Nat} : a = 0 ↔ ∀ i, ¬ i ∈ᵇ a := by
  constructor
  · rintro rfl i; simp
  · intro h; apply Nat.eq_of_testBit_eq; intro i
    have := h i; simp [mem] at this; simp [this]

theorem ne_zero_iff {a : Nat} : a ≠ 0 ↔ ∃ i, i ∈ᵇ a := by
  rw [Ne, eq_zero_iff]; push Not; rfl

theorem ext {a b : Nat} (h : ∀ i, i ∈ᵇ a ↔ i ∈ᵇ b) : a = b := by
  apply Nat.eq_of_testBit_eq; intro i
  have := h i; simp only [mem] at this
  cases ha : a.testBit i <;> cases hb : b.testBit i <;> simp_all

theorem ext_iff {a b : Nat} : a = b ↔ ∀ i, i ∈ᵇ a ↔ i ∈ᵇ b :=
  ⟨fun h _ => by rw [h], ext⟩

/-- subset of masks -/
def sub (a b : Nat) : Prop := ∀ i, i ∈ᵇ a → i ∈ᵇ b
infix:50 " ⊆ᵇ " => sub

theorem sub_refl (a : Nat) : a ⊆ᵇ a := fun _ h => h
theorem sub_trans {a b c : Nat} (h1 : a ⊆ᵇ b) (h2 : b ⊆ᵇ c) : a ⊆ᵇ c := fun i h => h2 i (h1 i h)
theorem sub_antisymm {a b : Nat} (h1 : a ⊆ᵇ b) (h2 : b ⊆ᵇ a) : a = b :=
  ext fun i => ⟨h1 i, h2 i⟩
theorem zero_sub (a : Nat) : 0 ⊆ᵇ a := fun i h => absurd h not_mem_zero

theorem and_eq_left_iff {x y : Nat} : x &&& y = x ↔ x ⊆ᵇ y := by
  constructor
  · intro h i hi
    have : i ∈ᵇ (x &&& y) := by rw [h]; exact hi
    exact (mem_and.mp this).2
  · intro h; apply ext; intro i; simp only [mem_and]
    exact ⟨fun h' => h'.1, fun h' => ⟨h', h i h'⟩⟩

theorem or_eq_left_iff {x y : Nat} : x ||| y = x ↔ y ⊆ᵇ x := by
  constructor
  · intro h i hi
    have : i ∈ᵇ (x ||| y) := mem_or.mpr (Or.inr hi)
    rwa [h] at this
  · intro h; apply ext; intro i; simp only [mem_or]
    exact ⟨fun h' => h'.elim id (h i), Or.inl⟩

theorem and_ne_zero_iff {x y : Nat} : x &&& y ≠ 0 ↔ ∃ i, i ∈ᵇ x ∧ i ∈ᵇ y := by
  rw [ne_zero_iff]; simp

theorem le_of_sub {a b : Nat} (h : a ⊆ᵇ b) : a ≤ b := by
  have : a &&& b = a := and_eq_left_iff.mpr h
  rw [← this]; exact Nat.and_le_right

theorem lt_of_sub_ne {a b : Nat} (h : a ⊆ᵇ b) (hne : a ≠ b) : a < b :=
  lt_of_le_of_ne (le_of_sub h) hne

/-- all members below `k` -/
def Bounded (k a : Nat) : Prop := ∀ i, i ∈ᵇ a → i < k

theorem bounded_iff_lt {k a : Nat} : Bounded k a ↔ a < 2 ^ k := by
  constructor
  · intro h
    by_contra hge
    push Not at hge
    obtain ⟨i, hi1, hi2⟩ := Nat.exists_most_significant_bit (show a ≠ 0 by
      intro h0; subst h0; have := Nat.two_pow_pos k; omega)
    have hik : i < k := h i hi1
    have : a < 2 ^ (i + 1) := by
      apply Nat.lt_pow_two_of_testBit
      intro j hj
      exact hi2 j (by omega)
    have : 2 ^ (i + 1) ≤ 2 ^ k := Nat.pow_le_pow_right (by norm_num) (by omega)
    omega
  · intro h i hi
    by_contra hik
    push Not at hik
    have : a.testBit i = false := Nat.testBit_lt_two_pow (lt_of_lt_of_le h (Nat.pow_le_pow_right (by norm_num) hik))
    simp [mem, this] at hi

theorem bounded_full (k : Nat) : Bounded k (full k) := fun _ h => mem_full.mp h
theorem bounded_zero (k : Nat) : Bounded k 0 := fun _ h => absurd h not_mem_zero
theorem bounded_sub {k a b : Nat} (h : a ⊆ᵇ b) (hb : Bounded k b) : Bounded k a := fun i hi => hb i (h i hi)
theorem bounded_iff_sub_full {k a : Nat} : Bounded k a ↔ a ⊆ᵇ full k :=
  ⟨fun h i hi => mem_full.mpr (h i hi), fun h i hi => mem_full.mp (h i hi)⟩

/-! ### trailing zeros -/

theorem tz_spec (n : Nat) (h : n ≠ 0) : n.testBit (tz n) = true ∧ ∀ k < tz n, n.testBit k = false := by
  induction n using Nat.strong_induction_on with
  | _ n ih =>
    match n, h with
    | n+1, _ =>
      unfold tz
      split
      · rename_i hodd
        constructor
        · simp [Nat.testBit_zero, hodd]
        · intro k hk; omega
      · rename_i heven
        have hpos : (n+1)/2 ≠ 0 := by omega
        have hlt : (n+1)/2 < n+1 := by omega
        obtain ⟨h1, h2⟩ := ih _ hlt hpos
        constructor
        · rw [Nat.add_comm 1, Nat.testBit_succ]; exact h1
        · intro k hk
          cases k with
          | zero => simp [Nat.testBit_zero]; omega
          | succ k => rw [Nat.testBit_succ]; exact h2 k (by omega)

end FCA
