/-
Model of `concepts/definitions.py` (`Definition` and its mutators / deriving methods) and
`tools.Unique`: two ordered duplicate-free name lists and a set of true cells.
-/
namespace FCA

/-- exception classes that matter -/
inductive Err where
  | valueError | keyError | indexError | typeError
deriving Repr, BEq, DecidableEq

def Err.name : Err → String
  | .valueError => "ValueError" | .keyError => "KeyError"
  | .indexError => "IndexError" | .typeError => "TypeError"

abbrev Name := String

/-! ### `tools.Unique` -/

/-- `Unique(iterable)`: first occurrences, in order -/
def uniq : List Name → List Name
  | [] => []
  | x :: xs => x :: (uniq xs).filter (· != x)

/-- `Unique.add` -/
def uAdd (l : List Name) (x : Name) : List Name := if l.contains x then l else l ++ [x]

/-- `Unique |= items` (`MutableSet.__ior__`: add each in order) -/
def uIor (l : List Name) (xs : List Name) : List Name := xs.foldl uAdd l

/-- `Unique &= items` (`MutableSet.__iand__`: discard everything not in `items`) -/
def uIand (l : List Name) (xs : List Name) : List Name := l.filter xs.contains

/-- `Unique.replace(item, new_item)` -/
def uReplace (l : List Name) (old new : Name) : Except Err (List Name) :=
  if l.contains new then .error .valueError
  else if l.contains old then .ok (l.map fun x => if x == old then new else x)
  else .error .valueError

/-- `list.insert(i, x)` with Python's index clamping -/
def pyInsert (l : List Name) (i : Int) (x : Name) : List Name :=
  let len : Int := l.length
  let i := if i < 0 then (if i + len < 0 then 0 else i + len) else (if i > len then len else i)
  l.take i.toNat ++ [x] ++ l.drop i.toNat

/-- `Unique.move(item, new_index)` -/
def uMove (l : List Name) (x : Name) (newIndex : Int) : Except Err (List Name) :=
  match l.findIdx? (· == x) with
  | none => .error .valueError
  | some idx =>
    if (idx : Int) = newIndex then .ok l
    else .ok (pyInsert (l.eraseIdx idx) newIndex x)

/-- `Unique.rsub(items)`: order preserving unique items not in `l` -/
def uRsub (l : List Name) (xs : List Name) : List Name := uniq (xs.filter (!l.contains ·))

/-! ### `Definition` -/

structure Defn where
  objs : List Name
  props : List Name
  /-- the set of true cells; kept duplicate free -/
  pairs : List (Name × Name)
deriving Repr, BEq

def Defn.empty : Defn := ⟨[], [], []⟩

def pAdd (ps : List (Name × Name)) (p : Name × Name) : List (Name × Name) :=
  if ps.contains p then ps else ps ++ [p]

def pDiscard (ps : List (Name × Name)) (p : Name × Name) : List (Name × Name) := ps.filter (· != p)

/-- `Definition.bools` -/
def Defn.bools (d : Defn) : List (List Bool) :=
  d.objs.map fun o => d.props.map fun p => d.pairs.contains (o, p)

/-- `Definition(objects, properties, bools)` -/
def Defn.ofTriple (objects properties : List Name) (bools : List (List Bool)) : Except Err Defn :=
  if (uniq objects).length != objects.length then .error .valueError
  else if (uniq properties).length != properties.length then .error .valueError
  else
    let pairs := (objects.zip bools).flatMap fun (o, row) =>
      (properties.zip row).filterMap fun (p, b) => if b then some (o, p) else none
    .ok ⟨objects, properties, pairs.eraseDups⟩

/-- order-insensitive `Triple.__eq__` between two definitions -/
def Defn.eqv (a b : Defn) : Bool :=
  a.objs.all b.objs.contains && b.objs.all a.objs.contains &&
  a.props.all b.props.contains && b.props.all a.props.contains &&
  a.pairs.all b.pairs.contains && b.pairs.all a.pairs.contains

/-- `d == Definition(*d)`: no cell outside `objs × props` -/
def Defn.freshEq (d : Defn) : Bool :=
  match Defn.ofTriple d.objs d.props d.bools with
  | .ok f => d.eqv f
  | .error _ => false

/-- `conflicting_pairs(left, right)`: `left._objects & right._objects` is
`collections.abc.Set.__and__`, i.e. `Unique(v for v in right._objects if v in left._objects)`:
the common names are enumerated in the order of the RIGHT operand (likewise the properties) -/
def conflicts (l r : Defn) : List (Name × Name) :=
  let objects := r.objs.filter l.objs.contains
  let properties := r.props.filter l.props.contains
  objects.flatMap fun o => properties.filterMap fun p =>
    if l.pairs.contains (o, p) != r.pairs.contains (o, p) then some (o, p) else none

/-- the pairs listed in the `ValueError` message of `union` / `intersection` (and `*_update`) -/
def Defn.conflictList (d other : Defn) : List (Name × Name) := conflicts d other

/-- `Definition.shape` -/
def Defn.shape (d : Defn) : Nat × Nat := (d.objs.length, d.props.length)

/-- numerator of `Definition.fill_ratio`: `len(self._pairs)` -/
def Defn.fillCount (d : Defn) : Nat := d.pairs.length

/-- editing operations (arguments already well typed) -/
inductive Op where
  | setItem (o p : Name) (v : Bool)
  | renameObject (old new : Name)
  | renameProperty (old new : Name)
  | moveObject (o : Name) (i : Int)
  | moveProperty (p : Name) (i : Int)
  | addObject (o : Name) (ps : List Name)
  | addProperty (p : Name) (os : List Name)
  | removeObject (o : Name)
  | removeProperty (p : Name)
  | removeEmptyObjects
  | removeEmptyProperties
  | setObject (o : Name) (ps : List Name)
  | setProperty (p : Name) (os : List Name)
  | unionUpdate (other : Defn) (ignore : Bool)
  | intersectionUpdate (other : Defn) (ignore : Bool)
deriving Repr

/-- one mutator call: new state and return value (a list of names, empty for `None`) -/
def Defn.step (d : Defn) : Op → Except Err (Defn × List Name)
  | .setItem o p v =>
    let d' : Defn := ⟨uAdd d.objs o, uAdd d.props p, if v then pAdd d.pairs (o, p) else pDiscard d.pairs (o, p)⟩
    .ok (d', [])
  | .renameObject old new => do
    let objs ← uReplace d.objs old new
    .ok (⟨objs, d.props, d.pairs.map fun (o, p) => if o == old then (new, p) else (o, p)⟩, [])
  | .renameProperty old new => do
    let props ← uReplace d.props old new
    .ok (⟨d.objs, props, d.pairs.map fun (o, p) => if p == old then (o, new) else (o, p)⟩, [])
  | .moveObject o i => do
    let objs ← uMove d.objs o i
    .ok (⟨objs, d.props, d.pairs⟩, [])
  | .moveProperty p i => do
    let props ← uMove d.props p i
    .ok (⟨d.objs, props, d.pairs⟩, [])
  | .addObject o ps =>
    .ok (⟨uAdd d.objs o, uIor d.props ps, ps.foldl (fun acc p => pAdd acc (o, p)) d.pairs⟩, [])
  | .addProperty p os =>
    .ok (⟨uIor d.objs os, uAdd d.props p, os.foldl (fun acc o => pAdd acc (o, p)) d.pairs⟩, [])
  | .removeObject o =>
    if d.objs.contains o then
      .ok (⟨d.objs.filter (· != o), d.props, d.pairs.filter fun (o', p) => !(o' == o && d.props.contains p)⟩, [])
    else .error .keyError
  | .removeProperty p =>
    if d.props.contains p then
      .ok (⟨d.objs, d.props.filter (· != p), d.pairs.filter fun (o, p') => !(p' == p && d.objs.contains o)⟩, [])
    else .error .keyError
  | .removeEmptyObjects =>
    let empty := d.objs.filter fun o => !(d.pairs.any fun (o', _) => o' == o)
    .ok (⟨d.objs.filter (!empty.contains ·), d.props, d.pairs⟩, empty)
  | .removeEmptyProperties =>
    let empty := d.props.filter fun p => !(d.pairs.any fun (_, p') => p' == p)
    .ok (⟨d.objs, d.props.filter (!empty.contains ·), d.pairs⟩, empty)
  | .setObject o ps =>
    let props := uIor d.props ps
    let pairs := props.foldl (fun acc p => if ps.contains p then pAdd acc (o, p) else pDiscard acc (o, p)) d.pairs
    .ok (⟨uAdd d.objs o, props, pairs⟩, [])
  | .setProperty p os =>
    let objs := uIor d.objs os
    let pairs := objs.foldl (fun acc o => if os.contains o then pAdd acc (o, p) else pDiscard acc (o, p)) d.pairs
    .ok (⟨objs, uAdd d.props p, pairs⟩, [])
  | .unionUpdate other ignore =>
    if !ignore && !(conflicts d other).isEmpty then .error .valueError
    else .ok (⟨uIor d.objs other.objs, uIor d.props other.props, other.pairs.foldl pAdd d.pairs⟩, [])
  | .intersectionUpdate other ignore =>
    if !ignore && !(conflicts d other).isEmpty then .error .valueError
    else .ok (⟨uIand d.objs other.objs, uIand d.props other.props, d.pairs.filter other.pairs.contains⟩, [])

/-! ### deriving operations (new, independent value) -/

/-- `Definition.copy()`: an independent definition with the same contents -/
def Defn.copy (d : Defn) : Defn := ⟨d.objs, d.props, d.pairs⟩

/-- `Definition.inverted()` -/
def Defn.inverted (d : Defn) : Defn :=
  ⟨d.objs, d.props, d.objs.flatMap fun o => d.props.filterMap fun p =>
    if d.pairs.contains (o, p) then none else some (o, p)⟩

/-- `Definition.transposed()` -/
def Defn.transposed (d : Defn) : Defn := ⟨d.props, d.objs, d.pairs.map fun (o, p) => (p, o)⟩

/-- `Definition.take(objects, properties, reorder)`; `none` = argument not given.
The `KeyError` carries the unknown names in the given order. -/
def Defn.take (d : Defn) (objects properties : Option (List Name)) (reorder : Bool) :
    Except (Err × List Name) Defn :=
  let os := objects.getD []
  let ps := properties.getD []
  if (!os.isEmpty && !os.all d.objs.contains) || (!ps.isEmpty && !ps.all d.props.contains) then
    .error (.keyError, uIor (uRsub d.objs os) (uRsub d.props ps))
  else
    let obj := if reorder then (match objects with | some l => uniq l | none => d.objs)
               else (match objects with | some l => uIand d.objs l | none => d.objs)
    let prop := if reorder then (match properties with | some l => uniq l | none => d.props)
                else (match properties with | some l => uIand d.props l | none => d.props)
    .ok ⟨obj, prop, obj.flatMap fun o => prop.filterMap fun p =>
      if d.pairs.contains (o, p) then some (o, p) else none⟩

/-- `Definition.union(other, ignore_conflicts)` -/
def Defn.union (d other : Defn) (ignore : Bool) : Except Err Defn :=
  (d.step (.unionUpdate other ignore)).map (·.1)

/-- `Definition.intersection(other, ignore_conflicts)` -/
def Defn.intersection (d other : Defn) (ignore : Bool) : Except Err Defn :=
  (d.step (.intersectionUpdate other ignore)).map (·.1)

/-- `d[o, p]` -/
def Defn.getItem (d : Defn) (o p : Name) : Except Err Bool :=
  if d.objs.contains o && d.props.contains p then .ok (d.pairs.contains (o, p)) else .error .keyError

end FCA
