import FCA.Model.FcboStack
import Mathlib.Tactic
/-
The stack machine of `Model/FcboStack.lean` refines the recursive `fcboNode`.

* `stackInner_spec`: the inner loop on the machine = `fcboInner` on the contents of the referenced cell; the
  cell ends up holding `fcboInner`'s final list, the pushed entries are `fcboInner`'s children with that reference.
* `stackStep_concat`: one machine step.
* `stackRun_denot`: for an arbitrary stack, the machine's output is the concatenation, from the top of the stack
  downwards, of the `fcboNode` outputs of its entries, each evaluated with the current contents of its cell.
-/
namespace FCA

/-! ### heap -/

theorem SHeap.read_of_lt {h : SHeap} {r : Nat} (hr : r < h.length) : h.read r = h[r] := by
  simp [SHeap.read, List.getD_eq_getElem?_getD, hr]

theorem SHeap.read_append_of_lt (h t : SHeap) {r : Nat} (hr : r < h.length) : SHeap.read (h ++ t) r = h.read r := by
  simp [SHeap.read, List.getD_eq_getElem?_getD, List.getElem?_append_left hr]

theorem SHeap.read_append_length (h : SHeap) (x : Array Nat) : SHeap.read (h ++ [x]) h.length = x := by
  simp [SHeap.read, List.getD_eq_getElem?_getD]

theorem SHeap.read_set_self {h : SHeap} {r : Nat} (hr : r < h.length) (v : Array Nat) :
    SHeap.read (h.set r v) r = v := by
  simp [SHeap.read, List.getD_eq_getElem?_getD, hr]

theorem SHeap.set_read_self (h : SHeap) (r : Nat) : h.set r (h.read r) = h := by
  by_cases hr : r < h.length
  · rw [SHeap.read_of_lt hr]; exact List.set_getElem_self hr
  · exact List.set_eq_of_length_le (by omega)

theorem SHeap.set_append_length (h : SHeap) (x v : Array Nat) : (h ++ [x]).set h.length v = h ++ [v] := by
  simp

/-! ### the recursive model: accumulator, unfolding, fuel stability, size -/

theorem fcboInner_acc (S : Side) (nd : FNode) : ∀ (js : List Nat) (sets : Array Nat) (acc : List (Nat × FNode)),
    fcboInner S nd js sets acc =
      (acc.reverse ++ (fcboInner S nd js sets []).1, (fcboInner S nd js sets []).2) := by
  intro js
  induction js with
  | nil => intro sets acc; simp [fcboInner]
  | cons j js ih =>
    intro sets acc
    simp only [fcboInner]
    split_ifs
    · exact ih _ _
    · rw [ih sets (_ :: acc), ih sets [_]]; simp
    · exact ih _ _
    · exact ih _ _

/-- one pass of the loop of `fcboInner` with the children consed in front -/
theorem fcboInner_cons (S : Side) (nd : FNode) (j : Nat) (js : List Nat) (sets : Array Nat) :
    fcboInner S nd (j :: js) sets [] =
      if 2 ^ j &&& nd.own ≠ 0 then fcboInner S nd js sets [] else
      if sets[j]! &&& (2 ^ j - 1) &&& nd.own = sets[j]! &&& (2 ^ j - 1) then
        if S.prime (nd.other &&& S.col j) &&& (2 ^ j - 1) &&& nd.own = S.prime (nd.other &&& S.col j) &&& (2 ^ j - 1) then
          ((j, ⟨S.prime (nd.other &&& S.col j), nd.other &&& S.col j⟩) :: (fcboInner S nd js sets []).1,
            (fcboInner S nd js sets []).2)
        else fcboInner S nd js (sets.set! j (S.prime (nd.other &&& S.col j))) []
      else fcboInner S nd js sets [] := by
  rw [fcboInner]
  dsimp only
  split_ifs
  · rfl
  · rw [fcboInner_acc]; simp
  · rfl
  · rfl

/-- the `j`s of the children form a sublist of the candidates -/
theorem fcboInner_sublist (S : Side) (nd : FNode) : ∀ (js : List Nat) (sets : Array Nat),
    ((fcboInner S nd js sets []).1.map Prod.fst).Sublist js := by
  intro js
  induction js with
  | nil => intro sets; simp [fcboInner]
  | cons j js ih =>
    intro sets
    rw [fcboInner_cons]
    split_ifs
    · exact (ih _).cons _
    · simpa using (ih sets)
    · exact (ih _).cons _
    · exact (ih _).cons _

theorem fcboInner_mem_ge (S : Side) (nd : FNode) (idx : Nat) (sets : Array Nat) (p : Nat × FNode)
    (hp : p ∈ (fcboInner S nd (List.range' idx (S.width - idx)).reverse sets []).1) :
    idx ≤ p.1 ∧ p.1 < S.width := by
  have h1 : p.1 ∈ (fcboInner S nd (List.range' idx (S.width - idx)).reverse sets []).1.map Prod.fst :=
    List.mem_map_of_mem hp
  have h2 := (fcboInner_sublist S nd _ sets).subset h1
  simp only [List.mem_reverse, List.mem_range'_1] at h2
  omega

theorem fcboNode_succ_eq (S : Side) (fuel : Nat) (nd : FNode) (idx : Nat) (sets : Array Nat) :
    fcboNode S (fuel + 1) nd idx sets =
      nd :: (if idx = S.width ∨ nd.other = 0 then [] else
        (fcboInner S nd (List.range' idx (S.width - idx)).reverse sets []).1.reverse.flatMap fun p =>
          fcboNode S fuel p.2 (p.1 + 1) (fcboInner S nd (List.range' idx (S.width - idx)).reverse sets []).2) := by
  rw [fcboNode]

/-- depth fuel `S.width - idx` is enough: any two such fuels give the same list -/
theorem fcboNode_fuel_stable (S : Side) : ∀ (f1 f2 : Nat) (nd : FNode) (idx : Nat) (sets : Array Nat),
    S.width - idx ≤ f1 → S.width - idx ≤ f2 → fcboNode S f1 nd idx sets = fcboNode S f2 nd idx sets := by
  have leaf : ∀ (f : Nat) (nd : FNode) (idx : Nat) (sets : Array Nat), S.width - idx = 0 →
      fcboNode S f nd idx sets = [nd] := by
    intro f nd idx sets h
    cases f with
    | zero => simp [fcboNode]
    | succ f =>
      rw [fcboNode_succ_eq, h]
      simp [fcboInner]
  intro f1
  induction f1 with
  | zero =>
    intro f2 nd idx sets h1 _
    rw [leaf 0 nd idx sets (by omega), leaf f2 nd idx sets (by omega)]
  | succ f1 ih =>
    intro f2 nd idx sets h1 h2
    cases f2 with
    | zero => rw [leaf 0 nd idx sets (by omega), leaf _ nd idx sets (by omega)]
    | succ f2 =>
      rw [fcboNode_succ_eq, fcboNode_succ_eq]
      congr 1
      split_ifs
      · rfl
      · apply List.flatMap_congr
        intro p hp
        have := fcboInner_mem_ge S nd idx sets p (List.mem_reverse.1 hp)
        exact ih f2 _ _ _ (by omega) (by omega)

theorem sum_pow_range' (w : Nat) : ∀ (k idx : Nat), idx + k = w →
    ((List.range' idx k).map fun j => 2 ^ (w - (j + 1))).sum + 1 = 2 ^ k := by
  intro k
  induction k with
  | zero => intro idx _; simp
  | succ k ih =>
    intro idx h
    rw [List.range'_succ, List.map_cons, List.sum_cons, Nat.add_assoc, ih (idx + 1) (by omega)]
    have : w - (idx + 1) = k := by omega
    rw [this]; omega

/-- a node with index `idx` heads a tree of at most `2 ^ (width - idx)` nodes -/
theorem fcboNode_length_le (S : Side) : ∀ (f : Nat) (nd : FNode) (idx : Nat) (sets : Array Nat),
    (fcboNode S f nd idx sets).length ≤ 2 ^ (S.width - idx) := by
  intro f
  induction f with
  | zero => intro nd idx sets; simp [fcboNode, Nat.one_le_two_pow]
  | succ f ih =>
    intro nd idx sets
    rw [fcboNode_succ_eq]
    split_ifs
    · simp [Nat.one_le_two_pow]
    · rw [List.length_cons, List.length_flatMap]
      set ch := (fcboInner S nd (List.range' idx (S.width - idx)).reverse sets []).1 with hch
      set sets' := (fcboInner S nd (List.range' idx (S.width - idx)).reverse sets []).2
      have h1 : (ch.reverse.map fun p => (fcboNode S f p.2 (p.1 + 1) sets').length).sum ≤
          (ch.reverse.map fun p => 2 ^ (S.width - (p.1 + 1))).sum := by
        apply List.sum_le_sum
        intro p _
        exact ih _ _ _
      have h2 : (ch.reverse.map fun p => 2 ^ (S.width - (p.1 + 1))).sum =
          ((ch.map Prod.fst).map fun j => 2 ^ (S.width - (j + 1))).sum := by
        rw [List.map_reverse, List.sum_reverse, List.map_map]; rfl
      have h3 : ((ch.map Prod.fst).map fun j => 2 ^ (S.width - (j + 1))).sum ≤
          (((List.range' idx (S.width - idx)).reverse).map fun j => 2 ^ (S.width - (j + 1))).sum :=
        ((fcboInner_sublist S nd _ sets).map _).sum_le_sum (by intro x _; exact Nat.zero_le _)
      rw [List.map_reverse, List.sum_reverse] at h3
      by_cases hw : idx ≤ S.width
      · have h4 := sum_pow_range' S.width (S.width - idx) idx (by omega)
        omega
      · have h0 : S.width - idx = 0 := by omega
        rw [h0] at h3 ⊢
        simp only [List.range'_zero, List.map_nil, List.sum_nil] at h3
        omega

/-! ### the machine -/

/-- a child of `fcboInner` as a stack entry carrying the shared reference -/
def pushed (ref : Nat) (p : Nat × FNode) : SEntry := (p.2, p.1 + 1, ref)

/-- the inner loop on the machine: the referenced cell ends with `fcboInner`'s final list (all other cells are
untouched), the stack grows by `fcboInner`'s children in push order, all with the same reference -/
theorem stackInner_spec (S : Side) (nd : FNode) (ref : Nat) : ∀ (js : List Nat) (heap : SHeap) (st : List SEntry),
    ref < heap.length →
    stackInner S nd ref js heap st =
      (heap.set ref (fcboInner S nd js (heap.read ref) []).2,
       st ++ (fcboInner S nd js (heap.read ref) []).1.map (pushed ref)) := by
  intro js
  induction js with
  | nil => intro heap st _; simp [stackInner, fcboInner, SHeap.set_read_self]
  | cons j js ih =>
    intro heap st hr
    rw [stackInner, fcboInner_cons]
    dsimp only
    split_ifs
    · exact ih _ _ hr
    · rw [ih _ _ hr]; simp [pushed]
    · rw [ih _ _ (by simpa [SHeap.setItem] using hr)]
      simp only [SHeap.setItem, SHeap.read_set_self hr, List.set_set]
    · exact ih _ _ hr

/-- the result of one step on a stack with top entry `(nd, idx, ref)` -/
theorem stackStep_concat (S : Side) (heap : SHeap) (st : List SEntry) (nd : FNode) (idx ref : Nat) :
    stackStep S heap (st ++ [(nd, idx, ref)]) =
      some (nd,
        if idx = S.width ∨ nd.other = 0 then (heap, st) else
          (heap ++ [(fcboInner S nd (List.range' idx (S.width - idx)).reverse (heap.read ref) []).2],
           st ++ (fcboInner S nd (List.range' idx (S.width - idx)).reverse (heap.read ref) []).1.map
             (pushed heap.length))) := by
  unfold stackStep
  simp only [List.getLast?_append, List.getLast?_singleton, Option.some_or, List.dropLast_concat]
  split_ifs
  · rfl
  · simp only [SHeap.copy]
    rw [stackInner_spec S nd heap.length _ _ _ (by simp)]
    simp only [SHeap.read_append_length, SHeap.set_append_length]

theorem stackStep_nil (S : Side) (heap : SHeap) : stackStep S heap [] = none := by
  simp [stackStep]

/-- a step only allocates: old cells are never modified -/
theorem stackStep_prefix (S : Side) (heap heap' : SHeap) (st st' : List SEntry) (nd : FNode)
    (h : stackStep S heap st = some (nd, heap', st')) : heap <+: heap' := by
  rcases List.eq_nil_or_concat st with rfl | ⟨st0, e, rfl⟩
  · simp [stackStep_nil] at h
  · obtain ⟨nd0, idx, ref⟩ := e
    rw [List.concat_eq_append, stackStep_concat] at h
    simp only [Option.some.injEq, Prod.mk.injEq] at h
    obtain ⟨_, h⟩ := h
    split_ifs at h
    · simp only [Prod.mk.injEq] at h; rw [← h.1]
    · simp only [Prod.mk.injEq] at h; rw [← h.1]; exact List.prefix_append _ _

theorem stackAfter_prefix (S : Side) : ∀ (k : Nat) (heap : SHeap) (st : List SEntry),
    heap <+: (stackAfter S k heap st).1 := by
  intro k
  induction k with
  | zero => intro heap st; simp [stackAfter]
  | succ k ih =>
    intro heap st
    rw [stackAfter]
    split
    · exact List.prefix_refl _
    · next _ heap' st' h => exact (stackStep_prefix S _ _ _ _ _ h).trans (ih _ _)

theorem SHeap.read_of_prefix {h h' : SHeap} (hp : h <+: h') {r : Nat} (hr : r < h.length) :
    h'.read r = h.read r := by
  obtain ⟨t, rfl⟩ := hp
  exact SHeap.read_append_of_lt h t hr

/-- every reference on the stack points into the heap -/
def SValid (heap : SHeap) (st : List SEntry) : Prop := ∀ e ∈ st, e.2.2 < heap.length

instance (heap : SHeap) (st : List SEntry) : Decidable (SValid heap st) := by unfold SValid; infer_instance

/-- the output the recursive model assigns to a machine state: top of the stack (= end of the list) first, every
entry with the current contents of its cell -/
def denot (S : Side) (heap : SHeap) (st : List SEntry) : List FNode :=
  st.reverse.flatMap fun e => fcboNode S S.width e.1 e.2.1 (heap.read e.2.2)

theorem denot_nil (S : Side) (heap : SHeap) : denot S heap [] = [] := rfl

theorem denot_append (S : Side) (heap : SHeap) (st1 st2 : List SEntry) :
    denot S heap (st1 ++ st2) = denot S heap st2 ++ denot S heap st1 := by
  simp [denot, List.flatMap_append]

theorem denot_frame (S : Side) (heap t : SHeap) (st : List SEntry) (hv : SValid heap st) :
    denot S (heap ++ t) st = denot S heap st := by
  unfold denot
  apply List.flatMap_congr
  intro e he
  rw [SHeap.read_append_of_lt heap t (hv e (List.mem_reverse.1 he))]

/-- the denotation of a state = the node on top, then the denotation of the next state -/
theorem denot_step (S : Side) (heap : SHeap) (st : List SEntry) (nd : FNode) (idx ref : Nat)
    (hv : SValid heap st) :
    denot S heap (st ++ [(nd, idx, ref)]) =
      nd :: (if idx = S.width ∨ nd.other = 0 then denot S heap st else
          denot S
           (heap ++ [(fcboInner S nd (List.range' idx (S.width - idx)).reverse (heap.read ref) []).2])
           (st ++ (fcboInner S nd (List.range' idx (S.width - idx)).reverse (heap.read ref) []).1.map
             (pushed heap.length))) := by
  rw [denot_append]
  have h1 : denot S heap [(nd, idx, ref)] = fcboNode S (S.width + 1) nd idx (heap.read ref) := by
    simp only [denot, List.reverse_singleton, List.flatMap_singleton]
    exact fcboNode_fuel_stable S _ _ _ _ _ (by omega) (by omega)
  rw [h1, fcboNode_succ_eq, List.cons_append]
  congr 1
  split_ifs
  · rfl
  · rw [denot_append, denot_frame S heap _ st hv]
    congr 1
    simp only [denot, ← List.map_reverse, List.flatMap_map, pushed, SHeap.read_append_length]

theorem SValid_step (S : Side) (heap : SHeap) (st : List SEntry) (nd : FNode) (idx ref : Nat)
    (hv : SValid heap (st ++ [(nd, idx, ref)])) :
    SValid heap st ∧
    SValid (heap ++ [(fcboInner S nd (List.range' idx (S.width - idx)).reverse (heap.read ref) []).2])
           (st ++ (fcboInner S nd (List.range' idx (S.width - idx)).reverse (heap.read ref) []).1.map
             (pushed heap.length)) := by
  have h0 : SValid heap st := fun e he => hv e (List.mem_append_left _ he)
  refine ⟨h0, ?_⟩
  intro e he
  rcases List.mem_append.1 he with h | h
  · have := h0 e h; simp; omega
  · obtain ⟨p, _, rfl⟩ := List.mem_map.1 h
    simp [pushed]

/-- generalisation to an arbitrary stack: with step fuel at least the number of nodes still to be yielded, the
machine yields the denotation of its state and ends with the empty stack -/
theorem stackRun_denot (S : Side) : ∀ (fuel : Nat) (heap : SHeap) (st : List SEntry),
    SValid heap st → (denot S heap st).length ≤ fuel →
    stackRun S fuel heap st = denot S heap st ∧ (stackAfter S fuel heap st).2 = [] := by
  intro fuel
  induction fuel with
  | zero =>
    intro heap st _ hl
    rcases List.eq_nil_or_concat st with rfl | ⟨st0, e, rfl⟩
    · simp [stackRun, stackAfter, denot_nil]
    · obtain ⟨nd, idx, ref⟩ := e
      rw [List.concat_eq_append, denot_append] at hl
      have : 0 < (denot S heap [(nd, idx, ref)]).length := by
        simp only [denot, List.reverse_singleton, List.flatMap_singleton]
        cases S.width <;> simp [fcboNode]
      simp only [List.length_append] at hl
      omega
  | succ fuel ih =>
    intro heap st hv hl
    rcases List.eq_nil_or_concat st with rfl | ⟨st0, e, rfl⟩
    · simp [stackRun, stackAfter, stackStep_nil, denot_nil]
    · obtain ⟨nd, idx, ref⟩ := e
      rw [List.concat_eq_append] at hv hl ⊢
      obtain ⟨hv0, hv1⟩ := SValid_step S heap st0 nd idx ref hv
      rw [denot_step S heap st0 nd idx ref hv0] at hl ⊢
      rw [stackRun, stackAfter, stackStep_concat]
      dsimp only
      split_ifs at hl ⊢ with hleaf
      · simp only [List.length_cons] at hl
        obtain ⟨h1, h2⟩ := ih heap st0 hv0 (by omega)
        exact ⟨by rw [h1], h2⟩
      · simp only [List.length_cons] at hl
        obtain ⟨h1, h2⟩ := ih _ _ hv1 (by omega)
        exact ⟨by rw [h1], h2⟩

/-- once the stack is empty, more fuel changes neither the output nor the state -/
theorem stackRun_fuel_mono (S : Side) : ∀ (fuel fuel' : Nat) (heap : SHeap) (st : List SEntry),
    (stackAfter S fuel heap st).2 = [] → fuel ≤ fuel' →
    stackRun S fuel' heap st = stackRun S fuel heap st ∧ stackAfter S fuel' heap st = stackAfter S fuel heap st := by
  intro fuel
  induction fuel with
  | zero =>
    intro fuel' heap st h _
    simp only [stackAfter] at h
    subst h
    cases fuel' <;> simp [stackRun, stackAfter, stackStep_nil]
  | succ fuel ih =>
    intro fuel' heap st h hle
    obtain ⟨f, rfl⟩ : ∃ f, fuel' = f + 1 := ⟨fuel' - 1, by omega⟩
    rw [stackAfter] at h
    rw [stackRun, stackRun, stackAfter, stackAfter]
    split
    · exact ⟨rfl, rfl⟩
    · next nd heap' st' hs =>
      rw [hs] at h
      obtain ⟨h1, h2⟩ := ih f heap' st' h (by omega)
      exact ⟨by rw [h1], h2⟩

/-- references stay valid along a run (so `SHeap.read` never falls back to its default) -/
theorem stackAfter_valid (S : Side) : ∀ (k : Nat) (heap : SHeap) (st : List SEntry),
    SValid heap st → SValid (stackAfter S k heap st).1 (stackAfter S k heap st).2 := by
  intro k
  induction k with
  | zero => intro heap st hv; simpa [stackAfter] using hv
  | succ k ih =>
    intro heap st hv
    rcases List.eq_nil_or_concat st with rfl | ⟨st0, e, rfl⟩
    · simpa [stackAfter, stackStep_nil] using hv
    · obtain ⟨nd, idx, ref⟩ := e
      rw [List.concat_eq_append] at hv ⊢
      obtain ⟨hv0, hv1⟩ := SValid_step S heap st0 nd idx ref hv
      rw [stackAfter, stackStep_concat]
      dsimp only
      split_ifs
      · exact ih _ _ hv0
      · exact ih _ _ hv1

end FCA
