import FCA.Proofs.Assemble
import FCA.Proofs.Keys
import FCA.Model.Misc
/-
Helpers for C07 (join / meet): unions and intersections of lists of masks, the closure system of
closed object sets, and the extent lookup table of `mkLattice K`.
-/
namespace FCA.C07
open FCA

/-! ### folds of masks -/

theorem mem_foldl_or (xs : List Nat) (a i : Nat) :
    i ∈ᵇ xs.foldl (· ||| ·) a ↔ i ∈ᵇ a ∨ ∃ x ∈ xs, i ∈ᵇ x := by
  induction xs generalizing a with
  | nil => simp
  | cons x xs ih =>
    simp only [List.foldl_cons, ih, mem_or, List.mem_cons]
    constructor
    · rintro ((h | h) | ⟨y, hy, h⟩)
      · exact Or.inl h
      · exact Or.inr ⟨x, Or.inl rfl, h⟩
      · exact Or.inr ⟨y, Or.inr hy, h⟩
    · rintro (h | ⟨y, rfl | hy, h⟩)
      · exact Or.inl (Or.inl h)
      · exact Or.inl (Or.inr h)
      · exact Or.inr ⟨y, hy, h⟩

theorem mem_foldl_and (xs : List Nat) (a i : Nat) :
    i ∈ᵇ xs.foldl (· &&& ·) a ↔ i ∈ᵇ a ∧ ∀ x ∈ xs, i ∈ᵇ x := by
  induction xs generalizing a with
  | nil => simp
  | cons x xs ih =>
    simp only [List.foldl_cons, ih, mem_and, List.mem_cons]
    constructor
    · rintro ⟨⟨h1, h2⟩, h3⟩
      refine ⟨h1, fun y hy => ?_⟩
      rcases hy with rfl | hy
      · exact h2
      · exact h3 y hy
    · rintro ⟨h1, h2⟩
      exact ⟨⟨h1, h2 x (Or.inl rfl)⟩, fun y hy => h2 y (Or.inr hy)⟩

theorem bounded_foldl_or {k : Nat} {xs : List Nat} (h : ∀ x ∈ xs, Bounded k x) :
    Bounded k (xs.foldl (· ||| ·) 0) := by
  intro i hi
  rw [mem_foldl_or] at hi
  rcases hi with hi | ⟨x, hx, hi⟩
  · exact absurd hi not_mem_zero
  · exact h x hx i hi

theorem bounded_foldl_and (k : Nat) (xs : List Nat) : Bounded k (xs.foldl (· &&& ·) (full k)) := by
  intro i hi
  rw [mem_foldl_and] at hi
  exact mem_full.mp hi.1

/-! ### closure system -/

theorem closed_sub_of_sub {K : Ctx} (h : K.WF) {A U : Nat} (hU : closedObj K U) (hs : A ⊆ᵇ U) :
    K.doubleObj A ⊆ᵇ U := by
  have := doubleObj_mono h hs
  rwa [hU.2] at this

theorem sub_doubleObj {K : Ctx} (h : K.WF) {A : Nat} (hA : Bounded K.n A) : A ⊆ᵇ K.doubleObj A :=
  sub_extent_intent h hA

theorem full_closed {K : Ctx} (h : K.WF) : closedObj K (full K.n) :=
  ⟨bounded_full _, sub_antisymm (bounded_iff_sub_full.mp (bounded_extentOf h _))
    (sub_extent_intent h (bounded_full _))⟩

/-- the intersection of closed sets (inside the universe) is closed -/
theorem foldl_and_closed {K : Ctx} (h : K.WF) {xs : List Nat} (hx : ∀ x ∈ xs, closedObj K x) :
    closedObj K (xs.foldl (· &&& ·) (full K.n)) := by
  have hb := bounded_foldl_and K.n xs
  refine ⟨hb, sub_antisymm ?_ (sub_doubleObj h hb)⟩
  intro i hi
  rw [mem_foldl_and]
  refine ⟨mem_full.mpr (bounded_extentOf h _ i hi), fun x hxm => ?_⟩
  exact closed_sub_of_sub h (hx x hxm) (fun j hj => ((mem_foldl_and xs _ j).mp hj).2 x hxm) i hi

theorem and_closed {K : Ctx} (h : K.WF) {x y : Nat} (hx : closedObj K x) (hy : closedObj K y) :
    closedObj K (x &&& y) := by
  have hb : Bounded K.n (x &&& y) := fun i hi => hx.1 i (mem_and.mp hi).1
  refine ⟨hb, sub_antisymm ?_ (sub_doubleObj h hb)⟩
  intro i hi
  rw [mem_and]
  exact ⟨closed_sub_of_sub h hx (fun j hj => (mem_and.mp hj).1) i hi,
    closed_sub_of_sub h hy (fun j hj => (mem_and.mp hj).2) i hi⟩

theorem bounded_or {k x y : Nat} (hx : Bounded k x) (hy : Bounded k y) : Bounded k (x ||| y) :=
  fun i hi => (mem_or.mp hi).elim (hx i) (hy i)

theorem double_or_absorb {K : Ctx} (h : K.WF) {A B : Nat} (hA : Bounded K.n A) (hB : Bounded K.n B) :
    K.doubleObj (K.doubleObj A ||| B) = K.doubleObj (A ||| B) := by
  have hAB := bounded_or hA hB
  apply sub_antisymm
  · apply closed_sub_of_sub h (doubleObj_closed h _ hAB)
    intro i hi
    rcases mem_or.mp hi with hi | hi
    · exact doubleObj_mono h (fun j hj => mem_or.mpr (Or.inl hj)) i hi
    · exact sub_doubleObj h hAB i (mem_or.mpr (Or.inr hi))
  · apply doubleObj_mono h
    intro i hi
    rcases mem_or.mp hi with hi | hi
    · exact mem_or.mpr (Or.inl (sub_doubleObj h hA i hi))
    · exact mem_or.mpr (Or.inr hi)

/-! ### the extent table of `mkLattice K` -/

theorem extents_eq (K : Ctx) :
    (mkLattice K).map (·.extent) = (lindigLattice K).map (·.extent) := assemble_extents K _

theorem extents_nodup {K : Ctx} (h : K.WF) : ((mkLattice K).map (·.extent)).Nodup := by
  rw [extents_eq]
  exact (lindigLattice_spec h).sorted.imp (fun hlt heq => by rw [heq] at hlt; exact lt_irrefl _ hlt)

theorem mem_extents {K : Ctx} (h : K.WF) (x : Nat) :
    x ∈ (mkLattice K).map (·.extent) ↔ closedObj K x := by
  rw [extents_eq]; exact (lindigLattice_spec h).mem x

theorem extentAt_eq (L : Lattice) (i : Nat) : L.extentAt i = ((L.map (·.extent))[i]?).getD 0 := by
  unfold Lattice.extentAt; rw [List.getElem?_map]

theorem extents_get {L : Lattice} {c : Nat} (hc : c < L.length) :
    (L.map (·.extent))[c]? = some (L.extentAt c) := by
  rw [extentAt_eq, List.getElem?_map]
  rw [List.getElem?_eq_getElem hc]; rfl

theorem extentAt_of_not_lt {L : Lattice} {c : Nat} (hc : ¬ c < L.length) : L.extentAt c = 0 := by
  unfold Lattice.extentAt
  rw [List.getElem?_eq_none (by omega)]; rfl

theorem extentAt_closed {K : Ctx} (h : K.WF) {c : Nat} (hc : c < (mkLattice K).length) :
    closedObj K ((mkLattice K).extentAt c) :=
  (mem_extents h _).mp (List.mem_of_getElem? (extents_get hc))

theorem extentAt_bounded {K : Ctx} (h : K.WF) (c : Nat) : Bounded K.n ((mkLattice K).extentAt c) := by
  by_cases hc : c < (mkLattice K).length
  · exact (extentAt_closed h hc).1
  · rw [extentAt_of_not_lt hc]; exact bounded_zero _

/-- every closed set is found, at a valid position carrying that extent -/
theorem find_closed {K : Ctx} (h : K.WF) {e : Nat} (he : closedObj K e) :
    ∃ k, (mkLattice K).find e = some k ∧ k < (mkLattice K).length ∧ (mkLattice K).extentAt k = e := by
  obtain ⟨k, hk⟩ := indexOf?_of_mem ((mem_extents h e).mpr he)
  refine ⟨k, hk, ?_, ?_⟩
  · simpa using indexOf?_some_lt hk
  · rw [extentAt_eq, indexOf?_some_get hk]; rfl

/-- a valid position is the one found for its own extent (no extent is repeated) -/
theorem find_extentAt {K : Ctx} (h : K.WF) {c : Nat} (hc : c < (mkLattice K).length) :
    (mkLattice K).find ((mkLattice K).extentAt c) = some c :=
  indexOf?_get_nodup (extents_nodup h) (extents_get hc)

/-- `find` is injective on results: the found position determines the extent -/
theorem find_some_extentAt {L : Lattice} {e k : Nat} (hk : L.find e = some k) :
    k < L.length ∧ L.extentAt k = e := by
  refine ⟨by simpa using indexOf?_some_lt hk, ?_⟩
  rw [extentAt_eq, indexOf?_some_get hk]; rfl

/-- the argument lists of `Lattice.join` / `Lattice.meet` as folds over the extents -/
theorem join_fold (L : Lattice) (cs : List Nat) (a : Nat) :
    cs.foldl (fun u c => u ||| ((L[c]?).map (·.extent)).getD 0) a =
      (cs.map L.extentAt).foldl (· ||| ·) a := by
  rw [List.foldl_map]; rfl

theorem meet_fold (L : Lattice) (cs : List Nat) (a : Nat) :
    cs.foldl (fun u c => u &&& ((L[c]?).map (·.extent)).getD 0) a =
      (cs.map L.extentAt).foldl (· &&& ·) a := by
  rw [List.foldl_map]; rfl

/-! ### first and last position -/

theorem lattice_ne_nil {K : Ctx} (h : K.WF) : 0 < (mkLattice K).length := by
  obtain ⟨k, _, hk, _⟩ := find_closed h (bot_closed h)
  omega

theorem extents_sorted {K : Ctx} (h : K.WF) :
    ((mkLattice K).map (·.extent)).Pairwise (fun a b => shortlexKey K.n a < shortlexKey K.n b) := by
  rw [extents_eq]; exact (lindigLattice_spec h).sorted

theorem key_lt_of_pos_lt {K : Ctx} (h : K.WF) {i j : Nat} (hij : i < j) (hj : j < (mkLattice K).length) :
    shortlexKey K.n ((mkLattice K).extentAt i) < shortlexKey K.n ((mkLattice K).extentAt j) := by
  have hs := extents_sorted h
  rw [List.pairwise_iff_getElem] at hs
  have hi' : i < ((mkLattice K).map (·.extent)).length := by simp; omega
  have hj' : j < ((mkLattice K).map (·.extent)).length := by simp; omega
  have := hs i j hi' hj' hij
  have e1 : ((mkLattice K).map (·.extent))[i] = (mkLattice K).extentAt i := by
    have := extents_get (L := mkLattice K) (c := i) (by omega)
    rw [List.getElem?_eq_getElem hi'] at this; exact Option.some.inj this
  have e2 : ((mkLattice K).map (·.extent))[j] = (mkLattice K).extentAt j := by
    have := extents_get (L := mkLattice K) (c := j) hj
    rw [List.getElem?_eq_getElem hj'] at this; exact Option.some.inj this
  rwa [e1, e2] at this

/-- position `0` is the infimum `∅''` -/
theorem extentAt_zero {K : Ctx} (h : K.WF) : (mkLattice K).extentAt 0 = K.doubleObj 0 := by
  obtain ⟨k, _, hk, hke⟩ := find_closed h (show closedObj K (K.doubleObj 0) from bot_closed h)
  by_contra hne
  have hk0 : 0 < k := by
    rcases Nat.eq_zero_or_pos k with rfl | hp
    · exact absurd hke hne
    · exact hp
  have hlt := key_lt_of_pos_lt h hk0 hk
  have hc0 := extentAt_closed h (lattice_ne_nil h)
  have hsub : K.doubleObj 0 ⊆ᵇ (mkLattice K).extentAt 0 := bot_least h hc0
  have := shortlexKey_lt_of_ssub hsub hc0.1 (fun e => hne e.symm)
  rw [hke] at hlt
  omega

/-- the last position is the supremum (all objects) -/
theorem extentAt_last {K : Ctx} (h : K.WF) :
    (mkLattice K).extentAt ((mkLattice K).length - 1) = full K.n := by
  obtain ⟨k, _, hk, hke⟩ := find_closed h (full_closed h)
  by_contra hne
  have hpos := lattice_ne_nil h
  have hkl : k < (mkLattice K).length - 1 := by
    rcases Nat.lt_or_ge k ((mkLattice K).length - 1) with hp | hp
    · exact hp
    · have : k = (mkLattice K).length - 1 := by omega
      rw [this] at hke; exact absurd hke hne
  have hlt := key_lt_of_pos_lt h hkl (by omega)
  have hcl := extentAt_closed h (show (mkLattice K).length - 1 < (mkLattice K).length by omega)
  have hsub : (mkLattice K).extentAt ((mkLattice K).length - 1) ⊆ᵇ full K.n := bounded_iff_sub_full.mp hcl.1
  have := shortlexKey_lt_of_ssub hsub (bounded_full _) hne
  rw [hke] at hlt
  omega

end FCA.C07
