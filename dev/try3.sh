#!/bin/sh
# usage: dev/try3.sh <mutant dir> <property id> -- quick correspondence-only run (--no-build) in the second private worktree
WT=${WT:-/tmp/mut/dev3}; M=$1; P=$2
git -C $WT checkout -q -- . || exit 9
git -C $WT apply $M/patch.diff || { echo "patch does not apply"; exit 9; }
OUT=$(cd /verif && VERIF_REPO=$WT timeout 900 ./check $P --no-build 2>/dev/null | grep -E "VIOLATION|PASS|INTERNAL|KNOWN" | tr '\n' ' ')
git -C $WT checkout -q -- .
echo "$P $(basename $(dirname $M))/$(basename $M): check=[$OUT]"
