import FCA.Proofs.Cbo
/-
Plain Close-by-One (no `next_property_sets`, no empty-`other` cut) and the proof that Fast
Close-by-One produces literally the same list.
-/
namespace FCA
namespace Cbo

/-- plain Close-by-One over a side: the recursion of `fcboNode` with the canonical children only -/
def cboNode (S : Side) : Nat → FNode → Nat → List FNode
  | 0, nd, _ => [nd]
  | fuel+1, nd, idx =>
    nd :: (List.range' idx (S.width - idx)).flatMap (fun j =>
      match child S nd j with
      | none => []
      | some p => cboNode S fuel p.2 (p.1 + 1))

variable {S : Side} {der : Nat → Nat}

theorem fcboNode_eq_cboNode (ok : SideOK S der) : ∀ (fuel : Nat) (nd : FNode) (idx : Nat)
    (sets : Array Nat), cl S der nd.own = nd.own → nd.other = der nd.own →
    SetsInv S der nd.own sets → fcboNode S fuel nd idx sets = cboNode S fuel nd idx := by
  intro fuel
  induction fuel with
  | zero => intro nd idx sets _ _ _; rfl
  | succ fuel ih =>
    intro nd idx sets hB hoth hinv
    obtain ⟨sets', hinv', hnode⟩ := fcboNode_succ ok nd hoth hB fuel idx sets hinv
    have hBb : Bounded S.width nd.own := by rw [← hB]; exact ok.bdd _
    rw [hnode, cboNode]
    congr 1
    apply List.flatMap_congr
    intro j hj
    have hjw : j < S.width := by rw [List.mem_range'_1] at hj; omega
    rcases child_cases ok nd hoth hB j hjw with ⟨hc, _⟩ | ⟨hc, _, _⟩
    · rw [hc]
    · rw [hc]
      refine ih _ _ sets' (ok.idem _) rfl (setsInv_mono ok ?_ hinv')
      exact fun i hi => ok.ext' _ (bounded_or_pow hBb hjw) i (mem_or.mpr (Or.inl hi))

end Cbo
end FCA
