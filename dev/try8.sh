#!/bin/sh
# usage: WT=<private worktree> dev/try8.sh <mutant dir> <property id> [tier]  (development aid)
WT=${WT:-/tmp/mut/dev}; M=$1; P=$2; TIER=${3:-quick}
git -C $WT checkout -q -- . || exit 9; git -C $WT clean -fdq
(cd $WT && PYTHONPATH=$WT /venv/bin/python $M/demo.py >/dev/null 2>&1); CLEAN=$?
git -C $WT apply $M/patch.diff || { echo "$P patch does not apply"; exit 9; }
SUITE=$(cd $WT && /venv/bin/python -m pytest -q -p no:cacheprovider 2>&1 | tail -1)
(cd $WT && PYTHONPATH=$WT /venv/bin/python $M/demo.py >/dev/null 2>&1); MUT=$?
OUT=$(cd /verif && VERIF_REPO=$WT VERIF_GEN_DIR=/verif/.work/gen_$(basename $WT) timeout 1500 ./check $P --tier $TIER --no-build 2>/dev/null | grep -E "VIOLATION|PASS|INTERNAL|KNOWN" | tr '\n' ' ')
git -C $WT checkout -q -- .; git -C $WT clean -fdq
echo "$P $(basename $M): demo clean=$CLEAN mutated=$MUT suite=[$SUITE] check=[$OUT]"
