"""C05 - neighbor links are exactly the covering relation."""
from core import guard
from props import lat
import gen


def run(run):
    run.rule = ('contexts as C03; observables: for every concept the sets of upper / lower neighbor extents (no repeats, converse), '
                'Context.neighbors(objects) for all / sampled object subsets; a case = one context or one neighbors() query')
    d = run.driver
    for tab, pc in lat.contexts(run, exh_quick=10, rand_quick=500, wide_quick=30, exh_thorough=14, nmax=9, mmax=9):
        if min(pc.n, pc.m) > 12:
            continue
        extra = {'objects': pc.objects, 'properties': pc.properties, 'bools': pc.bools}
        with guard(run, 'upper_neighbors / lower_neighbors', [pc.line, 'lattice']):
            L = pc.ctx.lattice
            got = {}
            for c in L:
                e = pc.omask(c.extent)
                up = [pc.omask(u.extent) for u in c.upper_neighbors]
                lo = [pc.omask(l.extent) for l in c.lower_neighbors]
                if len(set(up)) != len(up) or len(set(lo)) != len(lo):
                    run.fail('repeated neighbor of concept with extent %d' % e, [up, lo], None, [pc.line, 'lattice'], extra)
                got[e] = (sorted(up), sorted(lo))
                for u in c.upper_neighbors:
                    if not any(l is c for l in u.lower_neighbors):
                        run.fail('upper/lower neighbors are not converse at extent %d' % e, None, None, [pc.line, 'lattice'], extra)
                for l in c.lower_neighbors:
                    if not any(u is c for u in l.upper_neighbors):
                        run.fail('lower/upper neighbors are not converse at extent %d' % e, None, None, [pc.line, 'lattice'], extra)
        model = lat.parse_lattice(d.ask('lattice'))
        want = {c['extent']: (sorted(model[u]['extent'] for u in c['upper']), sorted(model[l]['extent'] for l in c['lower']))
                for c in model}
        run.case(pc.line, gen.nontrivial(tab), {'context': pc.line, 'cover edges': sum(len(v[0]) for v in want.values())})
        if got != want:
            bad = [e for e in set(got) | set(want) if got.get(e) != want.get(e)]
            run.fail('covering relation (extent -> upper extents, lower extents)', {e: got.get(e) for e in bad},
                     {e: want.get(e) for e in bad}, [pc.line, 'lattice'], extra)
        reqs, cases = [], []
        for A in lat.subsets(run, pc.n, limit_all=5, sample=8):
            args = lat.noisy_args(run, pc.olabels(A))
            r = 'cneighbors %d' % A
            with guard(run, 'Context.neighbors(%r)' % (args,), [pc.line, r]):
                res = pc.ctx.neighbors(lat.as_iterable(run, args))
                pairs = [(pc.omask(e), pc.pmask(i)) for e, i in res]
            reqs.append(r)
            cases.append((args, pairs))
        for (args, pairs), r, ans in zip(cases, reqs, d.ask_many(reqs)):
            wantp = [] if ans == '-' else [tuple(map(int, p.split(':'))) for p in ans.split()]
            run.case(pc.line + '|' + r, gen.nontrivial(tab))
            if sorted(pairs) != sorted(wantp):
                run.fail('Context.neighbors(%r)' % (args,), sorted(pairs), sorted(wantp), [pc.line, r], extra)
            if pairs != wantp:
                run.count('neighbors order differs (diagnostic)')
        run.count('contexts')
