import FCA.Proofs.Dot
import FCA.Props.C10
import FCA.Props.C11
/-
C20 — The Graphviz export (`visualize.lattice`, `Lattice.graphviz()`) is a faithful drawing of the
labelled Hasse diagram.

`dotItems L` is the sequence of statements added to the `Digraph`: `node k` for `dot.node('c<k>')`,
`objectLabel k os` / `propertyLabel k ps` for the transparent self-loop carrying
`make_object_label(os)` / `make_property_label(ps)` (the callback is applied to exactly the listed names),
`edge k j` for `dot.edge('c<k>', 'c<j>')` (drawn with `dir=none`).  For `L = Context.lattice` of a
well-formed context:

* one `node` statement per concept (named by its index), nothing else;
* one `edge` statement per covering pair, from the upper concept to its lower neighbor, and nowhere else
  (never in both directions, no loops);
* a label statement precisely for the concepts carrying objects (properties) in the reduced labelling,
  with exactly those objects (properties), at most one per node;
* no statement is emitted twice.
-/
namespace FCA

/-- no statement is emitted twice -/
theorem C20_nodup {K : Ctx} (hK : K.WF) : (dotItems (mkLattice K)).Nodup :=
  C20.dot_nodup (mkLattice_spec hK)

/-- the statements of one concept: node, object label (if any), property label (if any), then the edges
to the lower neighbors by ascending index; concepts in iteration order (by definition of the model) -/
theorem C20_layout (L : Lattice) :
    dotItems L = L.flatMap fun c =>
      [DotItem.node c.index] ++
      (if c.objects.isEmpty then [] else [DotItem.objectLabel c.index c.objects]) ++
      (if c.properties.isEmpty then [] else [DotItem.propertyLabel c.index c.properties]) ++
      (sortBy id c.lower).map (DotItem.edge c.index) := rfl

/-! ### nodes -/

/-- a node is declared exactly for the indexes of the concepts -/
theorem C20_nodes {K : Ctx} (hK : K.WF) (k : Nat) :
    DotItem.node k ∈ dotItems (mkLattice K) ↔ k < (mkLattice K).length :=
  C20.mem_node (mkLattice_spec hK) k

/-- ... each exactly once (`count` w.r.t. the derived `==` of `DotItem`, which is equality) -/
theorem C20_nodes_once {K : Ctx} (hK : K.WF) {k : Nat} (hk : k < (mkLattice K).length) :
    (dotItems (mkLattice K)).count (DotItem.node k) = 1 :=
  C20.count_eq_one (C20_nodup hK) ((C20_nodes hK k).mpr hk)

/-- ... so there are as many node statements as concepts -/
theorem C20_nodes_count {K : Ctx} (hK : K.WF) :
    (dotItems (mkLattice K)).countP C20.isNode = (mkLattice K).length :=
  C20.countP_isNode (mkLattice_spec hK)

/-! ### edges -/

/-- an edge `k → j` is drawn iff the concept at `j` is a lower cover of the concept at `k` -/
theorem C20_edges {K : Ctx} (hK : K.WF) (k j : Nat) :
    DotItem.edge k j ∈ dotItems (mkLattice K) ↔
      ∃ c d, (mkLattice K)[k]? = some c ∧ (mkLattice K)[j]? = some d ∧ closedObj K d.extent ∧
        covers K d.extent c.extent := by
  have S := mkLattice_spec hK
  rw [C20.mem_edge S, C20.lower_iff_covers S]
  constructor
  · rintro ⟨c, d, hc, hd, hcv⟩; exact ⟨c, d, hc, hd, S.closed hd, hcv⟩
  · rintro ⟨c, d, hc, hd, _, hcv⟩; exact ⟨c, d, hc, hd, hcv⟩

/-- ... i.e. iff `j` is listed in `lower_neighbors` of the concept `k` -/
theorem C20_edges_lower {K : Ctx} (hK : K.WF) (k j : Nat) :
    DotItem.edge k j ∈ dotItems (mkLattice K) ↔ ∃ c, (mkLattice K)[k]? = some c ∧ j ∈ c.lower :=
  C20.mem_edge (mkLattice_spec hK) k j

/-- ... equivalently iff `k` is listed in `upper_neighbors` of the concept `j` -/
theorem C20_edges_upper {K : Ctx} (hK : K.WF) (k j : Nat) :
    DotItem.edge k j ∈ dotItems (mkLattice K) ↔ ∃ d, (mkLattice K)[j]? = some d ∧ k ∈ d.upper := by
  have S := mkLattice_spec hK
  rw [C20_edges_lower hK]
  constructor
  · rintro ⟨c, hc, hj⟩
    obtain ⟨d, hd, _⟩ := S.lower_get hc hj
    exact ⟨d, hd, (S.mem_upper_iff_mem_lower hd hc).mpr hj⟩
  · rintro ⟨d, hd, hk⟩
    obtain ⟨c, hc, _⟩ := S.upper_get hd hk
    exact ⟨c, hc, (S.mem_upper_iff_mem_lower hd hc).mp hk⟩

/-- every edge at most once -/
theorem C20_edges_once {K : Ctx} (hK : K.WF) (k j : Nat) :
    (dotItems (mkLattice K)).count (DotItem.edge k j) ≤ 1 :=
  List.nodup_iff_count_le_one.mp (C20_nodup hK) _

/-- edges point from the later (greater) to the earlier concept: never both directions, no loops -/
theorem C20_edges_one_direction {K : Ctx} (hK : K.WF) {k j : Nat}
    (h : DotItem.edge k j ∈ dotItems (mkLattice K)) :
    j < k ∧ k < (mkLattice K).length ∧ DotItem.edge j k ∉ dotItems (mkLattice K) := by
  have S := mkLattice_spec hK
  have key : ∀ {a b : Nat}, DotItem.edge a b ∈ dotItems (mkLattice K) → b < a ∧ a < (mkLattice K).length := by
    intro a b hab
    obtain ⟨c, hc, hb⟩ := (C20_edges_lower hK a b).mp hab
    exact ⟨S.lower_lt hc hb, S.lt_length hc⟩
  refine ⟨(key h).1, (key h).2, fun h' => ?_⟩
  have := (key h).1
  have := (key h').1
  omega

/-- the edge statements in emission order: by ascending tail, then ascending head -/
theorem C20_edges_sorted {K : Ctx} (hK : K.WF) :
    (C20.edgePairs (mkLattice K)).Pairwise (fun p q => p.1 < q.1 ∨ (p.1 = q.1 ∧ p.2 < q.2)) :=
  C20.edgePairs_sorted (mkLattice_spec hK)

/-! ### labels -/

/-- an object label is attached exactly to the concepts with a non-empty `objects` label, carrying it -/
theorem C20_labels_objects {K : Ctx} (hK : K.WF) (k : Nat) (os : List Nat) :
    DotItem.objectLabel k os ∈ dotItems (mkLattice K) ↔
      ∃ c, (mkLattice K)[k]? = some c ∧ c.objects ≠ [] ∧ os = c.objects :=
  C20.mem_olabel (mkLattice_spec hK) k os

theorem C20_labels_properties {K : Ctx} (hK : K.WF) (k : Nat) (ps : List Nat) :
    DotItem.propertyLabel k ps ∈ dotItems (mkLattice K) ↔
      ∃ c, (mkLattice K)[k]? = some c ∧ c.properties ≠ [] ∧ ps = c.properties :=
  C20.mem_plabel (mkLattice_spec hK) k ps

/-- at most one object label and one property label per node -/
theorem C20_labels_unique {K : Ctx} (hK : K.WF) (k : Nat) :
    (∀ os os', DotItem.objectLabel k os ∈ dotItems (mkLattice K) →
      DotItem.objectLabel k os' ∈ dotItems (mkLattice K) → os = os') ∧
    (∀ ps ps', DotItem.propertyLabel k ps ∈ dotItems (mkLattice K) →
      DotItem.propertyLabel k ps' ∈ dotItems (mkLattice K) → ps = ps') ∧
    (∀ os, (dotItems (mkLattice K)).count (DotItem.objectLabel k os) ≤ 1) ∧
    (∀ ps, (dotItems (mkLattice K)).count (DotItem.propertyLabel k ps) ≤ 1) := by
  refine ⟨?_, ?_, fun _ => List.nodup_iff_count_le_one.mp (C20_nodup hK) _,
    fun _ => List.nodup_iff_count_le_one.mp (C20_nodup hK) _⟩
  · intro os os' h h'
    obtain ⟨c, hc, _, rfl⟩ := (C20_labels_objects hK k os).mp h
    obtain ⟨c', hc', _, rfl⟩ := (C20_labels_objects hK k os').mp h'
    rw [hc] at hc'
    simp only [Option.some.injEq] at hc'
    rw [hc']
  · intro ps ps' h h'
    obtain ⟨c, hc, _, rfl⟩ := (C20_labels_properties hK k ps).mp h
    obtain ⟨c', hc', _, rfl⟩ := (C20_labels_properties hK k ps').mp h'
    rw [hc] at hc'
    simp only [Option.some.injEq] at hc'
    rw [hc']

/-- the text of a label is made from exactly the objects (properties) whose object (attribute) concept
the node is, in context order (with C10) -/
theorem C20_labels_content {K : Ctx} (hK : K.WF) {k : Nat} {c : LConcept} (hc : (mkLattice K)[k]? = some c) :
    (∀ os, DotItem.objectLabel k os ∈ dotItems (mkLattice K) →
      os.Pairwise (· < ·) ∧ ∀ o, o ∈ os ↔ o < K.n ∧ c.extent = K.doubleObj (2 ^ o)) ∧
    (∀ ps, DotItem.propertyLabel k ps ∈ dotItems (mkLattice K) →
      ps.Pairwise (· < ·) ∧ ∀ p, p ∈ ps ↔ p < K.m ∧ c.extent = K.extentOf (2 ^ p)) := by
  have hm : c ∈ mkLattice K := List.mem_of_getElem? hc
  constructor
  · intro os h
    obtain ⟨c', hc', _, rfl⟩ := (C20_labels_objects hK k os).mp h
    rw [hc] at hc'
    simp only [Option.some.injEq] at hc'
    subst hc'
    exact ⟨C10_object_sorted hK hm, C10_object_label hK hm⟩
  · intro ps h
    obtain ⟨c', hc', _, rfl⟩ := (C20_labels_properties hK k ps).mp h
    rw [hc] at hc'
    simp only [Option.some.injEq] at hc'
    subst hc'
    exact ⟨C10_property_sorted hK hm, C10_property_label hK hm⟩

/-- every object (property) name appears in the label of exactly one node -/
theorem C20_labels_cover {K : Ctx} (hK : K.WF) :
    (∀ o, o < K.n → ∃! k, ∃ os, DotItem.objectLabel k os ∈ dotItems (mkLattice K) ∧ o ∈ os) ∧
    (∀ p, p < K.m → ∃! k, ∃ ps, DotItem.propertyLabel k ps ∈ dotItems (mkLattice K) ∧ p ∈ ps) := by
  have S := mkLattice_spec hK
  constructor
  · intro o ho
    obtain ⟨c, ⟨hc, hoc⟩, huniq⟩ := C10_object_unique hK ho
    obtain ⟨k, hk⟩ := C10.mem_iff_get.mp hc
    refine ⟨k, ⟨c.objects, (C20_labels_objects hK k _).mpr ⟨c, hk, List.ne_nil_of_mem hoc, rfl⟩, hoc⟩, ?_⟩
    rintro k' ⟨os, h, ho'⟩
    obtain ⟨c', hc', _, rfl⟩ := (C20_labels_objects hK k' os).mp h
    have := huniq c' ⟨List.mem_of_getElem? hc', ho'⟩
    subst this
    exact S.pos_inj hc' hk rfl
  · intro p hp
    obtain ⟨c, ⟨hc, hpc⟩, huniq⟩ := C10_property_unique hK hp
    obtain ⟨k, hk⟩ := C10.mem_iff_get.mp hc
    refine ⟨k, ⟨c.properties, (C20_labels_properties hK k _).mpr ⟨c, hk, List.ne_nil_of_mem hpc, rfl⟩, hpc⟩, ?_⟩
    rintro k' ⟨ps, h, hp'⟩
    obtain ⟨c', hc', _, rfl⟩ := (C20_labels_properties hK k' ps).mp h
    have := huniq c' ⟨List.mem_of_getElem? hc', hp'⟩
    subst this
    exact S.pos_inj hc' hk rfl

/-! ### counting the edges -/

/-- the number of edge statements is the sum of the numbers of lower neighbors -/
theorem C20_count {K : Ctx} (hK : K.WF) :
    (dotItems (mkLattice K)).countP C20.isEdge = ((mkLattice K).map (·.lower.length)).sum :=
  C20.countP_isEdge (mkLattice_spec hK)

/-- ... = the number of covering pairs of positions: `P` any finite set holding exactly these pairs -/
theorem C20_count_covering_pairs {K : Ctx} (hK : K.WF) (P : Finset (Nat × Nat))
    (hP : ∀ k j, (k, j) ∈ P ↔
      ∃ c d, (mkLattice K)[k]? = some c ∧ (mkLattice K)[j]? = some d ∧ covers K d.extent c.extent) :
    (dotItems (mkLattice K)).countP C20.isEdge = P.card := by
  have S := mkLattice_spec hK
  have : P = (C20.edgePairs (mkLattice K)).toFinset := by
    ext ⟨k, j⟩
    rw [hP, List.mem_toFinset, C20.mem_edgePairs_iff S]
  rw [this, List.toFinset_card_of_nodup (C20.edgePairs_nodup' S), C20.edgePairs_length]

/-- ... = the number of covering pairs of the concept lattice (pairs of extents `G ≺ D`) -/
theorem C20_count_covering_extents {K : Ctx} (hK : K.WF) (P : Finset (Nat × Nat))
    (hP : ∀ G D, (G, D) ∈ P ↔ closedObj K G ∧ covers K G D) :
    (dotItems (mkLattice K)).countP C20.isEdge = P.card := by
  have S := mkLattice_spec hK
  have : P = (C20.coverPairs (mkLattice K)).toFinset := by
    ext ⟨G, D⟩
    rw [hP, List.mem_toFinset, C20.mem_coverPairs S]
  rw [this, List.toFinset_card_of_nodup (C20.coverPairs_nodup S), ← C20.edgePairs_length]
  unfold C20.coverPairs
  rw [List.length_map]

/-- the hypotheses on `P` are satisfiable for every context -/
example {K : Ctx} (hK : K.WF) : ∃ P : Finset (Nat × Nat), ∀ k j, (k, j) ∈ P ↔
    ∃ c d, (mkLattice K)[k]? = some c ∧ (mkLattice K)[j]? = some d ∧ covers K d.extent c.extent :=
  ⟨(C20.edgePairs (mkLattice K)).toFinset, fun k j => by
    rw [List.mem_toFinset, C20.mem_edgePairs_iff (mkLattice_spec hK)]⟩
example {K : Ctx} (hK : K.WF) : ∃ P : Finset (Nat × Nat), ∀ G D, (G, D) ∈ P ↔ closedObj K G ∧ covers K G D :=
  ⟨(C20.coverPairs (mkLattice K)).toFinset, fun G D => by
    rw [List.mem_toFinset, C20.mem_coverPairs (mkLattice_spec hK)]⟩

/-! ### non-vacuity -/

/-- the diamond of C10 (duplicate rows, a full row, a full column): four nodes, four edges, labels on
infimum and supremum, one label with two objects -/
example : C10_exK.WF := mkCtx_WF _ _ _ rfl (by decide)
example : dotItems (mkLattice C10_exK) =
    [.node 0, .objectLabel 0 [3], .propertyLabel 0 [3],
     .node 1, .objectLabel 1 [0], .propertyLabel 1 [1], .edge 1 0,
     .node 2, .objectLabel 2 [1, 2], .propertyLabel 2 [2], .edge 2 0,
     .node 3, .propertyLabel 3 [0], .edge 3 1, .edge 3 2] := eq_of_beq (by decide +kernel)
example : (dotItems (mkLattice C10_exK)).countP C20.isEdge = 4 := by decide +kernel

/-- one-concept lattice (one object having the one property): a single labelled node, no edge -/
def C20_exK1 : Ctx := mkCtx 1 1 #[0b1]
example : C20_exK1.WF := mkCtx_WF _ _ _ rfl (by decide)
example : dotItems (mkLattice C20_exK1) = [.node 0, .objectLabel 0 [0], .propertyLabel 0 [0]] :=
  eq_of_beq (by decide +kernel)

/-- two-concept lattice: the infimum `(∅, {0})` carries the property, the supremum the object -/
def C20_exK2 : Ctx := mkCtx 1 1 #[0b0]
example : C20_exK2.WF := mkCtx_WF _ _ _ rfl (by decide)
example : dotItems (mkLattice C20_exK2) =
    [.node 0, .propertyLabel 0 [0], .node 1, .objectLabel 1 [0], .edge 1 0] := eq_of_beq (by decide +kernel)

/-- unlabelled supremum and infimum without objects (C10's second example) -/
example : dotItems (mkLattice C10_exK2) =
    [.node 0, .propertyLabel 0 [2],
     .node 1, .objectLabel 1 [0], .propertyLabel 1 [0], .edge 1 0,
     .node 2, .objectLabel 2 [1], .propertyLabel 2 [1], .edge 2 0,
     .node 3, .edge 3 1, .edge 3 2] := eq_of_beq (by decide +kernel)

/-! ### a lattice loaded from its serialized form is drawn the same -/

/-- `graphviz()` of a lattice rebuilt by `Lattice._fromlist` — from the stored list in canonical order
(`fromStored … false`), or from ANY rearrangement of the stored concepts and of their index tuples
through the re-sorting path (`fromStored … true`) — emits exactly the statements of `Context.lattice`;
so every theorem of C20 holds for loaded lattices too -/
theorem C20_loaded_lattice {K : Ctx} (hK : K.WF) :
    dotItems (fromStored K (toStored K (mkLattice K)) false) = dotItems (mkLattice K) ∧
    (∀ (st' : List Stored) (perm newpos : Nat → Nat),
      StoredShuffle (toStored K (mkLattice K)) st' perm newpos →
      dotItems (fromStored K st' true) = dotItems (mkLattice K)) := by
  refine ⟨by rw [C11_roundtrip_ordered hK], fun st' perm newpos hs => ?_⟩
  rw [C11_roundtrip_raw hK hs]

/-- e.g. the unshuffled stored form through the re-sorting path -/
theorem C20_loaded_lattice_raw {K : Ctx} (hK : K.WF) :
    dotItems (fromStored K (toStored K (mkLattice K)) true) = dotItems (mkLattice K) :=
  (C20_loaded_lattice hK).2 _ id id (C11_shuffle_refl _)

/-- non-vacuity: the shuffled stored form of C11's example (concepts in the order 4, 0, 5, 2, 1, 3, all
tuples rearranged), by the theorem and by evaluation -/
example : dotItems (fromStored C11_exK C11_exShuffled true) = dotItems (mkLattice C11_exK) :=
  (C20_loaded_lattice C11_exK_WF).2 _ _ _ C11_exShuffle
example : (dotItems (fromStored C11_exK C11_exShuffled true) == dotItems (mkLattice C11_exK)) = true := by
  decide +kernel
example : (dotItems (mkLattice C11_exK)).countP C20.isEdge = 7 := by decide +kernel

end FCA

#print axioms FCA.C20_nodup
#print axioms FCA.C20_layout
#print axioms FCA.C20_nodes
#print axioms FCA.C20_nodes_once
#print axioms FCA.C20_nodes_count
#print axioms FCA.C20_edges
#print axioms FCA.C20_edges_lower
#print axioms FCA.C20_edges_upper
#print axioms FCA.C20_edges_once
#print axioms FCA.C20_edges_one_direction
#print axioms FCA.C20_edges_sorted
#print axioms FCA.C20_labels_objects
#print axioms FCA.C20_labels_properties
#print axioms FCA.C20_labels_unique
#print axioms FCA.C20_labels_content
#print axioms FCA.C20_labels_cover
#print axioms FCA.C20_count
#print axioms FCA.C20_count_covering_pairs
#print axioms FCA.C20_count_covering_extents
#print axioms FCA.C20_loaded_lattice
#print axioms FCA.C20_loaded_lattice_raw
