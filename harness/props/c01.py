"""C01 - derivation operators are the Galois connection of the table."""
from core import guard
from props import lat
import gen


def run(run):
    run.rule = ('contexts: exhaustive small tables + structured families + stratified random + wide/tall tables; '
                'per context all subsets (<=6 members) or a sample; arguments shuffled with duplicates; '
                'a case = (context, side, subset); non-trivial = context not 1x1 and not constant')
    d = run.driver
    for tab, pc in lat.contexts(run, exh_quick=9, rand_quick=300, wide_quick=60, exh_thorough=13):
        reqs, cases = [], []
        ctx = pc.ctx
        with guard(run, 'objects/properties/bools', [pc.line]):
            if list(ctx.objects) != pc.objects or list(ctx.properties) != pc.properties or list(ctx.bools) != pc.bools:
                run.fail('Context.objects/properties/bools do not reproduce the input',
                         [ctx.objects, ctx.properties, ctx.bools], [pc.objects, pc.properties, pc.bools], [pc.line])
        with guard(run, 'Context.bools after the caller edited an earlier result', [pc.line]):
            got_b = ctx.bools
            if isinstance(got_b, list) and got_b:
                got_b.reverse()
                got_b.append(('junk',))
            if list(ctx.bools) != pc.bools:
                run.fail('Context.bools after the caller edited the list returned before', list(ctx.bools)[:4], pc.bools[:4], [pc.line])
        for side, k, labels, call, tomask, req in (
                ('intension', pc.n, pc.olabels, ctx.intension, pc.pmask, 'intent'),
                ('extension', pc.m, pc.plabels, ctx.extension, pc.omask, 'extent')):
            for S in lat.subsets(run, k):
                args = lat.noisy_args(run, labels(S))
                r = '%s %d' % (req, S)
                with guard(run, '%s(%r)' % (side, args), [pc.line, r]):
                    tup = call(lat.as_iterable(run, args))
                    raw = call(lat.as_iterable(run, args), raw=True)
                    got = tomask(tup)
                    if not hasattr(raw, 'members') or isinstance(raw, tuple):
                        run.fail('%s(raw=True) does not return a bitset' % side, repr(raw), 'a bitset', [pc.line, r])
                    if tuple(raw.members()) != tuple(tup) or int(raw) != got:
                        run.fail('%s raw and tuple forms differ' % side, [list(tup), int(raw)], None, [pc.line, r])
                reqs.append(r)
                cases.append((side, args, got))
        answers = d.ask_many(reqs)
        nt = gen.nontrivial(tab)
        for (what, args, got), req, ans in zip(cases, reqs, answers):
            run.case('%s|%s' % (pc.line, req), nt, {'context': pc.line, 'call': '%s(%r)' % (what, args), 'result_mask': got})
            if str(got) != ans:
                run.fail('%s(%r)' % (what, args), got, ans, [pc.line, req],
                         {'objects': pc.objects, 'properties': pc.properties, 'bools': pc.bools})
        run.count('contexts')
        run.count('wide' if max(pc.n, pc.m) > 28 else 'small')
