#!/bin/sh
# development aid: correspondence-only (--no-build) sweep of every seeded change, 4 shards in parallel, one private worktree each
cd /verif
ls -d seeded/*/ | sed 's|seeded/||;s|/||' > .work/psweep.list
for k in 1 2 3 4; do
  ( WT=/tmp/mut/pw$k
    awk -v k=$k 'NR % 4 == k % 4' .work/psweep.list | while read id; do
      P=${id%%-*}; [ "$id" = "C15-r6m2" ] && P=C08; [ "$id" = "C15-r7m2" ] && P=C10
      git -C $WT checkout -q -- . ; git -C $WT clean -fdq
      if git -C $WT apply /verif/seeded/$id/patch.diff 2>/dev/null; then
        OUT=$(VERIF_REPO=$WT timeout 1200 ./check $P --no-build 2>/dev/null | grep -E "^(VIOLATION|PASS|INTERNAL)" | tr '\n' ' ')
      else
        OUT="patch does not apply"
      fi
      git -C $WT checkout -q -- .
      echo "$id :: $P :: $OUT"
    done > .work/psweep.$k.log 2>&1 ) &
done
wait
cat .work/psweep.[1-4].log > .work/psweep.log
