import FCA.Proofs.FormatsTable
import FCA.Proofs.FormatsCsvLoad
import FCA.Proofs.FormatsFimi
import FCA.Proofs.FormatsWiki
import FCA.Proofs.FormatsStrictTable
import FCA.Proofs.FormatsStrictCsv
import FCA.Proofs.FormatsTableAny
/-
Property C12 — text formats round-trip every representable context.

Model: `FCA/Model/Formats.lean` (strings are code-point lists `Str = List Char`).
Helper lemmas: `FCA/Proofs/Formats{Str,Cxt,Table,TableAny,Csv,CsvLoad,Fimi,Wiki,Strict*}.lean`.

For every format the loader of the model (a transcription of the Python splitter code, for csv of
CPython's `_csv.c` reader) inverts the dumper (the exact text written by Python) on every context
whose labels are representable:

* `.cxt`   : `C12_cxt_roundtrip`    (labels: `CxtLabel`)
* table    : `C12_table_roundtrip`  (labels: `TableLabel`, every indent)
* csv      : `C12_csv_roundtrip`    (arbitrary labels up to the reader's field size limit, both symbol
             sets, symbols sniffed)
* FIMI     : `C12_fimi_rows`, `C12_fimi_text`
* wiki     : `C12_wiki_readback` (export only; read back by a reference reader `readWiki`)

The emitted text follows the documented layout: strict readers written from the format descriptions
alone (no code shared with the loaders) recover the triple:
`C12_strict_table`, `C12_strict_cxt`, `C12_strict_csv`.

Text of an independent writer is loaded as the same context:
`C12_table_any_writer` (any paddings, marks, indentation, comments, blank lines),
`C12_csv_writer_family`, `C12_csv_writer_family_load` (any quoting, CR LF or LF);
a blank line in csv text is refused as by CPython: `C12_csv_blank_line_rejected`.
-/
namespace FCA

/-! ## Label and shape predicates (definitions in `FCA/Proofs/FormatsCxt.lean`, repeated here) -/

example (s : Str) : CxtLabel s ↔
    (s ≠ [] ∧ (∀ c ∈ s.head?, isSpace c = false) ∧ (∀ c ∈ s.getLast?, isSpace c = false) ∧
      '\n' ∉ s) := Iff.rfl

example (s : Str) : TableLabel s ↔
    (s ≠ [] ∧ (∀ c ∈ s.head?, isSpace c = false) ∧ (∀ c ∈ s.getLast?, isSpace c = false) ∧
      '\n' ∉ s ∧ '|' ∉ s ∧ '#' ∉ s) := Iff.rfl

example (objects properties : List Str) (bools : List (List Bool)) :
    Rect objects properties bools ↔
      (objects ≠ [] ∧ properties ≠ [] ∧ bools.length = objects.length ∧
        ∀ r ∈ bools, r.length = properties.length) := Iff.rfl

/-- the predicates are decidable, e.g. labels with inner whitespace, digits, `X`, `.`, delimiters of
the other formats and non-ASCII characters are table labels -/
example : TableLabel ['a', ' ', 'X', '.', ',', '"', '1', 'é', '\t', 'b'] := by decide
example : CxtLabel ['|', '#', ' ', '1', '2'] := by decide
example : ¬ TableLabel [' ', 'a'] := by decide
example : ¬ TableLabel ['a', '|'] := by decide
example : ¬ CxtLabel ['a', '\n', 'b'] := by decide
example : ¬ CxtLabel [] := by decide

/-! ## 1. String primitives -/

/-- `sep.join(parts).split(sep) == parts` if no part contains `sep` (and there is a part) -/
theorem C12_split_join {sep : Char} {parts : List Str} (hne : parts ≠ [])
    (h : ∀ p ∈ parts, sep ∉ p) : splitChar sep (joinWith [sep] parts) = parts :=
  splitChar_joinWith hne h

example : ([['a'], [], ['b', 'c']] : List Str) ≠ [] ∧ ∀ p ∈ ([['a'], [], ['b', 'c']] : List Str), '|' ∉ p := by
  decide

/-- the text `print`ed line by line splits at `\n` into the lines and a final empty string -/
theorem C12_split_unlines {ls : List Str} (h : ∀ l ∈ ls, '\n' ∉ l) :
    splitChar '\n' (unlines ls) = ls ++ [[]] :=
  splitChar_unlines h

/-- `(a + sep + b).partition(sep) == (a, sep, b)` if `sep not in a` -/
theorem C12_partition {sep : Char} {a : Str} (h : sep ∉ a) (b : Str) :
    partitionChar sep (a ++ sep :: b) = (a, true, b) :=
  partitionChar_append_sep h b

/-- `s.partition(sep) == (s, '', '')` if `sep not in s` -/
theorem C12_partition_none {sep : Char} {s : Str} (h : sep ∉ s) :
    partitionChar sep s = (s, false, []) :=
  partitionChar_nosep h

/-- `('%-*s' % (w, s)).strip() == s` for every width when `s` has no leading/trailing whitespace -/
theorem C12_strip_ljust {s : Str} (w : Nat) (hh : ∀ c ∈ s.head?, isSpace c = false)
    (hl : ∀ c ∈ s.getLast?, isSpace c = false) : strip (ljust w s) = s :=
  strip_ljust w hh hl

/-- `(pad + s + pad').strip() == s` for whitespace paddings -/
theorem C12_strip_pad {a b s : Str} (ha : ∀ c ∈ a, isSpace c = true) (hb : ∀ c ∈ b, isSpace c = true)
    (hh : ∀ c ∈ s.head?, isSpace c = false) (hl : ∀ c ∈ s.getLast?, isSpace c = false) :
    strip (a ++ s ++ b) = s :=
  stripBy_pad ha hb hh hl

/-- `('|'*m + s + '|'*n).strip('|') == s` if `s` neither starts nor ends with `|` -/
theorem C12_stripBar {m n : Nat} {s : Str} (hh : ∀ c ∈ s.head?, c ≠ '|')
    (hl : ∀ c ∈ s.getLast?, c ≠ '|') :
    stripBar (List.replicate m '|' ++ s ++ List.replicate n '|') = s := by
  apply stripBy_pad
  · intro c hc; rw [List.eq_of_mem_replicate hc]; rfl
  · intro c hc; rw [List.eq_of_mem_replicate hc]; rfl
  · intro c hc; simpa using hh c hc
  · intro c hc; simpa using hl c hc

/-- `int(str(n)) == n` -/
theorem C12_parseNat_toString (n : Nat) : parseNat? (toString n).toList = some n :=
  parseNat?_toString n

/-! ## 2. `.cxt` -/

/-- `Cxt.loads(Cxt.dumps(objects, properties, bools))` returns the same triple -/
theorem C12_cxt_roundtrip {objects properties : List Str} {bools : List (List Bool)}
    (hr : Rect objects properties bools) (ho : ∀ o ∈ objects, CxtLabel o)
    (hp : ∀ p ∈ properties, CxtLabel p) :
    loadCxt (dumpCxt objects properties bools) = .ok (objects, properties, bools) := by
  obtain ⟨_, hpne, _, hrow⟩ := hr
  apply loadCxt_dumpCxt hpne _ ho hp
  intro r hr' h
  have := hrow r hr'
  rw [h] at this
  exact hpne (List.eq_nil_of_length_eq_zero this.symm)

/-- the same under the weakest shape hypotheses the loader needs: at least one property and no
empty row (no objects at all is fine; the lengths need not even agree) -/
theorem C12_cxt_roundtrip_general {objects properties : List Str} {bools : List (List Bool)}
    (hp : properties ≠ []) (hb : ∀ r ∈ bools, r ≠ [])
    (ho : ∀ o ∈ objects, CxtLabel o) (hpl : ∀ p ∈ properties, CxtLabel p) :
    loadCxt (dumpCxt objects properties bools) = .ok (objects, properties, bools) :=
  loadCxt_dumpCxt hp hb ho hpl

/-- non-vacuity: labels that look like numbers, rows, or contain `X`/`.`/inner whitespace -/
example : loadCxt (dumpCxt [['1'], ['X', '.'], ['a', ' ', 'b']] [['2'], ['.', 'X']]
      [[true, false], [false, false], [true, true]]) =
    .ok ([['1'], ['X', '.'], ['a', ' ', 'b']], [['2'], ['.', 'X']],
      [[true, false], [false, false], [true, true]]) :=
  C12_cxt_roundtrip (by decide) (by decide) (by decide)

/-- the hypotheses are needed: an empty object label is swallowed, … -/
example : loadCxt (dumpCxt [[]] [['p']] [[false]]) = .ok ([['p']], [['.']], []) := by decide
/-- … a leading blank is stripped, … -/
example : loadCxt (dumpCxt [[' ', 'a']] [['p']] [[true]]) = .ok ([['a']], [['p']], [[true]]) := by
  decide
/-- … and with no property the (empty) rows are lost. -/
example : loadCxt (dumpCxt [['a']] [] [[]]) = .ok ([['a']], [], []) := by decide

/-- the emitted text follows the Burmeister layout: the strict reader `strictCxt` (lines `B`, empty,
`n`, `m`, empty, `n` objects, `m` properties, `n` rows of exactly `m` characters `X`/`.`, every line
ends with a line break, nothing else) recovers the triple. Labels are arbitrary single-line strings
here (even empty, or with blanks at the ends), and any shape is fine (no object, no property). -/
theorem C12_strict_cxt {objects properties : List Str} {bools : List (List Bool)}
    (hlen : bools.length = objects.length) (hrow : ∀ r ∈ bools, r.length = properties.length)
    (ho : ∀ o ∈ objects, '\n' ∉ o) (hp : ∀ p ∈ properties, '\n' ∉ p) :
    strictCxt (dumpCxt objects properties bools) = some (objects, properties, bools) :=
  strictCxt_dumpCxt hlen hrow ho hp

/-- the `Rect`/`CxtLabel` form -/
theorem C12_strict_cxt_rect {objects properties : List Str} {bools : List (List Bool)}
    (hr : Rect objects properties bools) (ho : ∀ o ∈ objects, CxtLabel o)
    (hp : ∀ p ∈ properties, CxtLabel p) :
    strictCxt (dumpCxt objects properties bools) = some (objects, properties, bools) :=
  strictCxt_dumpCxt hr.2.2.1 hr.2.2.2 (fun o h => (ho o h).2.2.2) (fun p h => (hp p h).2.2.2)

example : strictCxt (dumpCxt [['1'], [' ', 'X', '.'], []] [['2'], ['.', 'X']]
      [[true, false], [false, false], [true, true]]) =
    some ([['1'], [' ', 'X', '.'], []], [['2'], ['.', 'X']],
      [[true, false], [false, false], [true, true]]) :=
  C12_strict_cxt (by decide) (by decide) (by decide) (by decide)

/-- the strict reader is strict: a missing final line break, a row of the wrong length, a trailing
blank line, a sign in front of a number are refused -/
example : strictCxt "B\n\n1\n1\n\na\np\nX\n".toList = some ([['a']], [['p']], [[true]]) := by decide
example : strictCxt "B\n\n1\n1\n\na\np\nX".toList = none := by decide
example : strictCxt "B\n\n1\n1\n\na\np\nXX\n".toList = none := by decide
example : strictCxt "B\n\n1\n1\n\na\np\nX\n\n".toList = none := by decide
example : strictCxt "B\n\n+1\n1\n\na\np\nX\n".toList = none := by decide
/-- reversed columns are not accepted as the same triple -/
example : strictCxt "B\n\n1\n2\n\na\np\nq\nX.\n".toList ≠
    strictCxt "B\n\n1\n2\n\na\np\nq\n.X\n".toList := by decide

/-! ## 3. table -/

/-- `Table.loads(Table.dumps(objects, properties, bools, indent=indent))` returns the same triple,
for every indent -/
theorem C12_table_roundtrip {objects properties : List Str} {bools : List (List Bool)}
    (hr : Rect objects properties bools) (ho : ∀ o ∈ objects, TableLabel o)
    (hp : ∀ p ∈ properties, TableLabel p) (indent : Nat) :
    loadTable (dumpTable indent objects properties bools) = .ok (objects, properties, bools) :=
  loadTable_dumpTable hr ho hp indent

/-- non-vacuity (all-blank row and column, labels `X`, digits, inner blank, csv delimiters) -/
example : loadTable (dumpTable 4 [['X'], ['a', ' ', 'b'], ['1', ',', '"']] [['p'], ['X', '.']]
      [[true, false], [false, false], [true, false]]) =
    .ok ([['X'], ['a', ' ', 'b'], ['1', ',', '"']], [['p'], ['X', '.']],
      [[true, false], [false, false], [true, false]]) :=
  C12_table_roundtrip (by decide) (by decide) (by decide) 4

/-- the hypotheses are needed: `|` and `#` in a label are taken for syntax, a leading blank is
stripped, an empty property label shifts the flags -/
example : loadTable (dumpTable 0 [['a', '|']] [['p']] [[true]]) = .ok ([['a']], [['p']], [[true]]) := by
  decide
example : loadTable (dumpTable 0 [['a', '#']] [['p']] [[true]]) = .ok ([['a']], [['p']], [[false]]) := by
  decide
example : loadTable (dumpTable 0 [[' ', 'a']] [['p']] [[true]]) = .ok ([['a']], [['p']], [[true]]) := by
  decide
example : loadTable (dumpTable 0 [['a']] [[], ['p']] [[false, true]]) ≠
    .ok ([['a']], [[], ['p']], [[false, true]]) := by decide

/-- the emitted text follows the ASCII-art layout: the strict reader `strictTable` (every line is
`indent` blanks, then cells each closed by `|`, with the `|` of all lines in the same columns; cells
are padded with blanks on the right only; the header's first cell is blank; a data cell is exactly
`X` or blank; no final line break) recovers the triple -/
theorem C12_strict_table {objects properties : List Str} {bools : List (List Bool)}
    (hr : Rect objects properties bools) (ho : ∀ o ∈ objects, TableLabel o)
    (hp : ∀ p ∈ properties, TableLabel p) (indent : Nat) :
    strictTable indent (dumpTable indent objects properties bools) =
      some (objects, properties, bools) :=
  strictTable_dumpTable hr ho hp indent

example : strictTable 4 (dumpTable 4 [['X'], ['a', ' ', 'b'], ['1', ',', '"']] [['p'], ['X', '.']]
      [[true, false], [false, false], [true, false]]) =
    some ([['X'], ['a', ' ', 'b'], ['1', ',', '"']], [['p'], ['X', '.']],
      [[true, false], [false, false], [true, false]]) :=
  C12_strict_table (by decide) (by decide) (by decide) 4

/-- the strict reader is strict: wrong indent, a missing closing `|`, misaligned columns, another
mark, a final line break are refused -/
example : strictTable 0 " |p|\na|X|".toList = some ([['a']], [['p']], [[true]]) := by decide
example : strictTable 1 " |p|\na|X|".toList = none := by decide
example : strictTable 0 " |p\na|X".toList = none := by decide
example : strictTable 0 " |p|\na |X|".toList = none := by decide
example : strictTable 0 " |p|\na|x|".toList = none := by decide
example : strictTable 0 " |p|\na|X|\n".toList = none := by decide

/-! ### text of an independent writer

`dumpTableWith S` (`FCA/Proofs/FormatsTableAny.lean`) writes the table with the layout choices `S`:
any number of blanks in front of every line and on both sides of every cell text (a blank cell
has at least one blank), any mark for each true cell, whitespace and a `#` comment after any line,
blank lines and comment lines between the lines, in front of the header and at the end (so the text
may end with line breaks). -/

example (S : TableStyle) (o p : List Str) (b : List (List Bool)) :
    dumpTableWith S o p b = joinWith ['\n']
      ((S.noise 0).map noiseLine ++ [headerLineW S p] ++
        ((o.zip b).zipIdx.flatMap fun x =>
          (S.noise (x.2 + 1)).map noiseLine ++ [rowLineW S x.2 x.1.1 x.1.2]) ++
        (S.noise (o.length + 1)).map noiseLine) := rfl
example (S : TableStyle) (p : List Str) : headerLineW S p =
    contentLine (S.indent 0) (blanks ((S.pads 0 0).1 + (S.pads 0 0).2) ::
      p.zipIdx.map fun x => padCell (S.pads 0 (x.2 + 1)) x.1) (S.trailer 0) := rfl
example (S : TableStyle) (i : Nat) (o : Str) (row : List Bool) : rowLineW S i o row =
    contentLine (S.indent (i + 1)) (padCell (S.pads (i + 1) 0) o ::
      row.zipIdx.map fun x => flagCellW (S.pads (i + 1) (x.2 + 1)) (S.mark i x.2) x.1)
      (S.trailer (i + 1)) := rfl
example (indent : Nat) (cells : List Str) (tr : Str × Option Str) : contentLine indent cells tr =
    blanks indent ++ (joinWith ['|'] cells ++ ['|']) ++ noiseLine tr := rfl
example (lr : Nat × Nat) (t : Str) : padCell lr t = blanks lr.1 ++ t ++ blanks lr.2 := rfl
example (lr : Nat × Nat) (m : Str) (b : Bool) :
    flagCellW lr m b = if b then padCell lr m else blanks (lr.1 + lr.2 + 1) := rfl
example (n : Nat) : blanks n = List.replicate n ' ' := rfl
example (ws t : Str) : noiseLine (ws, none) = ws ∧ noiseLine (ws, some t) = ws ++ '#' :: t := ⟨rfl, rfl⟩
example (x : Str × Option Str) : NoiseOk x ↔
    ((∀ c ∈ x.1, isSpace c = true ∧ c ≠ '\n') ∧ ∀ t ∈ x.2, '\n' ∉ t) := Iff.rfl
example (S : TableStyle) : S.Ok ↔ ((∀ i j, TableLabel (S.mark i j)) ∧ (∀ k, NoiseOk (S.trailer k)) ∧
    ∀ k, ∀ x ∈ S.noise k, NoiseOk x) := Iff.rfl

/-- `Table.loads` returns the context from the text of any such writer -/
theorem C12_table_any_writer (S : TableStyle) (hS : S.Ok) {objects properties : List Str}
    {bools : List (List Bool)} (hr : Rect objects properties bools)
    (ho : ∀ o ∈ objects, TableLabel o) (hp : ∀ p ∈ properties, TableLabel p) :
    loadTable (dumpTableWith S objects properties bools) = .ok (objects, properties, bools) :=
  loadTable_dumpTableWith S hS hr ho hp

/-- non-vacuity: growing indentation and paddings, two different marks, a trailing comment, a comment
line and a blank line in front, a tab line in between, a final line break -/
def C12_exStyle : TableStyle where
  indent := fun k => k
  pads := fun k j => (j, k + 1 - j)
  mark := fun i j => if (i + j) % 2 = 0 then ['x'] else ['y', 'e', 's']
  trailer := fun k => if k = 1 then ([' '], some [' ', 'c']) else ([], none)
  noise := fun k => if k = 0 then [([], some ['h']), ([], none)] else
    if k = 2 then [(['\t'], none)] else if k = 3 then [([], none)] else []

theorem C12_exStyle_ok : C12_exStyle.Ok := by
  refine ⟨?_, ?_, ?_⟩
  · intro i j
    simp only [C12_exStyle]
    split <;> decide
  · intro k
    simp only [C12_exStyle]
    split <;> decide
  · intro k x hx
    simp only [C12_exStyle] at hx
    split at hx
    · revert x; decide
    · split at hx
      · revert x; decide
      · split at hx
        · revert x; decide
        · simp at hx

example : dumpTableWith C12_exStyle [['a'], ['b', ' ', 'c']] [['p'], ['q'], ['r']]
      [[true, false, true], [false, false, true]] =
    "#h\n\n | p|  q|   r|\n a  | x |   |   x| # c\n\t\n  b c   |    |    |   yes|\n".toList := by
  decide

example : loadTable "#h\n\n | p|  q|   r|\n a  | x |   |   x| # c\n\t\n  b c   |    |    |   yes|\n".toList =
    .ok ([['a'], ['b', ' ', 'c']], [['p'], ['q'], ['r']], [[true, false, true], [false, false, true]]) := by
  decide

/-! ## 4. FIMI -/

/-- `iter_fimi_rows`: row `i` lists exactly the positions of the true cells of row `i`, ascending -/
theorem C12_fimi_rows (bools : List (List Bool)) :
    (fimiRows bools).length = bools.length ∧
    ∀ (i : Nat) (h : i < bools.length) (h' : i < (fimiRows bools).length),
      (∀ j, j ∈ (fimiRows bools)[i] ↔ bools[i][j]? = some true) ∧
      ((fimiRows bools)[i]).Pairwise (· < ·) := by
  refine ⟨by simp [fimiRows_eq], ?_⟩
  intro i h h'
  have e : (fimiRows bools)[i] = fimiRow bools[i] := by simp [fimiRows_eq]
  rw [e]
  exact ⟨fun j => mem_fimiRow, pairwise_fimiRow _⟩

example : fimiRows [[true, false, true], [], [false, false]] = [[0, 2], [], []] := by decide

/-- `Fimi.dumps`: one line per row, and reading the integers of each line gives back the rows -/
theorem C12_fimi_text (bools : List (List Bool)) :
    (splitChar '\n' (dumpFimi bools)).dropLast.map (fun l => (splitWs l).map parseNat?) =
      (fimiRows bools).map (·.map some) :=
  read_dumpFimi bools

/-! ## 5. csv

The reader is a transcription of CPython's `_csv.c` (`parse_process_char`, `Reader_iternext`) for the
excel dialect, fed with the lines of `io.StringIO(source)`: -/

example (text : Str) : csvRead text = csvRecords .init (csvLines text) := rfl
example (text : Str) : csvParse text =
    match csvRead text with
    | (rows, false) => some rows
    | (_, true) => none := rfl
example : csvFieldLimit = 131072 := rfl

/-- hand-written text is read as CPython reads it: a blank line is the record `[]`, a bare CR ends
a record only at the end of a line, an unterminated quote runs to the end of the input, a quote in
the middle of an unquoted field is literal, text after a closing quote is appended -/
example : csvRead "a\r\n\nb".toList = ([[['a']], [], [['b']]], false) := by decide
example : csvRead "a\rb".toList = ([], true) := by decide
example : csvRead "x\na\rb".toList = ([[['x']]], true) := by decide
example : csvRead "a\r".toList = ([[['a']]], false) := by decide
example : csvRead "\"a\nb".toList = ([[['a', '\n', 'b']]], false) := by decide
example : csvRead "a\"b,\"c\"d\n".toList = ([[['a', '"', 'b'], ['c', 'd']]], false) := by decide

/-- a single written field of any content (commas, quotes, CR, LF, empty) is read back; the reader
refuses fields longer than `csv.field_size_limit()` -/
theorem C12_csv_field_roundtrip (s : Str) (hl : s.length ≤ csvFieldLimit) :
    csvParse (csvRow [s]) = some [[s]] := by
  have := csvRead_rows [[s]] (by simp) (by simpa using hl)
  exact csvParse_of_read (by simpa using this)

/-- `csv.reader` inverts `csv.writer` on every list of non-empty rows, any field contents (up to
the reader's field size limit) -/
theorem C12_csv_rows_roundtrip (rows : List (List Str)) (h : ∀ r ∈ rows, r ≠ [])
    (hl : ∀ r ∈ rows, ∀ f ∈ r, f.length ≤ csvFieldLimit) :
    csvParse (rows.flatMap csvRow) = some rows :=
  csvParse_of_read (csvRead_rows rows h hl)

example : (∀ r ∈ ([[[], [',', '"']], [['\r', '\n'], []], [[]]] : List (List Str)), r ≠ []) ∧
    ∀ r ∈ ([[[], [',', '"']], [['\r', '\n'], []], [[]]] : List (List Str)), ∀ f ∈ r,
      f.length ≤ csvFieldLimit := by decide

/-- an empty row is not representable: it is written as an empty line, which is read as the empty
row again, but the loader cannot unpack it (see `C12_csv_blank_line_rejected`) -/
example : csvParse ([[]].flatMap csvRow) = some [[]] := by decide

/-! ### any RFC 4180 writer

A writer may quote any field (it must quote those containing `,` `"` CR LF, and a lone empty
field), and may end records with CR LF or with LF. The definitions are in
`FCA/Proofs/FormatsCsv.lean`; every row is a pair (CR LF?, fields) and every field a pair
(quoted?, content). -/

example (q : Bool) (s : Str) : csvFieldQ q s =
    if q || s.any csvSpecial then ['"'] ++ csvEsc s ++ ['"'] else s := rfl
example (c : Char) : csvSpecial c = (c == ',' || c == '"' || c == '\r' || c == '\n') := rfl
example (s : Str) : csvEsc s = s.flatMap fun c => if c == '"' then ['"', '"'] else [c] := rfl
example (crlf : Bool) (fields : List (Bool × Str)) : csvRowQ crlf fields =
    joinWith [','] (fields.map fun f => csvFieldQ f.1 f.2) ++
      (if crlf then ['\r', '\n'] else ['\n']) := rfl
example (rows : List (Bool × List (Bool × Str))) :
    csvTextQ rows = rows.flatMap fun r => csvRowQ r.1 r.2 := rfl
example (fields : List (Bool × Str)) :
    CsvRowOk fields ↔ (fields ≠ [] ∧ fields ≠ [(false, [])]) := Iff.rfl
/-- the library's writer is the member of the family that quotes only a lone empty field -/
example (fields : List Str) : csvRow fields = csvRowQ true (csvMarks fields) := csvRow_eq fields

/-- the reader returns the rows of every text of the family: arbitrary field contents, any subset
of the fields quoted, CR LF or LF after each record (chosen per record) -/
theorem C12_csv_writer_family (rows : List (Bool × List (Bool × Str)))
    (hok : ∀ r ∈ rows, CsvRowOk r.2) (hl : ∀ r ∈ rows, ∀ f ∈ r.2, f.2.length ≤ csvFieldLimit) :
    csvParse (csvTextQ rows) = some (rows.map fun r => r.2.map (·.2)) :=
  csvParse_of_read (csvRead_textQ rows fun r hr => ⟨hok r hr, hl r hr⟩)

/-- … and the last record may lack its terminator (RFC 4180, rule 2) -/
theorem C12_csv_writer_family_open (rows : List (Bool × List (Bool × Str))) (last : List (Bool × Str))
    (hok : ∀ r ∈ rows, CsvRowOk r.2) (hl : ∀ r ∈ rows, ∀ f ∈ r.2, f.2.length ≤ csvFieldLimit)
    (hokl : CsvRowOk last) (hll : ∀ f ∈ last, f.2.length ≤ csvFieldLimit) :
    csvParse (csvTextQ rows ++ joinWith [','] (last.map fun f => csvFieldQ f.1 f.2)) =
      some ((rows.map fun r => r.2.map (·.2)) ++ [last.map (·.2)]) :=
  csvParse_of_read (csvRead_textQ_open rows last (fun r hr => ⟨hok r hr, hl r hr⟩) hokl hll)

example : csvParse "a,b\r\nc,".toList = some [[['a'], ['b']], [['c'], []]] := by decide

/-- non-vacuity: needlessly quoted fields, mixed terminators, line breaks inside a field -/
example : csvTextQ [(false, [(true, ['a']), (false, [])]), (true, [(true, [])]),
      (false, [(false, ['\n', '"']), (true, ['b', ','])])] =
    "\"a\",\n\"\"\r\n\"\n\"\"\",\"b,\"\n".toList := by decide
example : csvParse "\"a\",\n\"\"\r\n\"\n\"\"\",\"b,\"\n".toList =
    some [[['a'], []], [[]], [['\n', '"'], ['b', ',']]] := by decide

/-! ### the loader -/

example (asInt : Bool) (o p : List Str) (b : List (List Bool)) : csvTable asInt o p b =
    ([] :: p) :: (o.zip b).map fun x => x.1 :: x.2.map (csym asInt) := rfl
example (asInt b : Bool) : csym asInt b =
    if asInt then (if b then ['1'] else ['0']) else (if b then ['X'] else []) := rfl
example (asInt : Bool) (o p : List Str) (b : List (List Bool))
    (marked : List (Bool × List (Bool × Str))) : CsvRendering asInt o p b marked ↔
    ((marked.map fun r => r.2.map (·.2)) = csvTable asInt o p b ∧ ∀ r ∈ marked, CsvRowOk r.2) :=
  Iff.rfl

/-- `Csv.loads(Csv.dumps(objects, properties, bools, bools_as_int=asInt))` returns the same
triple for both symbol sets (sniffed by the loader) and arbitrary labels up to the reader's field
size limit. Only the shape is restricted (at least one object; zero properties are fine). -/
theorem C12_csv_roundtrip (asInt : Bool) {objects properties : List Str} {bools : List (List Bool)}
    (hone : objects ≠ []) (hlen : bools.length = objects.length)
    (hrow : ∀ r ∈ bools, r.length = properties.length)
    (hol : ∀ o ∈ objects, o.length ≤ csvFieldLimit)
    (hpl : ∀ p ∈ properties, p.length ≤ csvFieldLimit) :
    loadCsvE (dumpCsv asInt objects properties bools) = .ok (objects, properties, bools) :=
  loadCsvE_dumpCsv asInt hone hlen hrow hol hpl

/-- the `Rect` form -/
theorem C12_csv_roundtrip_rect (asInt : Bool) {objects properties : List Str}
    {bools : List (List Bool)} (hr : Rect objects properties bools)
    (hol : ∀ o ∈ objects, o.length ≤ csvFieldLimit)
    (hpl : ∀ p ∈ properties, p.length ≤ csvFieldLimit) :
    loadCsvE (dumpCsv asInt objects properties bools) = .ok (objects, properties, bools) :=
  loadCsvE_dumpCsv asInt hr.1 hr.2.2.1 hr.2.2.2 hol hpl

/-- non-vacuity: all-blank first row with the X/blank symbols; empty label, comma, quote, CR LF -/
example : loadCsvE (dumpCsv false [[], ['a', ',', '"'], ['\r', '\n']] [['X'], []]
      [[false, false], [true, false], [false, true]]) =
    .ok ([[], ['a', ',', '"'], ['\r', '\n']], [['X'], []],
      [[false, false], [true, false], [false, true]]) :=
  C12_csv_roundtrip false (by decide) (by decide) (by decide) (by decide) (by decide)

example : Rect [[], ['1']] [['0'], ['X']] [[false, false], [true, false]] := by decide

/-- the loader returns the context from the text of any writer of the family: every rendering of
the table of the context (header with empty corner field, one record per object, cells `X`/blank
or `1`/`0`) with any subset of fields quoted and CR LF or LF after each record -/
theorem C12_csv_writer_family_load (asInt : Bool) {objects properties : List Str}
    {bools : List (List Bool)} (hone : objects ≠ []) (hlen : bools.length = objects.length)
    (hrow : ∀ r ∈ bools, r.length = properties.length)
    (hol : ∀ o ∈ objects, o.length ≤ csvFieldLimit)
    (hpl : ∀ p ∈ properties, p.length ≤ csvFieldLimit)
    {marked : List (Bool × List (Bool × Str))}
    (hm : CsvRendering asInt objects properties bools marked) :
    loadCsvE (csvTextQ marked) = .ok (objects, properties, bools) :=
  loadCsvE_rendering asInt hone hlen hrow hol hpl hm

/-- … also when the last record has no terminator -/
theorem C12_csv_writer_family_load_open (asInt : Bool) {objects properties : List Str}
    {bools : List (List Bool)} (hone : objects ≠ []) (hlen : bools.length = objects.length)
    (hrow : ∀ r ∈ bools, r.length = properties.length)
    (hol : ∀ o ∈ objects, o.length ≤ csvFieldLimit)
    (hpl : ∀ p ∈ properties, p.length ≤ csvFieldLimit)
    {init : List (Bool × List (Bool × Str))} {t : Bool} {last : List (Bool × Str)}
    (hm : CsvRendering asInt objects properties bools (init ++ [(t, last)])) :
    loadCsvE (csvTextQ init ++ joinWith [','] (last.map fun f => csvFieldQ f.1 f.2)) =
      .ok (objects, properties, bools) :=
  loadCsvE_rendering_open asInt hone hlen hrow hol hpl hm

/-- the field size limit is needed: with an object label longer than `csv.field_size_limit()`
`Csv.loads(Csv.dumps(…))` raises `_csv.Error` (field larger than field limit) -/
theorem C12_csv_field_limit_needed (asInt : Bool) {o1 : Str} {os properties : List Str}
    {r1 : List Bool} {rs : List (List Bool)} (hpl : ∀ p ∈ properties, p.length ≤ csvFieldLimit)
    (ho : csvFieldLimit < o1.length) :
    loadCsvE (dumpCsv asInt (o1 :: os) properties (r1 :: rs)) = .error "Error" :=
  loadCsvE_object_too_long asInt hpl ho

example : csvFieldLimit < (List.replicate 131073 'a').length := by
  rw [List.length_replicate]; decide

/-- non-vacuity: every field quoted, LF only -/
example : CsvRendering true [['a'], []] [['p']] [[true], [false]]
    [(false, [(true, []), (true, ['p'])]), (false, [(true, ['a']), (true, ['1'])]),
     (true, [(false, []), (false, ['0'])])] := by decide
example : csvTextQ [(false, [(true, []), (true, ['p'])]), (false, [(true, ['a']), (true, ['1'])]),
     (true, [(false, []), (false, ['0'])])] = "\"\",\"p\"\n\"a\",\"1\"\n,0\r\n".toList := by decide
example : loadCsvE "\"\",\"p\"\n\"a\",\"1\"\n,0\r\n".toList =
    .ok ([['a'], []], [['p']], [[true], [false]]) := by decide

/-- a blank line (`"\r\n"` or `"\n"`) is an empty row, which `for obj, *symbols in rows` (and the
unpacking of the header / the first row) cannot unpack: `ValueError`, wherever the line is —
in front of the header, or after the header and any number of data rows of any rendering —
and whatever follows it. Empty text: `next(reader)` leaks `StopIteration`; so does a header
without a data row. -/
theorem C12_csv_blank_line_rejected :
    loadCsvE [] = .error "StopIteration" ∧
    (∀ (crlf : Bool) (rest : Str), loadCsvE (csvTerm crlf ++ rest) = .error "ValueError") ∧
    (∀ (asInt : Bool) (objects properties : List Str) (bools : List (List Bool))
        (marked : List (Bool × List (Bool × Str))) (crlf : Bool) (rest : Str),
      bools.length = objects.length → (∀ r ∈ bools, r.length = properties.length) →
      (∀ o ∈ objects, o.length ≤ csvFieldLimit) → (∀ p ∈ properties, p.length ≤ csvFieldLimit) →
      CsvRendering asInt objects properties bools marked →
      loadCsvE (csvTextQ marked ++ (csvTerm crlf ++ rest)) = .error "ValueError") ∧
    (∀ (asInt : Bool) (properties : List Str) (marked : List (Bool × List (Bool × Str))),
      (∀ p ∈ properties, p.length ≤ csvFieldLimit) → CsvRendering asInt [] properties [] marked →
      loadCsvE (csvTextQ marked) = .error "StopIteration") := by
  refine ⟨rfl, ?_, ?_, ?_⟩
  · intro crlf rest
    unfold loadCsvE
    rw [csvRead_blank]
  · intro asInt objects properties bools marked crlf rest hlen hrow hol hpl hm
    exact loadCsvE_rendering_blank asInt hlen hrow hol hpl hm crlf rest
  · intro asInt properties marked hpl hm
    unfold loadCsvE
    rw [csvRead_textQ marked (hm.limit (by simp) hpl), hm.1]
    rfl

/-- the same for the library's own text: `dumps` output with a blank line appended (or inserted
after the first `k` objects: take the context of these objects) is refused -/
theorem C12_csv_blank_line_after_dump (asInt : Bool) {objects properties : List Str}
    {bools : List (List Bool)} (hlen : bools.length = objects.length)
    (hrow : ∀ r ∈ bools, r.length = properties.length)
    (hol : ∀ o ∈ objects, o.length ≤ csvFieldLimit)
    (hpl : ∀ p ∈ properties, p.length ≤ csvFieldLimit) (crlf : Bool) (rest : Str) :
    loadCsvE (dumpCsv asInt objects properties bools ++ (csvTerm crlf ++ rest)) =
      .error "ValueError" := by
  obtain ⟨hm, he⟩ := csvRendering_dump asInt objects properties bools
  rw [he]
  exact loadCsvE_rendering_blank asInt hlen hrow hol hpl hm crlf rest

/-- the two texts of the review -/
example : loadCsvE "h,p\r\n\r\na,X\r\n".toList = .error "ValueError" := by decide
example : loadCsvE ",p\na,X\n\n".toList = .error "ValueError" := by decide
/-- `_csv.Error` (new-line character seen in unquoted field) is reported as such -/
example : loadCsvE "a\rb,X\nc,X\n".toList = .error "Error" := by decide
/-- … lazily: an earlier row that cannot be decoded wins -/
example : loadCsvE ",p\na,?\nb\rc\n".toList = .error "ValueError" := by decide
example : loadCsvE ",p\na,X\nb,?\nb\rc\n".toList = .error "KeyError" := by decide
example : loadCsvE ",p\na,X\nb\rc\n".toList = .error "Error" := by decide

/-- without objects there is no data row to sniff from: `next(reader)` leaks `StopIteration` -/
example : loadCsvE (dumpCsv true [] [['p']] []) = .error "StopIteration" := by decide

/-! ### strict RFC 4180 reader -/

/-- the emitted text is RFC 4180: the strict automaton `rfcRecords` (every record ends in CR LF; a
field is either enclosed in quotes with inner quotes doubled, or free of `,` `"` CR LF; no empty
line) reads the rows `csv.writer` wrote -/
theorem C12_strict_csv_rows (rows : List (List Str)) (h : ∀ r ∈ rows, r ≠ []) :
    rfcRecords (rows.flatMap csvRow) = some rows :=
  rfcRecords_rows rows h

/-- … and the strict reader `strictCsv` (header with empty first field, then the properties; per
object a record with the object and exactly one cell `X`/empty resp. `1`/`0` per property)
recovers the triple, for both symbol sets, arbitrary labels and any shape (no object, no property) -/
theorem C12_strict_csv (asInt : Bool) {objects properties : List Str} {bools : List (List Bool)}
    (hlen : bools.length = objects.length) (hrow : ∀ r ∈ bools, r.length = properties.length) :
    strictCsv asInt (dumpCsv asInt objects properties bools) = some (objects, properties, bools) :=
  strictCsv_dumpCsv asInt hlen hrow

example : strictCsv false (dumpCsv false [[], ['a', ',', '"'], ['\r', '\n']] [['X'], []]
      [[false, false], [true, false], [false, true]]) =
    some ([[], ['a', ',', '"'], ['\r', '\n']], [['X'], []],
      [[false, false], [true, false], [false, true]]) :=
  C12_strict_csv false (by decide) (by decide)

/-- the strict reader is strict: bare LF, a missing final CR LF, a blank line, the other symbol
set, text after a closing quote, a non-empty corner field, a surplus cell are refused -/
example : strictCsv false ",p\r\na,X\r\n".toList = some ([['a']], [['p']], [[true]]) := by decide
example : strictCsv false ",p\na,X\n".toList = none := by decide
example : strictCsv false ",p\r\na,X".toList = none := by decide
example : strictCsv false ",p\r\n\r\na,X\r\n".toList = none := by decide
example : strictCsv true ",p\r\na,X\r\n".toList = none := by decide
example : strictCsv false ",p\r\na,\"X\"b\r\n".toList = none := by decide
example : strictCsv false "h,p\r\na,X\r\n".toList = none := by decide
example : strictCsv false ",p\r\na,X,\r\n".toList = none := by decide

/-! ## 6. wiki table (export only)

There is no loader in the library; `readWiki` (`FCA/Proofs/FormatsWiki.lean`) is a reader written
from the layout alone: lines 0/1 are `{| …` and `!`, line 2 is `!` + properties joined by `!!`,
then per object the lines `|-`, `!` + object, `|` + cells joined by `||`, last line `|}`;
a cell is true iff it is not blank. -/

example (src : Str) : readWiki src =
    match splitChar '\n' src with
    | _ :: _ :: props :: rest =>
      some ((readWikiBody rest).map (·.1), split2 '!' (props.drop 1), (readWikiBody rest).map (·.2))
    | _ => none := rfl

example (sep o cells : Str) (rest : List Str) : readWikiBody (sep :: o :: cells :: rest) =
    (o.drop 1, (split2 '|' (cells.drop 1)).map fun c => !(strip c).isEmpty) :: readWikiBody rest := rfl

example (s : Str) : WikiLabel s ↔ (s ≠ [] ∧ '\n' ∉ s ∧ '!' ∉ s) := Iff.rfl

/-- the reference reader recovers objects, properties and cells from `WikiTable.dumps`:
objects are arbitrary single-line strings (even empty), property labels are non-empty
single-line strings without `!` -/
theorem C12_wiki_readback {objects properties : List Str} {bools : List (List Bool)}
    (hpne : properties ≠ []) (hlen : bools.length = objects.length)
    (hrow : ∀ r ∈ bools, r.length = properties.length)
    (ho : ∀ o ∈ objects, '\n' ∉ o) (hp : ∀ p ∈ properties, WikiLabel p) :
    readWiki (dumpWiki objects properties bools) = some (objects, properties, bools) :=
  readWiki_dumpWiki hpne hlen hrow ho hp

example : readWiki (dumpWiki [['a', '|'], [], [' ', 'X']] [['p', ' '], ['|', '}']]
      [[true, false], [false, false], [false, true]]) =
    some ([['a', '|'], [], [' ', 'X']], [['p', ' '], ['|', '}']],
      [[true, false], [false, false], [false, true]]) :=
  C12_wiki_readback (by decide) (by decide) (by decide) (by decide) (by decide)

/-- `!` in a property label makes the header line ambiguous -/
example : readWiki (dumpWiki [['a']] [['p', '!'], ['q']] [[true, false]]) =
    some ([['a']], [['p'], ['!', 'q']], [[true, false]]) := by decide

#print axioms C12_split_join
#print axioms C12_split_unlines
#print axioms C12_partition
#print axioms C12_strip_ljust
#print axioms C12_stripBar
#print axioms C12_parseNat_toString
#print axioms C12_cxt_roundtrip
#print axioms C12_cxt_roundtrip_general
#print axioms C12_table_roundtrip
#print axioms C12_table_any_writer
#print axioms C12_exStyle_ok
#print axioms C12_strict_table
#print axioms C12_strict_cxt
#print axioms C12_strict_cxt_rect
#print axioms C12_strict_csv_rows
#print axioms C12_strict_csv
#print axioms C12_fimi_rows
#print axioms C12_fimi_text
#print axioms C12_csv_field_roundtrip
#print axioms C12_csv_rows_roundtrip
#print axioms C12_csv_roundtrip
#print axioms C12_csv_roundtrip_rect
#print axioms C12_csv_writer_family
#print axioms C12_csv_writer_family_load
#print axioms C12_csv_writer_family_open
#print axioms C12_csv_writer_family_load_open
#print axioms C12_csv_field_limit_needed
#print axioms C12_csv_blank_line_rejected
#print axioms C12_csv_blank_line_after_dump
#print axioms C12_wiki_readback

end FCA
