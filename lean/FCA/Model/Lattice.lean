import FCA.Model.Lindig
/-
Model of `concepts/lattices.py` (`Lattice.__init__`, `_init`, `_annotate`, lookups, `join`/`meet`,
`upset_union`/`downset_union`), `concepts/algorithms/common.py` (`iterunion`), `tools.maximal`,
`Context._minimize` and `Context.neighbors`.

A lattice is the list of its concepts in iteration order; neighbor references are *indexes* into
that list (the Python objects are identified with their position, which `Concept.index` makes
observable).
-/
namespace FCA

structure LConcept where
  extent : Nat
  intent : Nat
  /-- `upper_neighbors` as indexes, in tuple order -/
  upper : List Nat
  /-- `lower_neighbors` as indexes, in tuple order -/
  lower : List Nat
  index : Nat
  dindex : Nat
  /-- `Concept.atoms` as indexes -/
  atoms : List Nat
  /-- reduced labelling: object numbers -/
  objects : List Nat
  /-- reduced labelling: property numbers -/
  properties : List Nat
deriving Repr, BEq

abbrev Lattice := List LConcept

/-- `mapping[extent]` → position of the concept -/
def extentIndex (extents : List Nat) (e : Nat) : Option Nat := indexOf? e extents

/-- positions of `xs` (extents) in `extents`, dropping unknown ones -/
def toIndexes (extents : List Nat) (xs : List Nat) : List Nat := xs.filterMap (extentIndex extents)

/-- `Lattice._annotate`, objects part: object `o` labels `mapping[extension(intension([o]))]` -/
def objectLabels (K : Ctx) (e : Nat) : List Nat :=
  (List.range K.n).filter fun o => K.extentOf (K.intentOf (2 ^ o)) == e

/-- `Lattice._annotate`, properties part: property `p` labels `mapping[extension([p])]` -/
def propertyLabels (K : Ctx) (e : Nat) : List Nat :=
  (List.range K.m).filter fun p => K.extentOf (2 ^ p) == e

/-- `Lattice.__init__` + `_init` from the records of the generator, in yield order -/
def assemble (K : Ctx) (recs : List Rec) : Lattice :=
  let extents := recs.map (·.extent)
  let slKey := fun i => shortlexKey K.n (extents.getD i 0)
  let llKey := fun i => longlexKey K.n (extents.getD i 0)
  let dorder := sortBy llKey (List.range recs.length)
  let uppers := recs.map fun r => sortBy slKey (toIndexes extents r.upper)
  let atoms := uppers.headD []
  (List.range recs.length).filterMap fun k =>
    match recs[k]? with
    | none => none
    | some r =>
      some { extent := r.extent, intent := r.intent
             upper := uppers.getD k []
             lower := sortBy llKey (toIndexes extents r.lower)
             index := k
             dindex := (indexOf? k dorder).getD 0
             atoms := atoms.filter fun a => r.extent ||| extents.getD a 0 == r.extent
             objects := objectLabels K r.extent
             properties := propertyLabels K r.extent }

/-- `Context.lattice` -/
def mkLattice (K : Ctx) : Lattice := assemble K (lindigLattice K)

/-- `lattice._mapping[extent]` as a position -/
def Lattice.find (L : Lattice) (e : Nat) : Option Nat := indexOf? e (L.map (·.extent))

/-- `Lattice.__getitem__(objects)` : `mapping[objects'']` -/
def lookupObjects (K : Ctx) (L : Lattice) (A : Nat) : Option Nat := L.find (K.dpObj A).1
/-- `Lattice.__call__(properties)` and `__getitem__(properties)`: `mapping[properties']` -/
def lookupProperties (K : Ctx) (L : Lattice) (B : Nat) : Option Nat := L.find (K.extentOf B)

/-- `Lattice.join`: `mapping[reduce_or(extents).double()]` -/
def latticeJoin (K : Ctx) (L : Lattice) (cs : List Nat) : Option Nat :=
  L.find (K.doubleObj (cs.foldl (fun u c => u ||| ((L[c]?).map (·.extent)).getD 0) 0))

/-- `Lattice.meet`: `mapping[reduce_and(extents).double()]` -/
def latticeMeet (K : Ctx) (L : Lattice) (cs : List Nat) : Option Nat :=
  L.find (K.doubleObj (cs.foldl (fun u c => u &&& ((L[c]?).map (·.extent)).getD 0) (full K.n)))

/-- `algorithms.iterunion(concepts, sortkey, next_concepts)`; `seen` holds Python's `seen + 1` -/
def iterunionLoop (key : Nat → Nat) (next : Nat → List Nat) : Nat → List Nat → Nat → List Nat → List Nat
  | 0, _, _, acc => acc.reverse
  | fuel+1, heap, seen, acc =>
    match minBy key heap with
    | none => acc.reverse
    | some c =>
      if key c ≥ seen then iterunionLoop key next fuel (heap.erase c ++ next c) (key c + 1) (c :: acc)
      else iterunionLoop key next fuel (heap.erase c) seen acc

def iterunion (key : Nat → Nat) (next : Nat → List Nat) (fuel : Nat) (seeds : List Nat) : List Nat :=
  iterunionLoop key next fuel seeds 0 []

/-- `tools.maximal(iterable, comparison)`: set-dedup, then the items that are not
`comparison`-related to any other item (enumeration order of the set is not modelled: the result
is used as a heap seed only) -/
def maximalBy (cmp : Nat → Nat → Bool) (l : List Nat) : List Nat :=
  let s := l.eraseDups
  if s.length < 2 then s else s.filter fun x => !(s.any fun y => y != x && cmp x y)

def Lattice.extentAt (L : Lattice) (i : Nat) : Nat := ((L[i]?).map (·.extent)).getD 0
def Lattice.upperAt (L : Lattice) (i : Nat) : List Nat := ((L[i]?).map (·.upper)).getD []
def Lattice.lowerAt (L : Lattice) (i : Nat) : List Nat := ((L[i]?).map (·.lower)).getD []
def Lattice.dindexAt (L : Lattice) (i : Nat) : Nat := ((L[i]?).map (·.dindex)).getD 0

/-- enough iterations for any traversal of `L` -/
def Lattice.travFuel (L : Lattice) (seeds : List Nat) : Nat := seeds.length + L.length * L.length + 1

/-- `Lattice.upset_union` (and `Concept.upset` for a singleton) as index sequence -/
def upsetUnion (L : Lattice) (cs : List Nat) : List Nat :=
  let properlySubsumes := fun x y =>
    (L.extentAt x ||| L.extentAt y == L.extentAt x) && (L.extentAt x != L.extentAt y)
  let seeds := maximalBy properlySubsumes cs
  iterunion id L.upperAt (L.travFuel seeds) seeds

/-- `Lattice.downset_union` (and `Concept.downset`) as index sequence -/
def downsetUnion (L : Lattice) (cs : List Nat) : List Nat :=
  let properlyImplies := fun x y =>
    (L.extentAt x &&& L.extentAt y == L.extentAt x) && (L.extentAt x != L.extentAt y)
  let seeds := maximalBy properlyImplies cs
  iterunion L.dindexAt L.lowerAt (L.travFuel seeds) seeds

/-- `combos.shortlex(start, other)` of `bitsets` (breadth-first queue of unions) -/
def shortlexQueue : Nat → List (Nat × List Nat) → List Nat
  | 0, _ => []
  | _, [] => []
  | fuel+1, (current, other) :: queue =>
    let rec inner (cur : Nat) : List Nat → List Nat × List (Nat × List Nat)
      | [] => ([], [])
      | first :: rest =>
        let result := cur ||| first
        let (ys, qs) := inner cur rest
        (result :: ys, if rest.isEmpty then qs else (result, rest) :: qs)
    let (ys, qs) := inner current other
    ys ++ shortlexQueue fuel (queue ++ qs)

/-- `intent.powerset()`: all subsets of `intent` in shortlex order -/
def powersetShortlex (w intent : Nat) : List Nat :=
  let atoms := (membersW w intent).map (2 ^ ·)
  0 :: shortlexQueue (2 ^ atoms.length + 1) [(0, atoms)]

/-- `Context._minimize(extent, intent)` -/
def minimize (K : Ctx) (extent intent : Nat) : List Nat :=
  if extent = 0 then [intent]
  else (powersetShortlex K.m intent).filter fun it => K.extentOf it == extent

/-- `Context.neighbors(objects)` on index level -/
def contextNeighbors (K : Ctx) (A : Nat) : List (Nat × Nat) := neighbors K (K.doubleObj A)

end FCA
