import FCA.Model.Galois
/-
Model of `concepts/junctors.py` (`Relations`, `RelationMeta.__call__`).

The pattern / rank / kind table itself is data the metaclass builds from the class docstrings;
`JTable` is its shape, `pinnedTable` the copy the driver executes, and `FCA/Generated/Junctors.lean`
holds the table re-extracted from the current source on every run.

Pattern code of a pair of columns: bit 0 = some object has both (TT), bit 1 = only left (TF),
bit 2 = only right (FT), bit 3 = neither (FF). Unary: bit 0 = some T, bit 1 = some F.
-/
namespace FCA

structure JEntry where
  name : String
  kind : String
  order : Int
  pattern : Nat
deriving Repr, BEq

structure JTable where
  unary : List JEntry
  binary : List JEntry
deriving Repr

def pinnedTable : JTable where
  unary := [⟨"Contingency", "contingency", 0, 3⟩, ⟨"Contradiction", "contradiction", -2, 2⟩,
            ⟨"Tautology", "tautology", -1, 1⟩]
  binary := [⟨"Orthogonal", "orthogonal", 7, 15⟩, ⟨"Subcontrary", "subcontrary", 6, 7⟩,
             ⟨"Implication", "implication", 4, 13⟩, ⟨"Replication", "replication", 5, 11⟩,
             ⟨"Equivalent", "equivalent", 1, 9⟩, ⟨"Incompatible", "incompatible", 3, 14⟩,
             ⟨"Complement", "complement", 2, 6⟩]

/-- `frozenset(bools)` of one column -/
def unaryCode (n col : Nat) : Nat :=
  (if col ≠ 0 then 1 else 0) ||| (if col ≠ full n then 2 else 0)

/-- `frozenset(zip(lbools, rbools))` -/
def binaryCode (n l r : Nat) : Nat :=
  (if l &&& r ≠ 0 then 1 else 0) ||| (if andNot l r ≠ 0 then 2 else 0) |||
  (if andNot r l ≠ 0 then 4 else 0) ||| (if andNot (full n) (l ||| r) ≠ 0 then 8 else 0)

/-- an entry of the result list: `(kind, left, right, order)`; `right = none` for unary -/
structure RelItem where
  kind : String
  left : Nat
  right : Option Nat
  order : Int
deriving Repr, BEq

/-- `RelationMeta.__call__` for two contingent columns -/
def classifyBinary (T : JTable) (n : Nat) (l r : Nat) (cl cr : Nat) : Option RelItem :=
  match T.binary.find? (·.pattern == binaryCode n cl cr) with
  | none => none
  | some e =>
    if e.name == "Replication" then
      (T.binary.find? (·.name == "Implication")).map fun imp => ⟨imp.kind, r, some l, imp.order⟩
    else some ⟨e.kind, l, some r, e.order⟩

def classifyUnary (T : JTable) (n : Nat) (p col : Nat) : Option (JEntry × RelItem) :=
  (T.unary.find? (·.pattern == unaryCode n col)).map fun e => (e, ⟨e.kind, p, none, e.order⟩)

/-- all pairs `i < j` in `itertools.combinations` order -/
def combos2 : List Nat → List (Nat × Nat)
  | [] => []
  | x :: xs => xs.map (fun y => (x, y)) ++ combos2 xs

/-- stable insertion sort by `order` -/
def insertRel (x : RelItem) : List RelItem → List RelItem
  | [] => [x]
  | y :: ys => if x.order ≤ y.order then x :: y :: ys else y :: insertRel x ys

def sortRel (l : List RelItem) : List RelItem := l.foldr insertRel []

/-- `Relations(properties, extents.bools(), include_unary)` -/
def relations (T : JTable) (K : Ctx) (includeUnary : Bool) : List RelItem :=
  let unary := (List.range K.m).filterMap fun p => classifyUnary T K.n p (K.cols[p]!)
  let contingent := unary.filterMap fun (e, it) => if e.name == "Contingency" then some it.left else none
  let binary := (combos2 contingent).filterMap fun (l, r) =>
    classifyBinary T K.n l r (K.cols[l]!) (K.cols[r]!)
  sortRel ((if includeUnary then unary.map (·.2) else []) ++ binary)

end FCA
