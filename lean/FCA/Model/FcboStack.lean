import FCA.Model.Fcbo
/-
Small-step model of `concepts/algorithms/fcbo.py` (`fast_generate_from`, `fcbo_dual`) with the explicit
stack and reference semantics for the `property_sets` / `object_sets` lists.

```
stack = [(concept0, 0, [infimum] * n)]
while stack:
    concept, index, sets = stack.pop()
    yield concept
    if index == n or not other: continue
    next_sets = sets.copy()                      # allocates
    for j, j_atom in reversed(j_atom[index:]):
        ...
            stack.append((child, j + 1, next_sets))   # shares the reference
        ...
            next_sets[j] = j_own                      # mutates through the reference
```

* the heap is a list of lists (`Array Nat`), a reference is a position; allocation appends; nothing is freed;
* a stack entry is `(node, index, reference)`; `pop` takes the LAST element, `append` adds at the end;
* one machine step is one iteration of `while stack:`.

`Model/Fcbo.lean` is the recursive reading of the same code; `Props/C04Stack.lean` proves that this machine
yields the same nodes in the same order.
-/
namespace FCA

/-- the heap of `list` objects: address = position -/
abbrev SHeap := List (Array Nat)

/-- a stack entry `(concept, index, sets)`; the third component is a reference into the heap -/
abbrev SEntry := FNode × Nat × Nat

/-- dereference (an invalid reference reads as the empty list; never happens in a run, see `SValid`) -/
def SHeap.read (h : SHeap) (r : Nat) : Array Nat := h.getD r #[]

/-- `sets.copy()`: allocate a new list object with the current contents of `r`; returns the new reference -/
def SHeap.copy (h : SHeap) (r : Nat) : SHeap × Nat := (h ++ [h.read r], h.length)

/-- `next_sets[j] = x` through the reference `r`: in-place update of the heap cell -/
def SHeap.setItem (h : SHeap) (r j x : Nat) : SHeap := h.set r ((h.read r).set! j x)

/-- the `for j, j_atom in reversed(j_atom[index:])` loop (`js` is already reversed) run on the machine state:
reads and writes of `next_sets` go through the reference `ref`, pushes go to the end of the stack and carry `ref` -/
def stackInner (S : Side) (nd : FNode) (ref : Nat) : List Nat → SHeap → List SEntry → SHeap × List SEntry
  | [], heap, st => (heap, st)
  | j :: js, heap, st =>
    let jAtom := 2 ^ j
    if jAtom &&& nd.own ≠ 0 then stackInner S nd ref js heap st else
    let jMask := jAtom - 1
    let x := (heap.read ref)[j]! &&& jMask
    if x &&& nd.own = x then
      let jOther := nd.other &&& S.col j
      let jOwn := S.prime jOther
      let jLower := jOwn &&& jMask
      if jLower &&& nd.own = jLower then
        stackInner S nd ref js heap (st ++ [(⟨jOwn, jOther⟩, j + 1, ref)])
      else
        stackInner S nd ref js (heap.setItem ref j jOwn) st
    else stackInner S nd ref js heap st

/-- one iteration of `while stack:`; `none` when the stack is empty, otherwise the yielded node and the new
heap and stack -/
def stackStep (S : Side) (heap : SHeap) (st : List SEntry) : Option (FNode × SHeap × List SEntry) :=
  match st.getLast? with
  | none => none
  | some (nd, idx, ref) =>
    let st := st.dropLast                           -- stack.pop()
    if idx = S.width ∨ nd.other = 0 then some (nd, heap, st) else
    let (heap, ref') := heap.copy ref               -- next_sets = sets.copy()
    let js := (List.range' idx (S.width - idx)).reverse
    let (heap, st) := stackInner S nd ref' js heap st
    some (nd, heap, st)

/-- the nodes yielded by at most `fuel` iterations of `while stack:` -/
def stackRun (S : Side) : Nat → SHeap → List SEntry → List FNode
  | 0, _, _ => []
  | fuel+1, heap, st =>
    match stackStep S heap st with
    | none => []
    | some (nd, heap', st') => nd :: stackRun S fuel heap' st'

/-- the machine state after at most `fuel` iterations (it stays put once the stack is empty) -/
def stackAfter (S : Side) : Nat → SHeap → List SEntry → SHeap × List SEntry
  | 0, heap, st => (heap, st)
  | fuel+1, heap, st =>
    match stackStep S heap st with
    | none => (heap, st)
    | some (_, heap', st') => stackAfter S fuel heap' st'

/-- `fast_generate_from(context)` on the stack machine: `(extent, intent)` pairs in yield order.
Step fuel `2 ^ m` bounds the number of yielded nodes (`C04_stack_length_le`). -/
def fcboStack (K : Ctx) : List (Nat × Nat) :=
  let S : Side := ⟨K.m, fun j => K.cols[j]!, K.intentOf⟩
  let (e0, i0) := K.dpObj (full K.n)   -- Objects.supremum.doubleprime()
  -- stack = [(concept0, 0, [Properties.infimum] * n_properties)]
  (stackRun S (2 ^ K.m) [Array.replicate K.m 0] [(⟨i0, e0⟩, 0, 0)]).map fun nd => (nd.other, nd.own)

/-- `fcbo_dual(context)` on the stack machine -/
def fcboDualStack (K : Ctx) : List (Nat × Nat) :=
  let S : Side := ⟨K.n, fun j => K.rows[j]!, K.extentOf⟩
  let (e0, i0) := K.dpObj 0            -- Objects.infimum.doubleprime()
  (stackRun S (2 ^ K.n) [Array.replicate K.n 0] [(⟨e0, i0⟩, 0, 0)]).map fun nd => (nd.own, nd.other)

end FCA
