import FCA.Proofs.DefnInv
import FCA.Model.Misc
/-
Conflicts, the constructor `Definition(objects, properties, bools)`, `bools`, and the row masks of
`Context(*definition)`.
-/
namespace FCA

/-! ### decidable equality (for closed examples by `decide`) -/

instance Defn.decEq : DecidableEq Defn := fun a b =>
  if h : a.objs = b.objs ∧ a.props = b.props ∧ a.pairs = b.pairs then
    isTrue (by cases a; cases b; simp_all)
  else isFalse (by rintro rfl; simp at h)

instance exceptDecEq {ε α : Type} [DecidableEq ε] [DecidableEq α] : DecidableEq (Except ε α)
  | .ok a, .ok b => if h : a = b then isTrue (by rw [h]) else isFalse (by intro h'; cases h'; exact h rfl)
  | .error a, .error b =>
    if h : a = b then isTrue (by rw [h]) else isFalse (by intro h'; cases h'; exact h rfl)
  | .ok _, .error _ => isFalse (by intro h; cases h)
  | .error _, .ok _ => isFalse (by intro h; cases h)

/-! ### conflicting cells -/

/-- the two definitions disagree on a cell they share -/
def Conflict (d e : Defn) : Prop :=
  ∃ o p, o ∈ d.objs ∧ o ∈ e.objs ∧ p ∈ d.props ∧ p ∈ e.props ∧ ¬((o, p) ∈ d.pairs ↔ (o, p) ∈ e.pairs)

theorem mem_conflicts {d e : Defn} {o p : Name} :
    (o, p) ∈ conflicts d e ↔
      o ∈ d.objs ∧ o ∈ e.objs ∧ p ∈ d.props ∧ p ∈ e.props ∧ ¬((o, p) ∈ d.pairs ↔ (o, p) ∈ e.pairs) := by
  simp only [conflicts, List.mem_flatMap, List.mem_filterMap, List.mem_filter,
    List.contains_eq_mem, decide_eq_true_eq]
  constructor
  · rintro ⟨a, ⟨ha2, ha1⟩, b, ⟨hb2, hb1⟩, hif⟩
    split at hif
    · rename_i hne
      simp only [Option.some.injEq, Prod.mk.injEq] at hif
      obtain ⟨rfl, rfl⟩ := hif
      refine ⟨ha1, ha2, hb1, hb2, ?_⟩
      intro hiff
      simp [hiff] at hne
    · cases hif
  · rintro ⟨h1, h2, h3, h4, h5⟩
    refine ⟨o, ⟨h2, h1⟩, p, ⟨h4, h3⟩, ?_⟩
    rw [if_pos]
    by_cases hd : (o, p) ∈ d.pairs <;> by_cases he : (o, p) ∈ e.pairs <;> simp [hd, he] at h5 ⊢

theorem conflicts_nonempty_iff {d e : Defn} : (conflicts d e).isEmpty = false ↔ Conflict d e := by
  rw [List.isEmpty_eq_false_iff_exists_mem]
  constructor
  · rintro ⟨⟨o, p⟩, h⟩; exact ⟨o, p, mem_conflicts.mp h⟩
  · rintro ⟨o, p, h⟩; exact ⟨(o, p), mem_conflicts.mpr h⟩

/-- the guard of `union` / `intersection` and their in-place versions -/
theorem guard_iff {d e : Defn} {ig : Bool} :
    (!ig && !(conflicts d e).isEmpty) = true ↔ ig = false ∧ Conflict d e := by
  rw [← conflicts_nonempty_iff]
  cases ig <;> simp

/-! ### order of the conflict list (right operand's table order) -/

theorem conflicts_row (l r : Defn) (o : Name) (ps : List Name) :
    ((ps.filter l.props.contains).filterMap fun p =>
      if l.pairs.contains (o, p) != r.pairs.contains (o, p) then some (o, p) else none) =
    (ps.map fun p => (o, p)).filter fun q =>
      l.props.contains q.2 && (l.pairs.contains q != r.pairs.contains q) := by
  induction ps with
  | nil => rfl
  | cons a t ih =>
    by_cases h1 : l.props.contains a = true
    · by_cases h2 : (l.pairs.contains (o, a) != r.pairs.contains (o, a)) = true
      · simp only [List.filter_cons, h1, h2, if_true, List.filterMap_cons, List.map_cons, ih,
          Bool.and_self]
      · simp only [List.filter_cons, h1, h2, if_true, List.filterMap_cons, List.map_cons, ih,
          Bool.true_and, Bool.false_eq_true, if_false]
    · simp only [List.filter_cons, h1, if_false, List.map_cons, ih, Bool.false_and,
        Bool.false_eq_true]

/-- the conflict list is the right operand's table order, filtered -/
theorem conflicts_eq_filter (l r : Defn) :
    conflicts l r = (r.objs.flatMap fun o => r.props.map fun p => (o, p)).filter fun q =>
      l.objs.contains q.1 && (l.props.contains q.2 && (l.pairs.contains q != r.pairs.contains q)) := by
  unfold conflicts
  simp only
  induction r.objs with
  | nil => rfl
  | cons a t ih =>
    rw [List.flatMap_cons, List.filter_append, ← ih]
    by_cases h : l.objs.contains a = true
    · rw [List.filter_cons, if_pos h, List.flatMap_cons, conflicts_row]
      congr 1
      apply List.filter_congr
      intro q hq
      simp only [List.mem_map] at hq
      obtain ⟨p, _, rfl⟩ := hq
      simp only [h, Bool.true_and]
    · rw [List.filter_cons, if_neg h]
      symm
      convert List.nil_append _
      rw [List.filter_eq_nil_iff]
      intro q hq
      simp only [List.mem_map] at hq
      obtain ⟨p, _, rfl⟩ := hq
      simp only [h, Bool.false_and, Bool.false_eq_true, not_false_eq_true]

/-! ### the constructor -/

theorem ofTriple_ok {os ps : List Name} {bs : List (List Bool)} {d : Defn}
    (h : Defn.ofTriple os ps bs = .ok d) :
    os.Nodup ∧ ps.Nodup ∧
    d = ⟨os, ps, ((os.zip bs).flatMap fun (o, row) =>
      (ps.zip row).filterMap fun (p, b) => if b then some (o, p) else none).eraseDups⟩ := by
  unfold Defn.ofTriple at h
  split at h
  · cases h
  · rename_i h1
    split at h
    · cases h
    · rename_i h2
      simp only [bne_iff, ne_eq, not_not, length_uniq_eq_iff] at h1 h2
      cases h
      exact ⟨h1, h2, rfl⟩

theorem ofTriple_of_nodup {os ps : List Name} (bs : List (List Bool)) (h1 : os.Nodup) (h2 : ps.Nodup) :
    Defn.ofTriple os ps bs = .ok ⟨os, ps, ((os.zip bs).flatMap fun (o, row) =>
      (ps.zip row).filterMap fun (p, b) => if b then some (o, p) else none).eraseDups⟩ := by
  unfold Defn.ofTriple
  rw [if_neg, if_neg]
  · simp only [bne_iff, ne_eq, not_not, length_uniq_eq_iff]; exact h2
  · simp only [bne_iff, ne_eq, not_not, length_uniq_eq_iff]; exact h1

theorem ofTriple_error_iff {os ps : List Name} {bs : List (List Bool)} :
    (∃ e, Defn.ofTriple os ps bs = .error e) ↔ ¬os.Nodup ∨ ¬ps.Nodup := by
  by_cases h1 : os.Nodup
  · by_cases h2 : ps.Nodup
    · rw [ofTriple_of_nodup bs h1 h2]; simp [h1, h2]
    · constructor
      · intro _; exact Or.inr h2
      · intro _
        cases h : Defn.ofTriple os ps bs with
        | error e => exact ⟨e, rfl⟩
        | ok d => exact absurd (ofTriple_ok h).2.1 h2
  · constructor
    · intro _; exact Or.inl h1
    · intro _
      cases h : Defn.ofTriple os ps bs with
      | error e => exact ⟨e, rfl⟩
      | ok d => exact absurd (ofTriple_ok h).1 h1

/-- cells produced by the constructor: true entries of the (zip-truncated) table -/
theorem mem_triple_cells {os ps : List Name} {bs : List (List Bool)} {o p : Name} :
    (o, p) ∈ ((os.zip bs).flatMap fun (o, row) =>
        (ps.zip row).filterMap fun (p, b) => if b then some (o, p) else none) ↔
      ∃ row, (o, row) ∈ os.zip bs ∧ (p, true) ∈ ps.zip row := by
  simp only [List.mem_flatMap, List.mem_filterMap, Prod.exists]
  constructor
  · rintro ⟨a, row, hz, b, v, hz2, hif⟩
    cases v
    · simp at hif
    · simp only [if_true, Option.some.injEq, Prod.mk.injEq] at hif
      obtain ⟨rfl, rfl⟩ := hif
      exact ⟨row, hz, hz2⟩
  · rintro ⟨row, hz, hz2⟩
    exact ⟨o, row, hz, p, true, hz2, by simp⟩

/-- the cells of `Definition(*d)` -/
theorem mem_fresh_cells {d : Defn} {o p : Name} :
    (o, p) ∈ ((d.objs.zip d.bools).flatMap fun (o, row) =>
        (d.props.zip row).filterMap fun (p, b) => if b then some (o, p) else none) ↔
      o ∈ d.objs ∧ p ∈ d.props ∧ (o, p) ∈ d.pairs := by
  rw [mem_triple_cells]
  simp only [Defn.bools, zip_map_self, List.mem_map, Prod.mk.injEq]
  constructor
  · rintro ⟨row, ⟨a, ha, rfl, rfl⟩, hz⟩
    simp only [zip_map_self, List.mem_map, Prod.mk.injEq] at hz
    obtain ⟨b, hb, rfl, hc⟩ := hz
    rw [List.contains_iff_mem] at hc
    exact ⟨ha, hb, hc⟩
  · rintro ⟨ho, hp, hop⟩
    refine ⟨_, ⟨o, ho, rfl, rfl⟩, ?_⟩
    simp only [zip_map_self, List.mem_map, Prod.mk.injEq]
    exact ⟨p, hp, rfl, List.contains_iff_mem.mpr hop⟩

/-! ### `bools` -/

theorem bools_length (d : Defn) : d.bools.length = d.objs.length := by simp [Defn.bools]

theorem bools_row_length (d : Defn) : ∀ row ∈ d.bools, row.length = d.props.length := by
  intro row h
  simp only [Defn.bools, List.mem_map] at h
  obtain ⟨o, _, rfl⟩ := h
  simp

theorem bools_getElem (d : Defn) (i j : Nat) (hi : i < d.objs.length) (hj : j < d.props.length) :
    ((d.bools[i]'(by rw [bools_length]; exact hi))[j]'(by
      rw [bools_row_length d _ (List.getElem_mem _)]; exact hj)) =
      d.pairs.contains (d.objs[i], d.props[j]) := by
  simp [Defn.bools]

/-- two definitions with the same names show the same table iff they have the same cells inside
`objs × props` -/
theorem bools_eq_iff {d e : Defn} (ho : d.objs = e.objs) (hp : d.props = e.props) :
    d.bools = e.bools ↔ ∀ o ∈ d.objs, ∀ p ∈ d.props, ((o, p) ∈ d.pairs ↔ (o, p) ∈ e.pairs) := by
  simp only [Defn.bools, ← ho, ← hp]
  rw [List.map_inj_left]
  constructor
  · intro h o ho' p hp'
    have := List.map_inj_left.mp (h o ho') p hp'
    rw [← List.contains_iff_mem, ← List.contains_iff_mem, this]
  · intro h o ho'
    rw [List.map_inj_left]
    intro p hp'
    have := h o ho' p hp'
    rw [Bool.eq_iff_iff, List.contains_iff_mem, List.contains_iff_mem]
    exact this

/-! ### `Context(*definition)`: validation and row masks -/

theorem defn_hasDup_eq_false_iff {l : List Name} : hasDup l = false ↔ l.Nodup := by
  induction l with
  | nil => simp [hasDup]
  | cons x xs ih =>
    simp only [hasDup, Bool.or_eq_false_iff, ih, List.nodup_cons, List.contains_eq_mem,
      decide_eq_false_iff_not]

theorem rowMask_aux (row : List Bool) (k acc j : Nat) :
    ((row.zipIdx k).foldl (fun acc (x : Bool × Nat) => if x.1 then acc ||| 2 ^ x.2 else acc) acc).testBit j =
      (acc.testBit j || (decide (k ≤ j) && row.getD (j - k) false)) := by
  induction row generalizing k acc with
  | nil => simp
  | cons b bs ih =>
    simp only [List.zipIdx_cons, List.foldl_cons]
    rw [ih]
    by_cases hkj : k = j
    · subst hkj
      cases b <;> simp [Nat.testBit_or, Nat.testBit_two_pow]
    · by_cases hlt : k < j
      · have h1 : k + 1 ≤ j := hlt
        have h2 : j - k = (j - (k + 1)) + 1 := by omega
        have h3 : k ≤ j := by omega
        have h4 : k ≠ j := hkj
        rw [h2, List.getD_cons_succ]
        cases b <;> simp [Nat.testBit_or, Nat.testBit_two_pow, h1, h3, h4]
      · have h1 : ¬ (k + 1 ≤ j) := by omega
        have h3 : ¬ (k ≤ j) := by omega
        have h4 : k ≠ j := hkj
        cases b <;> simp [Nat.testBit_or, Nat.testBit_two_pow, h1, h3, h4]

/-- bit `j` of a row mask is cell `j` of the row -/
theorem testBit_rowMask (row : List Bool) (j : Nat) : (rowMask row).testBit j = row.getD j false := by
  unfold rowMask
  have := rowMask_aux row 0 0 j
  simpa using this

theorem defn_rowMask_lt (row : List Bool) : rowMask row < 2 ^ row.length := by
  apply Nat.lt_pow_two_of_testBit
  intro j hj
  rw [testBit_rowMask]
  simp [List.getD_eq_getElem?_getD, List.getElem?_eq_none hj]

end FCA
