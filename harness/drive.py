"""Client side of the line protocol spoken by lean/Driver.lean."""
import os
import queue
import subprocess
import threading

VERIF = os.path.dirname(os.path.dirname(os.path.abspath(__file__)))
DRIVER = os.path.join(VERIF, 'lean', '.lake', 'build', 'bin', 'driver')


class Driver:
    """Pipe to the compiled Lean model; answers come back in request order."""

    def __init__(self, path=DRIVER):
        self.p = subprocess.Popen([path], stdin=subprocess.PIPE, stdout=subprocess.PIPE,
                                  text=True, encoding='ascii', bufsize=1 << 16)
        self.q = queue.Queue()
        self.t = threading.Thread(target=self._reader, daemon=True)
        self.t.start()
        self.sent = 0

    def _reader(self):
        for line in self.p.stdout:
            self.q.put(line.rstrip('\n'))
        self.q.put(None)

    def send(self, line):
        assert '\n' not in line
        self.p.stdin.write(line + '\n')
        self.sent += 1

    def flush(self):
        self.p.stdin.flush()

    def recv(self, timeout=600):
        ans = self.q.get(timeout=timeout)
        if ans is None:
            raise RuntimeError('model driver terminated')
        return ans

    def ask(self, line):
        self.send(line)
        self.flush()
        return self.recv()

    def ask_many(self, lines):
        lines = list(lines)
        for l in lines:
            self.send(l)
        self.flush()
        return [self.recv() for _ in lines]

    def close(self):
        try:
            self.p.stdin.close()
            self.p.wait(timeout=10)
        except Exception:
            self.p.kill()
