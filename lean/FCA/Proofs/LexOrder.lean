import FCA.Proofs.Keys
/-
The numeric `shortlexKey` / `longlexKey` order spelled out: compare the number of members first, then the
members themselves by position ("the set that contains the first differing position comes first").
-/
namespace FCA.LexAux
open FCA

/-- lexicographic comparison of `(c, r)` pairs packed as `c * 2^w + r` -/
theorem lex_lt_iff {w c c' r r' : Nat} (hr : r < 2 ^ w) (hr' : r' < 2 ^ w) :
    c * 2 ^ w + r < c' * 2 ^ w + r' ↔ c < c' ∨ (c = c' ∧ r < r') := by
  rcases Nat.lt_trichotomy c c' with h | h | h
  · have h1 : (c + 1) * 2 ^ w ≤ c' * 2 ^ w := Nat.mul_le_mul_right _ h
    have h2 : (c + 1) * 2 ^ w = c * 2 ^ w + 2 ^ w := by ring
    constructor
    · intro _; exact Or.inl h
    · intro _; omega
  · subst h
    constructor
    · intro h'; exact Or.inr ⟨rfl, by omega⟩
    · rintro (h' | ⟨_, h'⟩) <;> omega
  · have h1 : (c' + 1) * 2 ^ w ≤ c * 2 ^ w := Nat.mul_le_mul_right _ h
    have h2 : (c' + 1) * 2 ^ w = c' * 2 ^ w + 2 ^ w := by ring
    constructor
    · intro _; omega
    · rintro (h' | ⟨h', _⟩) <;> omega

/-- different masks have a least position where they differ -/
theorem first_diff {a b : Nat} (hne : a ≠ b) :
    ∃ i, ¬ (i ∈ᵇ a ↔ i ∈ᵇ b) ∧ ∀ k, k < i → (k ∈ᵇ a ↔ k ∈ᵇ b) := by
  classical
  have hex : ∃ i, ¬ (i ∈ᵇ a ↔ i ∈ᵇ b) := by
    by_contra hcon
    push Not at hcon
    exact hne (ext hcon)
  refine ⟨Nat.find hex, Nat.find_spec hex, fun k hk => ?_⟩
  have := Nat.find_min hex hk
  tauto

theorem reinv_lt_of_first {w a b i : Nat} (hia : i ∈ᵇ a) (hib : ¬ i ∈ᵇ b) (hi : i < w)
    (hlow : ∀ k, k < i → (k ∈ᵇ a ↔ k ∈ᵇ b)) : reinv w a < reinv w b := by
  apply Nat.lt_of_testBit (w - 1 - i)
  · have : ¬ (w - 1 - i) ∈ᵇ reinv w a := by
      rw [mem_reinv, show w - 1 - (w - 1 - i) = i by omega]
      tauto
    simpa [mem] using this
  · have : (w - 1 - i) ∈ᵇ reinv w b := by
      rw [mem_reinv, show w - 1 - (w - 1 - i) = i by omega]
      exact ⟨by omega, hib⟩
    exact this
  · intro j hj
    have : j ∈ᵇ reinv w a ↔ j ∈ᵇ reinv w b := by
      rw [mem_reinv, mem_reinv]
      by_cases hjw : j < w
      · have := hlow (w - 1 - j) (by omega)
        tauto
      · tauto
    simp only [mem] at this
    cases h1 : (reinv w a).testBit j <;> cases h2 : (reinv w b).testBit j <;> simp_all

/-- `reinverted` compares by the first differing position: the set containing it is smaller -/
theorem reinv_lt_iff {w a b : Nat} (ha : Bounded w a) (hb : Bounded w b) :
    reinv w a < reinv w b ↔ ∃ i, i ∈ᵇ a ∧ ¬ i ∈ᵇ b ∧ ∀ k, k < i → (k ∈ᵇ a ↔ k ∈ᵇ b) := by
  constructor
  · intro hlt
    have hne : a ≠ b := by rintro rfl; exact lt_irrefl _ hlt
    obtain ⟨i, hi, hlow⟩ := first_diff hne
    by_cases hia : i ∈ᵇ a
    · exact ⟨i, hia, by tauto, hlow⟩
    · have hib : i ∈ᵇ b := by tauto
      have := reinv_lt_of_first hib hia (hb i hib) (fun k hk => (hlow k hk).symm)
      omega
  · rintro ⟨i, hia, hib, hlow⟩
    exact reinv_lt_of_first hia hib (ha i hia) hlow

end FCA.LexAux
