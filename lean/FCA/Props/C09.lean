import FCA.Proofs.Traversal
/-
C09 — upset / downset traversals yield exactly the filters / ideals, once, in rank order.

`Concept.upset()` / `Lattice.upset_union(cs)` are `iterunion(maximal(cs, properly_subsumes), index,
upper_neighbors)`, `Concept.downset()` / `Lattice.downset_union(cs)` are
`iterunion(maximal(cs, properly_implies), dindex, lower_neighbors)`; concepts are identified with their
position in the lattice (`Concept.index`).

Part 1: the heap merge `iterunion` over an abstract `key` / `next` (`C09.Reach next` = reflexive
transitive closure of `next`).  Part 2: `tools.maximal`.  Part 3: `L = mkLattice K` for a well-formed `K`.
-/
namespace FCA
open FCA.C09

/-! ### Part 1: `iterunion` -/

/-- `iterunion` yields exactly what is reachable from the seeds through `next`, each element once, in
strictly increasing `key` order — provided `key` is injective on the reachable elements, strictly
increases along `next` and stays below `N`, out-degrees are at most `D`, and the fuel exceeds
`seeds.length + D * N` (the Python loop has no fuel). -/
theorem C09_iterunion_correct (key : Nat → Nat) (next : Nat → List Nat) (seeds : List Nat) (N D fuel : Nat)
    (inj : ∀ x y, (∃ s ∈ seeds, Reach next s x) → (∃ s ∈ seeds, Reach next s y) → key x = key y → x = y)
    (mono : ∀ x, (∃ s ∈ seeds, Reach next s x) → ∀ d ∈ next x, key x < key d)
    (bound : ∀ x, (∃ s ∈ seeds, Reach next s x) → key x < N)
    (deg : ∀ x, (∃ s ∈ seeds, Reach next s x) → (next x).length ≤ D)
    (hf : seeds.length + D * N < fuel) :
    (iterunion key next fuel seeds).Pairwise (fun a b => key a < key b) ∧
    (iterunion key next fuel seeds).Nodup ∧
    ∀ x, x ∈ iterunion key next fuel seeds ↔ ∃ s ∈ seeds, Reach next s x := by
  obtain ⟨h1, h2⟩ := iterunion_correct key next seeds ⟨inj, mono, bound, deg⟩ fuel hf
  exact ⟨h1, nodup_of_strict h1, h2⟩

/-- no seeds, no output -/
theorem C09_iterunion_nil (key : Nat → Nat) (next : Nat → List Nat) (fuel : Nat) :
    iterunion key next fuel [] = [] := by
  cases fuel <;> simp [iterunion, iterunionLoop, minBy]

/-- Seed lists with the same members (permutations, repeats) give the same output list, whatever the
(sufficient) fuel: the enumeration order of the set in `tools.maximal` is unobservable. -/
theorem C09_perm_invariant (key : Nat → Nat) (next : Nat → List Nat) (seeds seeds' : List Nat)
    (N D fuel fuel' : Nat)
    (inj : ∀ x y, (∃ s ∈ seeds, Reach next s x) → (∃ s ∈ seeds, Reach next s y) → key x = key y → x = y)
    (mono : ∀ x, (∃ s ∈ seeds, Reach next s x) → ∀ d ∈ next x, key x < key d)
    (bound : ∀ x, (∃ s ∈ seeds, Reach next s x) → key x < N)
    (deg : ∀ x, (∃ s ∈ seeds, Reach next s x) → (next x).length ≤ D)
    (hm : ∀ x, x ∈ seeds ↔ x ∈ seeds')
    (hf : seeds.length + D * N < fuel) (hf' : seeds'.length + D * N < fuel') :
    iterunion key next fuel seeds = iterunion key next fuel' seeds' := by
  have H : Hyp key next seeds N D := ⟨inj, mono, bound, deg⟩
  obtain ⟨h1, h2⟩ := iterunion_correct key next seeds H fuel hf
  obtain ⟨h1', h2'⟩ := iterunion_correct key next seeds' (H.congr hm) fuel' hf'
  exact strict_unique h1 h1' (fun x => by rw [h2, h2', R_congr next hm])

/-- strictly sorted lists with equal members are equal -/
theorem C09_sorted_unique (key : Nat → Nat) (l₁ l₂ : List Nat)
    (h₁ : l₁.Pairwise (fun a b => key a < key b)) (h₂ : l₂.Pairwise (fun a b => key a < key b))
    (hm : ∀ x, x ∈ l₁ ↔ x ∈ l₂) : l₁ = l₂ := strict_unique h₁ h₂ hm

/-! ### Part 2: `tools.maximal` -/

/-- `maximalBy cmp l` has no repeats; it keeps exactly the members of `l` that are not `cmp`-related to
any other member; and if `cmp` is a strict partial order on the members of `l`, every member of `l` is
equal to or `cmp`-related to a kept one. -/
theorem C09_maximal (cmp : Nat → Nat → Bool) (l : List Nat) :
    (maximalBy cmp l).Nodup ∧
    (∀ x, x ∈ maximalBy cmp l ↔ x ∈ l ∧ ∀ y ∈ l, y ≠ x → cmp x y = false) ∧
    ((∀ x ∈ l, cmp x x = false) →
     (∀ x ∈ l, ∀ y ∈ l, ∀ z ∈ l, cmp x y = true → cmp y z = true → cmp x z = true) →
     ∀ x ∈ l, ∃ m ∈ maximalBy cmp l, m = x ∨ cmp x m = true) :=
  ⟨maximalBy_nodup cmp l, mem_maximalBy cmp l, maximalBy_dominates cmp⟩

/-- the model's traversals are `iterunion` on the `maximal` seeds (definitional) -/
theorem C09_upsetUnion_def (L : Lattice) (cs : List Nat) :
    upsetUnion L cs = iterunion id L.upperAt (L.travFuel (maximalBy (properlySubsumes L) cs))
      (maximalBy (properlySubsumes L) cs) := rfl

theorem C09_downsetUnion_def (L : Lattice) (cs : List Nat) :
    downsetUnion L cs = iterunion L.dindexAt L.lowerAt (L.travFuel (maximalBy (properlyImplies L) cs))
      (maximalBy (properlyImplies L) cs) := rfl

/-- `maximal(cs, properly_subsumes)` are the members with minimal extent; every member is above one of
them; so the union of the up-sets of the reduced seeds is that of all given concepts.
(No assumption on `L` or `cs`.) -/
theorem C09_maximal_subsumes (L : Lattice) (cs : List Nat) :
    (∀ x, x ∈ maximalBy (properlySubsumes L) cs ↔
      x ∈ cs ∧ ∀ y ∈ cs, ¬ (L.extentAt y ⊆ᵇ L.extentAt x ∧ L.extentAt y ≠ L.extentAt x)) ∧
    (∀ c ∈ cs, ∃ m ∈ maximalBy (properlySubsumes L) cs, L.extentAt m ⊆ᵇ L.extentAt c) ∧
    (∀ e, (∃ m ∈ maximalBy (properlySubsumes L) cs, L.extentAt m ⊆ᵇ e) ↔ ∃ c ∈ cs, L.extentAt c ⊆ᵇ e) :=
  ⟨mem_minSeeds L cs, minSeeds_below L cs, minSeeds_union L cs⟩

/-- `maximal(cs, properly_implies)` are the members with maximal extent; every member is below one of
them; so the union of the down-sets of the reduced seeds is that of all given concepts. -/
theorem C09_maximal_implies (L : Lattice) (cs : List Nat) :
    (∀ x, x ∈ maximalBy (properlyImplies L) cs ↔
      x ∈ cs ∧ ∀ y ∈ cs, ¬ (L.extentAt x ⊆ᵇ L.extentAt y ∧ L.extentAt x ≠ L.extentAt y)) ∧
    (∀ c ∈ cs, ∃ m ∈ maximalBy (properlyImplies L) cs, L.extentAt c ⊆ᵇ L.extentAt m) ∧
    (∀ e, (∃ m ∈ maximalBy (properlyImplies L) cs, e ⊆ᵇ L.extentAt m) ↔ ∃ c ∈ cs, e ⊆ᵇ L.extentAt c) :=
  ⟨mem_maxSeeds L cs, maxSeeds_above L cs, maxSeeds_union L cs⟩

/-! ### Part 3: the lattice of a well-formed context -/

/-- chains of upper (lower) neighbors starting at a concept reach exactly the concepts above (below) it -/
theorem C09_reach (K : Ctx) (h : K.WF) (c d : Nat) (hc : c < (mkLattice K).length) :
    (Reach (mkLattice K).upperAt c d ↔
      d < (mkLattice K).length ∧ (mkLattice K).extentAt c ⊆ᵇ (mkLattice K).extentAt d) ∧
    (Reach (mkLattice K).lowerAt c d ↔
      d < (mkLattice K).length ∧ (mkLattice K).extentAt d ⊆ᵇ (mkLattice K).extentAt c) := by
  have S := mkLattice_spec h
  have hcc := get_of_lt hc
  rw [reach_upper_iff S hcc, reach_lower_iff S hcc, extentAt_get hcc]
  constructor
  · constructor
    · rintro ⟨dd, hdd, hs⟩; exact ⟨S.lt_length hdd, by rw [extentAt_get hdd]; exact hs⟩
    · rintro ⟨hd, hs⟩; exact ⟨_, get_of_lt hd, by rwa [extentAt_get (get_of_lt hd)] at hs⟩
  · constructor
    · rintro ⟨dd, hdd, hs⟩; exact ⟨S.lt_length hdd, by rw [extentAt_get hdd]; exact hs⟩
    · rintro ⟨hd, hs⟩; exact ⟨_, get_of_lt hd, by rwa [extentAt_get (get_of_lt hd)] at hs⟩

/-- `lattice.upset_union(cs)`: exactly the concepts above some member of `cs`, each once, in strictly
increasing position (= `Concept.index`) order; `cs` may contain repeats and comparable members. -/
theorem C09_upset_union (K : Ctx) (h : K.WF) (cs : List Nat) (hv : ∀ c ∈ cs, c < (mkLattice K).length) :
    (upsetUnion (mkLattice K) cs).Pairwise (· < ·) ∧
    (upsetUnion (mkLattice K) cs).Nodup ∧
    ∀ d, d ∈ upsetUnion (mkLattice K) cs ↔
      d < (mkLattice K).length ∧ ∃ c ∈ cs, (mkLattice K).extentAt c ⊆ᵇ (mkLattice K).extentAt d := by
  obtain ⟨h1, h2⟩ := upsetUnion_spec (mkLattice_spec h) hv
  exact ⟨h1, nodup_of_strict (key := id) h1, h2⟩

/-- `lattice.downset_union(cs)`: exactly the concepts below some member of `cs`, each once, in strictly
increasing `Concept.dindex` order. -/
theorem C09_downset_union (K : Ctx) (h : K.WF) (cs : List Nat) (hv : ∀ c ∈ cs, c < (mkLattice K).length) :
    (downsetUnion (mkLattice K) cs).Pairwise
      (fun a b => (mkLattice K).dindexAt a < (mkLattice K).dindexAt b) ∧
    (downsetUnion (mkLattice K) cs).Nodup ∧
    ∀ d, d ∈ downsetUnion (mkLattice K) cs ↔
      d < (mkLattice K).length ∧ ∃ c ∈ cs, (mkLattice K).extentAt d ⊆ᵇ (mkLattice K).extentAt c := by
  obtain ⟨h1, h2⟩ := downsetUnion_spec (mkLattice_spec h) hv
  exact ⟨h1, nodup_of_strict h1, h2⟩

/-- `concept.upset()`: exactly the concepts `≥ c`, each once, in increasing index order -/
theorem C09_upset (K : Ctx) (h : K.WF) (c : Nat) (hc : c < (mkLattice K).length) :
    (upsetUnion (mkLattice K) [c]).Pairwise (· < ·) ∧
    (upsetUnion (mkLattice K) [c]).Nodup ∧
    ∀ d, d ∈ upsetUnion (mkLattice K) [c] ↔
      d < (mkLattice K).length ∧ (mkLattice K).extentAt c ⊆ᵇ (mkLattice K).extentAt d := by
  obtain ⟨h1, h2, h3⟩ := C09_upset_union K h [c] (by simpa using hc)
  exact ⟨h1, h2, fun d => by rw [h3]; simp⟩

/-- `concept.downset()`: exactly the concepts `≤ c`, each once, in increasing dindex order -/
theorem C09_downset (K : Ctx) (h : K.WF) (c : Nat) (hc : c < (mkLattice K).length) :
    (downsetUnion (mkLattice K) [c]).Pairwise
      (fun a b => (mkLattice K).dindexAt a < (mkLattice K).dindexAt b) ∧
    (downsetUnion (mkLattice K) [c]).Nodup ∧
    ∀ d, d ∈ downsetUnion (mkLattice K) [c] ↔
      d < (mkLattice K).length ∧ (mkLattice K).extentAt d ⊆ᵇ (mkLattice K).extentAt c := by
  obtain ⟨h1, h2, h3⟩ := C09_downset_union K h [c] (by simpa using hc)
  exact ⟨h1, h2, fun d => by rw [h3]; simp⟩

/-- positions are `Concept.index`, and `dindexAt` reads `Concept.dindex`: the orders above are the
index / dindex orders of the concepts -/
theorem C09_index_is_position (K : Ctx) (h : K.WF) (k : Nat) (c : LConcept) (hk : (mkLattice K)[k]? = some c) :
    c.index = k ∧ (mkLattice K).dindexAt k = c.dindex ∧ (mkLattice K).extentAt k = c.extent :=
  ⟨(mkLattice_spec h).index hk, dindexAt_get hk, extentAt_get hk⟩

/-- the empty collection yields nothing (any lattice) -/
theorem C09_empty (L : Lattice) : upsetUnion L [] = [] ∧ downsetUnion L [] = [] := by
  rw [C09_upsetUnion_def, C09_downsetUnion_def, maximalBy_nil, maximalBy_nil]
  exact ⟨C09_iterunion_nil _ _ _, C09_iterunion_nil _ _ _⟩

/-- `Concept.upset()` / `downset()` call `iterunion([self], …)` directly, without `tools.maximal`: for a
single seed the reduction is the identity, so the single-concept traversals are the union traversals -/
theorem C09_single_seed (L : Lattice) (c : Nat) :
    upsetUnion L [c] = iterunion id L.upperAt (L.travFuel [c]) [c] ∧
    downsetUnion L [c] = iterunion L.dindexAt L.lowerAt (L.travFuel [c]) [c] := by
  constructor <;> simp [upsetUnion, downsetUnion, maximalBy, List.eraseDups_cons]

/-- the union traversals only depend on the *set* of given concepts -/
theorem C09_union_congr (K : Ctx) (h : K.WF) (cs cs' : List Nat) (hv : ∀ c ∈ cs, c < (mkLattice K).length)
    (hm : ∀ x, x ∈ cs ↔ x ∈ cs') :
    upsetUnion (mkLattice K) cs = upsetUnion (mkLattice K) cs' ∧
    downsetUnion (mkLattice K) cs = downsetUnion (mkLattice K) cs' := by
  have hv' : ∀ c ∈ cs', c < (mkLattice K).length := fun c hc => hv c ((hm c).mpr hc)
  obtain ⟨u1, u2⟩ := upsetUnion_spec (mkLattice_spec h) hv
  obtain ⟨u1', u2'⟩ := upsetUnion_spec (mkLattice_spec h) hv'
  obtain ⟨d1, d2⟩ := downsetUnion_spec (mkLattice_spec h) hv
  obtain ⟨d1', d2'⟩ := downsetUnion_spec (mkLattice_spec h) hv'
  constructor
  · refine strict_unique (key := id) u1 u1' (fun x => ?_)
    rw [u2, u2']
    exact and_congr_right fun _ => ⟨fun ⟨c, hc, hs⟩ => ⟨c, (hm c).mp hc, hs⟩, fun ⟨c, hc, hs⟩ => ⟨c, (hm c).mpr hc, hs⟩⟩
  · refine strict_unique d1 d1' (fun x => ?_)
    rw [d2, d2']
    exact and_congr_right fun _ => ⟨fun ⟨c, hc, hs⟩ => ⟨c, (hm c).mp hc, hs⟩, fun ⟨c, hc, hs⟩ => ⟨c, (hm c).mpr hc, hs⟩⟩

/-- the union traversal is the union of the single traversals -/
theorem C09_union_is_union (K : Ctx) (h : K.WF) (cs : List Nat) (hv : ∀ c ∈ cs, c < (mkLattice K).length) (d : Nat) :
    (d ∈ upsetUnion (mkLattice K) cs ↔ ∃ c ∈ cs, d ∈ upsetUnion (mkLattice K) [c]) ∧
    (d ∈ downsetUnion (mkLattice K) cs ↔ ∃ c ∈ cs, d ∈ downsetUnion (mkLattice K) [c]) := by
  rw [(C09_upset_union K h cs hv).2.2, (C09_downset_union K h cs hv).2.2]
  constructor
  · constructor
    · rintro ⟨hd, c, hc, hs⟩; exact ⟨c, hc, ((C09_upset K h c (hv c hc)).2.2 d).mpr ⟨hd, hs⟩⟩
    · rintro ⟨c, hc, hd⟩
      obtain ⟨h1, h2⟩ := ((C09_upset K h c (hv c hc)).2.2 d).mp hd
      exact ⟨h1, c, hc, h2⟩
  · constructor
    · rintro ⟨hd, c, hc, hs⟩; exact ⟨c, hc, ((C09_downset K h c (hv c hc)).2.2 d).mpr ⟨hd, hs⟩⟩
    · rintro ⟨c, hc, hd⟩
      obtain ⟨h1, h2⟩ := ((C09_downset K h c (hv c hc)).2.2 d).mp hd
      exact ⟨h1, c, hc, h2⟩

/-! ### non-vacuity: a concrete context (3 objects, 3 properties; 6 concepts) -/

def C09_exK : Ctx := mkCtx 3 3 #[0b011, 0b001, 0b110]
theorem C09_exK_WF : C09_exK.WF := mkCtx_WF 3 3 _ rfl (by intro i hi; interval_cases i <;> decide)

/-- extents in iteration order, `dindex`, neighbor links -/
example : (mkLattice C09_exK).map (·.extent) = [0, 1, 4, 3, 5, 7] ∧
    (mkLattice C09_exK).map (·.dindex) = [5, 3, 4, 1, 2, 0] ∧
    (mkLattice C09_exK).map (·.upper) = [[1, 2], [3, 4], [4], [5], [5], []] ∧
    (mkLattice C09_exK).map (·.lower) = [[], [0], [0], [1], [1, 2], [3, 4]] := by decide +kernel
/-- valid positions, with a repeat (3, 3) and comparable members (1 < 3) -/
example : ∀ c ∈ [3, 1, 2, 3], c < (mkLattice C09_exK).length := by decide +kernel
/-- the hypotheses of `C09_iterunion_correct` / `C09_perm_invariant` are satisfiable with non-trivial data -/
example : Hyp id (mkLattice C09_exK).upperAt [1, 2, 1] (mkLattice C09_exK).length (mkLattice C09_exK).length :=
  hyp_upper (mkLattice_spec C09_exK_WF) (by decide +kernel)
example : Hyp (mkLattice C09_exK).dindexAt (mkLattice C09_exK).lowerAt [3, 2] (mkLattice C09_exK).length
    (mkLattice C09_exK).length :=
  hyp_lower (mkLattice_spec C09_exK_WF) (by decide +kernel)
example : iterunion id (mkLattice C09_exK).upperAt 40 [1, 2, 1] = [1, 2, 3, 4, 5] ∧
    iterunion id (mkLattice C09_exK).upperAt 40 [2, 1] = [1, 2, 3, 4, 5] := by decide +kernel
example : maximalBy (properlySubsumes (mkLattice C09_exK)) [3, 1, 2, 3] = [1, 2] ∧
    maximalBy (properlyImplies (mkLattice C09_exK)) [3, 1, 2, 3] = [3, 2] := by decide +kernel
example : upsetUnion (mkLattice C09_exK) [1] = [1, 3, 4, 5] ∧
    downsetUnion (mkLattice C09_exK) [4] = [4, 1, 2, 0] ∧
    upsetUnion (mkLattice C09_exK) [3, 1, 2, 3] = [1, 2, 3, 4, 5] ∧
    downsetUnion (mkLattice C09_exK) [3, 1, 2, 3] = [3, 1, 2, 0] ∧
    downsetUnion (mkLattice C09_exK) [3, 4, 1, 3] = [3, 4, 1, 2, 0] := by decide +kernel

end FCA

#print axioms FCA.C09_iterunion_correct
#print axioms FCA.C09_iterunion_nil
#print axioms FCA.C09_perm_invariant
#print axioms FCA.C09_sorted_unique
#print axioms FCA.C09_maximal
#print axioms FCA.C09_maximal_subsumes
#print axioms FCA.C09_maximal_implies
#print axioms FCA.C09_reach
#print axioms FCA.C09_upset
#print axioms FCA.C09_downset
#print axioms FCA.C09_upset_union
#print axioms FCA.C09_downset_union
#print axioms FCA.C09_empty
#print axioms FCA.C09_index_is_position
#print axioms FCA.C09_union_congr
#print axioms FCA.C09_union_is_union
