import FCA.Generated.SortKeys
import FCA.Generated.Extremes
import FCA.Model.Misc
import FCA.Model.Lattice
/-
C06 over the regenerated source: which order of the extents (`shortlex` / `longlex`) `Lattice.__init__` and `_init` of the
current `lattices.py` use to sort the upper neighbors, the lower neighbors and the concepts for `dindex`. Assembling the
lattice with the orders *named by the source* is the model's `assemble` — about which `C06_*` are proved.
-/
namespace FCA

/-- the numeric key of a bitset order, by the name of the `bitsets` method -/
def C06_orderOfName (n : Nat) : String → Option (Nat → Nat)
  | "shortlex" => some (shortlexKey n)
  | "longlex" => some (longlexKey n)
  | _ => none

/-- `assemble` with the three sort orders looked up in a configuration `(what is sorted, order name)` -/
def C06_assembleCfg (K : Ctx) (recs : List Rec) (cfg : List (String × String)) : Option Lattice :=
  match (cfg.lookup "upper_neighbors").bind (C06_orderOfName K.n), (cfg.lookup "lower_neighbors").bind (C06_orderOfName K.n),
        (cfg.lookup "dindex").bind (C06_orderOfName K.n) with
  | some upKey, some loKey, some dKey =>
    let extents := recs.map (·.extent)
    let dorder := sortBy (fun i => dKey (extents.getD i 0)) (List.range recs.length)
    let uppers := recs.map fun r => sortBy (fun i => upKey (extents.getD i 0)) (toIndexes extents r.upper)
    let atoms := uppers.headD []
    some ((List.range recs.length).filterMap fun k =>
      match recs[k]? with
      | none => none
      | some r =>
        some { extent := r.extent, intent := r.intent
               upper := uppers.getD k []
               lower := sortBy (fun i => loKey (extents.getD i 0)) (toIndexes extents r.lower)
               index := k
               dindex := (indexOf? k dorder).getD 0
               atoms := atoms.filter fun a => r.extent ||| extents.getD a 0 == r.extent
               objects := objectLabels K r.extent
               properties := propertyLabels K r.extent })
  | _, _, _ => none

/-- with the sort orders the current source names, `Lattice.__init__` + `_init` is the model's `assemble` -/
theorem C06_generated_assemble (K : Ctx) (recs : List Rec) :
    C06_assembleCfg K recs Generated.init_sort_cfg = some (assemble K recs) := by
  simp only [C06_assembleCfg, Generated.init_sort_cfg, List.lookup, C06_orderOfName, Option.bind, assemble,
    show ("lower_neighbors" == "upper_neighbors") = false from by decide,
    show ("dindex" == "upper_neighbors") = false from by decide, show ("dindex" == "lower_neighbors") = false from by decide,
    show ("upper_neighbors" == "upper_neighbors") = true from by decide, show ("lower_neighbors" == "lower_neighbors") = true from by decide,
    show ("dindex" == "dindex") = true from by decide]
  rfl

/-- hence `context.lattice` -/
theorem C06_generated_mkLattice (K : Ctx) :
    C06_assembleCfg K (lindigLattice K) Generated.init_sort_cfg = some (mkLattice K) :=
  C06_generated_assemble K _

/-! ### `lattice.infimum`, `lattice.supremum`, `lattice.atoms` -/

/-- Python's `l[i]` for a possibly negative constant position -/
def C06_pyIndex (L : Lattice) (i : Int) : Option LConcept :=
  if i < 0 then (if (L.length : Int) + i < 0 then none else L[((L.length : Int) + i).toNat]?) else L[i.toNat]?

/-- the properties of the current source return the first and the last concept of the iteration order, and the atoms are the
upper neighbors of the first — the model's `Lattice.infimum`, `Lattice.supremum`, `Lattice.atomsOf` (`C06_infimum`, `C06_supremum`,
`C06_atoms` say what these are) -/
theorem C06_generated_extremes (L : Lattice) (h : L ≠ []) :
    C06_pyIndex L Generated.infimum_pos = L.infimum ∧ C06_pyIndex L Generated.supremum_pos = L.supremum ∧
    Generated.atoms_cfg = ("infimum", "upper_neighbors") ∧ L.atomsOf = ((L.infimum).map (·.upper)).getD [] := by
  have hl : 0 < L.length := List.length_pos_iff.mpr h
  refine ⟨rfl, ?_, rfl, ?_⟩
  · simp only [C06_pyIndex, Generated.supremum_pos, Lattice.supremum]
    have h1 : ¬ ((L.length : Int) + -1 < 0) := by omega
    have h2 : ((L.length : Int) + -1).toNat = L.length - 1 := by omega
    simp [h1, h2]
  · simp only [Lattice.atomsOf, Lattice.upperAt, Lattice.infimum]

end FCA
#print axioms FCA.C06_generated_assemble
#print axioms FCA.C06_generated_mkLattice
#print axioms FCA.C06_generated_extremes
