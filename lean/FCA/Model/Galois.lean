import FCA.Model.Bits
/-
Model of `concepts/matrices.py`: `Relation.__new__` (rows and transposed columns) and the
`prime` / `double` / `doubleprime` closures of `Vectors._pair_with`.
-/
namespace FCA

/-- A formal context on index level: `n` objects, `m` properties, `rows[i]` = property mask of
object `i` (`Context._intents`), `cols[j]` = object mask of property `j` (`Context._extents`). -/
structure Ctx where
  n : Nat
  m : Nat
  rows : Array Nat
  cols : Array Nat
deriving Repr

/-- `Y.Tuple.frombools(zip(*x.bools()))`: column `j` collects the rows having bit `j` -/
def colsOf (n m : Nat) (rows : Array Nat) : Array Nat :=
  ((List.range m).map fun j =>
    (List.range n).foldl (fun acc i => if (rows[i]!).testBit j then acc ||| 2 ^ i else acc) 0).toArray

/-- `Relation.__new__` -/
def mkCtx (n m : Nat) (rows : Array Nat) : Ctx := ⟨n, m, rows, colsOf n m rows⟩

/-- what a successfully constructed `Context` guarantees -/
def Ctx.WF (K : Ctx) : Prop :=
  K.rows.size = K.n ∧ (∀ i, i < K.n → K.rows[i]! < 2 ^ K.m) ∧ K.cols = colsOf K.n K.m K.rows

/-- The loop shared by `prime`, `double`, `doubleprime`:

```
i = 0
while bitset:
    shift = (bitset & -bitset).bit_length() - 1  # trailing zero(s)
    if not shift:
        shift = 1
        prime &= other[i]
    i += shift
    bitset >>= shift
```
(`fuel` bounds the number of iterations; `prime_fuel_irrelevant` shows `bitset` itself is enough.) -/
def primeLoop (other : Array Nat) : Nat → Nat → Nat → Nat → Nat
  | 0, _, _, acc => acc
  | fuel+1, bitset, i, acc =>
    if bitset = 0 then acc else
    let shift := tz bitset
    if shift = 0 then primeLoop other fuel (bitset >>> 1) (i+1) (acc &&& other[i]!)
    else primeLoop other fuel (bitset >>> shift) (i+shift) acc

/-- a `while var:` loop given by its body as a state transformer on `(var, i, acc)`; `fuel` bounds the
iterations. Used to run the loop bodies that harness/extract.py regenerates from `matrices.py`. -/
def iterLoop (step : Nat → Nat → Nat → Nat × Nat × Nat) : Nat → Nat → Nat → Nat → Nat
  | 0, _, _, acc => acc
  | fuel+1, v, i, acc =>
    if v = 0 then acc else
    let (v', i', acc') := step v i acc
    iterLoop step fuel v' i' acc'

/-- the loop body of the model as a state transformer -/
def canonStep (other : Array Nat) (bitset i acc : Nat) : Nat × Nat × Nat :=
  let shift := tz bitset
  if shift = 0 then (bitset >>> 1, i + 1, acc &&& other[i]!)
  else (bitset >>> shift, i + shift, acc)

/-- `prime(bitset)` of a `Vectors` paired with `other`, `sup = other.BitSet.supremum` -/
def primeOf (other : Array Nat) (sup : Nat) (bitset : Nat) : Nat :=
  primeLoop other bitset bitset 0 sup

/-- `Objects.prime`: extent → intent -/
def Ctx.intentOf (K : Ctx) (A : Nat) : Nat := primeOf K.rows (full K.m) A
/-- `Properties.prime`: intent → extent -/
def Ctx.extentOf (K : Ctx) (B : Nat) : Nat := primeOf K.cols (full K.n) B
/-- `Objects.double` -/
def Ctx.doubleObj (K : Ctx) (A : Nat) : Nat := K.extentOf (K.intentOf A)
/-- `Properties.double` -/
def Ctx.doubleProp (K : Ctx) (B : Nat) : Nat := K.intentOf (K.extentOf B)
/-- `Objects.doubleprime`: `(extent'', extent')` -/
def Ctx.dpObj (K : Ctx) (A : Nat) : Nat × Nat :=
  let B := K.intentOf A
  (K.extentOf B, B)
/-- `Properties.doubleprime`: `(intent'', intent')` -/
def Ctx.dpProp (K : Ctx) (B : Nat) : Nat × Nat :=
  let A := K.extentOf B
  (K.intentOf A, A)

/-- transposed context (objects and properties exchanged) -/
def Ctx.transpose (K : Ctx) : Ctx := ⟨K.m, K.n, K.cols, K.rows⟩

end FCA
