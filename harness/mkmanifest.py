"""Regenerate MANIFEST.json from the per-property table below and from which theorem files exist."""
import json
import os
import re

VERIF = os.path.dirname(os.path.dirname(os.path.abspath(__file__)))

P = {
 'C01': ('§7 C01', 'Lean 4 theorems: the trailing-zero skipping prime loop equals the pointwise Galois spec for every mask and row array (induction on fuel); tie: correspondence of intension/extension with the model driver',
         'theorems are about the Lean model of Vectors._pair_with; bitsets frommembers/members are contracts; tie = differential run on explored inputs'),
 'C02': ('§7 C02', 'Lean 4 theorems: doubleprime = (A\'\', A\'), closure is extensive/monotone/idempotent and least; tie: correspondence of context[...], lattice[...], lattice(...)',
         'mapping lookup by dict is modelled as first-index search; identity of Python objects checked by the harness'),
 'C03': ('§7 C03', 'Lean 4 theorems: Lindig neighbors loop = upper covers; heap loop emits exactly the closed sets once (invariant + pigeonhole fuel); tie: correspondence of the concept multiset',
         'heapq modelled as pop-minimum by key; negative-int masks of lindig.neighbors modelled as in-domain masks'),
 'C04': ('§7 C04', 'Lean 4 theorems: Close-by-One from the root emits every closed set exactly once; FCbO pruning equivalence; tie: correspondence of all four generators (multisets)',
         'the explicit stack / shared-list machine (Model/FcboStack.lean) is proved to yield the recursive model\'s sequence (C04Stack); inner loop bodies regenerated from fcbo.py (C04Gen); emission order not part of the property'),
 'C05': ('§7 C05', 'Lean 4 theorems: neighbors loop yields exactly the minimal candidate closures = upper covers, lower lists are the converse after exhaustion; tie: correspondence of neighbor sets and Context.neighbors',
         'as C03'),
 'C06': ('§7 C06', 'Lean 4 theorems: emission order strictly increasing in the shortlex key, keys = documented order, index/dindex linear extensions; tie: the model sorts the implementation\'s own extents',
         'bitsets shortlex()/longlex() are contracts validated against the model keys'),
 'C07': ('§7 C07', 'Lean 4 theorems: cl(union) is the least upper bound, intersection of closed sets is closed and the greatest lower bound; lattice laws; tie: correspondence of join/meet/|/&',
         'identity of result objects checked by the harness'),
 'C08': ('§7 C08', 'Lean 4 theorems over the predicate kernels regenerated from lattice_members.py on every run (iff-characterisations by extents); tie: extraction + correspondence on all ordered pairs',
         'harness/extract.py translates the expression subset &,|,==,!=,not,and, chained comparisons'),
 'C09': ('§7 C09', 'Lean 4 theorems: iterunion over a strictly monotone injective key emits exactly the reachable set in increasing key order; maximal() seeds do not change the result; tie: correspondence of upset/downset sequences',
         'heapq modelled as pop-minimum; set iteration order of tools.maximal is a parameter the result is proved independent of'),
 'C10': ('§7 C10', 'Lean 4 theorems: object/property labels select exactly the object/attribute concept; extent = union of labels below; tie: correspondence of objects/properties/atoms/str',
         'append-or-create on class-level default modelled as filter'),
 'C11': ('§7 C11', 'Lean 4 theorems: fromStored (ordered and raw, any permutation) of toStored rebuilds the lattice; tie: every carrier reloaded and compared with a recomputed lattice and the model',
         'PARTIAL: json, repr/literal_eval, pickle/copyreg, class registry, recursion limit are runtime, executed not modelled'),
 'C12': ('§7 C12', 'Lean 4 theorems: loaders invert dumpers for representable labels (table, cxt, csv rows, python-literal incl. CPython repr of str); tie: byte-equality of emitted text with the Lean dumpers, loaders agree, independent strict readers',
         'PARTIAL: codecs, newline translation, csv C module are runtime; csv text model differential-tested'),
 'C13': ('§7 C13', 'Lean 4 theorems: invariant (names duplicate-free, pairs within objs x props) preserved by every mutator hence after every history; fresh-copy equality; tie: bounded-exhaustive + random histories against the model',
         'Python sets modelled as duplicate-free lists; exceptions by class'),
 'C14': ('§7 C14', 'Lean 4 theorems: cell-wise characterisations of union/intersection/take/transposed/inverted, involutions, Context<->Definition inverse; tie: derive-then-edit worlds compared slot by slot with value-semantics model',
         'aliasing is a runtime notion: the model has value semantics and the correspondence shows the objects behave like values'),
 'C15': ('§7 C15', 'Lean 4 theorems: concept predicate invariant under permutation, dual under transposition, intents/extents invariant under duplication; tie: metamorphic runs on original and transformed contexts',
         'label-level statements; transformed contexts also compared with the model'),
 'C16': ('§7 C16', 'Lean 4 theorems over the junctor table regenerated from junctors.py: every contingent pair matches exactly one pattern, orientation of implication, sortedness and stability; tie: extraction + correspondence',
         'table read from the imported module (metaclass output)'),
 'C17': ('§7 C17', 'Lean 4 theorems: order-independence of the model at each set-iteration site (frommembers, maximal seeds, touched set, conflicts); tie: transcripts under several PYTHONHASHSEED values identical and equal to the model',
         'PARTIAL by nature: hash randomisation is runtime; explored seeds only'),
 'C18': ('§7 C18', 'Lean 4 theorems: minimize yields exactly the generating subsets in shortlex order, first = minimal; tie: correspondence of attributes()/minimal()',
         'bitsets powerset() order is a contract modelled by the shortlex queue'),
 'C19': ('§7 C19', 'Lean 4 theorems: constructor/fromdict accept iff well-formed; accepted input reproduced; tie: single and double corruptions of valid triples and dicts',
         'well-typed inputs only; exception class is the observable'),
 'C20': ('§7 C20', 'Lean 4 theorems: one node per concept, one edge per covering pair towards lower neighbors, labels iff non-empty; tie: DOT body parsed by an independent parser and compared with the model drawing',
         'PARTIAL: graphviz quoting is a dependency; labels compared after unquoting'),
}


def main():
    checks = []
    for pid in sorted(P):
        ref, text, note = P[pid]
        props = os.path.join(VERIF, 'lean', 'FCA', 'Props', pid + '.lean')
        ntheorems = 0
        import glob
        files = sorted(glob.glob(os.path.join(VERIF, 'lean', 'FCA', 'Props', pid + '*.lean')))
        for f in files:
            ntheorems += len(re.findall(r'^\s*theorem\s+%s_' % pid, open(f).read(), flags=re.M))
        fnames = ', '.join(os.path.basename(f) for f in files)
        proved = ntheorems > 0
        checks.append({
            'property_id': pid,
            'quick_cmd': './check %s --tier quick' % pid,
            'thorough_cmd': './check %s --tier thorough' % pid,
            'evidence_file': 'evidence/%s.json' % pid,
            'replay_cmd_template': './check %s --replay {path}' % pid,
            'engine': 'lean4-model+correspondence',
            'level_claimed': {
                'category': 'proof' if proved else 'exploration',
                'text': (text if proved else 'theorems not yet committed for this property: ' + text) +
                        ' (%d theorem(s) %s_* in lean/FCA/Props/{%s}, axioms audited on every run; *Gen files are stated over code regenerated from the current source)' % (ntheorems, pid, fnames),
                'design_ref': ref,
            },
            'level_note': note + '; trusted base: Lean 4.33 kernel, axioms propext/Classical.choice/Quot.sound only, Mathlib modules, Lean compiler for the driver, harness + extract.py + extract2.py (source-to-Lean translators and their readings, DESIGN.md section 5), dependency contracts (bitsets, CPython, graphviz)',
            'technique': 'Lean 4 machine-checked proof about an executable model' + (' (theorems pending)' if not proved else '') +
                         ' + correspondence check model vs implementation over a line protocol',
        })
    m = {
        'version': 1,
        'setup_cmd': './setup.sh',
        'hooks': {
            'guard': 'CONCEPTS_VERIF',
            'enable': 'no hooks needed: the harness imports the working tree of /repo (or $VERIF_REPO) in-process and calls its public API',
            'baseline_off_cmd': 'cd /repo && /venv/bin/python -m pytest -ra -q -p no:cacheprovider --timeout=900 --continue-on-collection-errors',
            'source_commits': [],
            'add_only': True,
        },
        'engines': [
            {'name': 'lean4-model+correspondence', 'path': 'lean/', 'serves_properties': sorted(P),
             'kind_free_text': 'Lean 4 executable model (lean/FCA/Model), theorems (lean/FCA/Props, lean/FCA/Proofs), compiled driver (lean/Driver.lean) and Python correspondence harness (harness/)'},
        ],
        'checks': checks,
        'not_applicable': [],
        'notes': 'fix: commits in /repo: 3a27357 (C13/C17), 8482d94 (C16), 5be49f6 (C17), 9cd6240 (C18), 1904d2a (C02); known findings: C11 pickle recursion, C17 KeyError name for several unknown labels (known_findings.json). Timeouts / internal errors exit 2.',
    }
    with open(os.path.join(VERIF, 'MANIFEST.json'), 'w') as f:
        json.dump(m, f, indent=1)
        f.write('\n')


if __name__ == '__main__':
    main()
