"""C11 - structured persistence reloads the same context and the same lattice."""
import io
import itertools
import json
import os
import pickle
import shutil
import subprocess
import sys
from core import guard, PyCtx, lattice_view, Disagreement, VERIF, REPO, show_list, members_of
from props import lat
import gen


NASTY = ['a b', 'back\\slash', 'C:\\bin', "it's", 'say "hi"', 'tab\there', 'line\nbreak', 'é', '日本', 'a,b', '{x}', '%s', '\\n', "'", '"', '#1',
         'p|q', 'None', '0', ' lead', 'trail ', '\x08bs', 'ß', '\u2028ls', 'x' * 40]


CTX_ONLY = '(context not reachable from a bare lattice)'
SEP = '\n\x00\n'      # separates the view lines (labels may contain line breaks)


def deep_view(pc, ctx, lattice=None):
    """Everything observable of a context and its lattice that the other properties pin, as text.
    With `lattice` given (an unpickled Lattice, whose context has no public accessor) the two context lines are placeholders;
    `same_view` ignores them."""
    L = ctx.lattice if lattice is None else lattice
    cs = list(L)
    out = [lattice_view(pc, L)]
    out.append('|'.join(','.join(c.minimal()) for c in cs[:40] if len(c.intent) <= 12))
    out.append('|'.join(show_list(x.index for x in c.upset()) for c in cs[:25]))
    out.append('|'.join(show_list(x.dindex for x in c.downset()) for c in cs[:25]))
    k = len(cs)
    pairs = [(i, (i * 7 + 3) % k) for i in range(min(k, 12))]
    out.append('|'.join('%d,%d' % ((cs[a] | cs[b]).index, (cs[a] & cs[b]).index) for a, b in pairs))
    c1 = cs[min(1, k - 1)]
    out.append('|'.join(','.join(a) for a in itertools.islice(c1.attributes(), 5)) if len(c1.intent) <= 12 else 'skipped')
    if lattice is None:
        out.append(repr((ctx.objects, ctx.properties, ctx.bools)))
        out.append(','.join(ctx.intension(ctx.objects[:1])) + '/' + ','.join(ctx.extension(ctx.properties[:1])))
    else:
        out += [CTX_ONLY, CTX_ONLY]
    out.append(str(L.infimum.index) + ' ' + str(L.supremum.index) + ' ' + show_list(a.index for a in L.atoms))
    out.append(type(L.infimum).__name__ + ' ' + type(L.supremum).__name__ + ' ' + ','.join(sorted({type(c).__name__ for c in cs})))
    return SEP.join(out)


def same_view(v, base):
    lv, lb = v.split(SEP), base.split(SEP)
    return len(lv) == len(lb) and all(a == b or a == CTX_ONLY for a, b in zip(lv, lb))


def permute_stored(rng, stored):
    """A permutation of the stored concept sequence with remapped indexes and shuffled tuples."""
    k = len(stored)
    perm = list(range(k))
    rng.shuffle(perm)              # new position p holds old concept perm[p]
    newpos = {old: p for p, old in enumerate(perm)}
    out = []
    for old in perm:
        ex, it, up, lo = stored[old]
        ex, it = list(ex), list(it)
        up, lo = [newpos[u] for u in up], [newpos[l] for l in lo]
        for l in (ex, it, up, lo):
            rng.shuffle(l)
        out.append((tuple(ex), tuple(it), tuple(up), tuple(lo)))
    return out


def shuffle_inner(rng, stored):
    out = []
    for ex, it, up, lo in stored:
        ex, it, up, lo = list(ex), list(it), list(up), list(lo)
        for l in (ex, it, up, lo):
            rng.shuffle(l)
        out.append((tuple(ex), tuple(it), tuple(up), tuple(lo)))
    return out


CHILD = r'''
import pickle, sys
sys.path.insert(0, %(harness)r)
sys.path.insert(0, %(repo)r)
import core
from props.c11 import deep_view
with open(%(path)r, 'rb') as f:
    items = pickle.load(f)
out = []
for tab, what, blob, objects, properties in items:
    pc = core.PyCtx.__new__(core.PyCtx)
    pc.n, pc.m, pc.rows = tab
    pc.objects = list(objects)
    pc.properties = list(properties)
    pc.opos = {o: i for i, o in enumerate(pc.objects)}
    pc.ppos = {p: j for j, p in enumerate(pc.properties)}
    try:
        obj = pickle.loads(blob)
        out.append(deep_view(pc, obj) if what == 'context' else deep_view(pc, None, lattice=obj))
    except Exception as e:
        out.append('raised %%s: %%s' %% (type(e).__name__, e))
with open(%(path)r + '.out', 'wb') as f:
    pickle.dump(out, f)
'''


def run(run):
    import concepts
    run.rule = ('contexts: exhaustive small tables, structured, random, a few large; carriers: dict, dict with raw=True under sampled '
                'permutations of the stored sequences (whole-list permutations and inner-tuple shuffles), JSON text and file, '
                'python-literal string and file (with, without and lazily-present lattice), pickle of Context and of Lattice in the same '
                'process and in a fresh interpreter with another PYTHONHASHSEED; after every reload the complete observable state '
                '(deep view) must equal that of a context recomputed from scratch and the lattice must equal the model\'s; '
                'todict() is compared with the model encoding')
    run.partial = ['json / ast.literal_eval / repr / pickle / copyreg / the bitsets class registry and the interpreter recursion limit are '
                   'runtime behaviour: executed for real, not modelled']
    d = run.driver
    rng = run.rng
    work = os.path.join(VERIF, '.work', 'c11-%d' % os.getpid())
    os.makedirs(work, exist_ok=True)
    fresh_items = []
    fresh_expect = []
    try:
        stream = lat.contexts(run, exh_quick=7, rand_quick=120, wide_quick=6, exh_thorough=10, rand_thorough=2500, nmax=8, mmax=8)
        count = 0
        for tab, pc in stream:
            if min(pc.n, pc.m) > 10:
                continue
            count += 1
            extra = {'objects': pc.objects, 'properties': pc.properties, 'bools': pc.bools}
            ctx = pc.ctx
            mlat = d.ask('lattice')
            with guard(run, 'todict', [pc.line, 'tolist']):
                dd = ctx.todict()
                base = deep_view(pc, concepts.Context(pc.objects, pc.properties, pc.bools))
            # documented encoding
            mstored = d.ask('tolist')
            gstored = ';'.join('%s %s %s %s' % tuple(show_list(x) for x in c) for c in dd['lattice'])
            enc_ok = (tuple(dd['objects']) == tuple(pc.objects) and tuple(dd['properties']) == tuple(pc.properties)
                      and [tuple(r) for r in dd['context']] == [tuple(members_of(r)) for r in pc.rows])
            if not enc_ok or gstored != mstored:
                run.fail('todict() encoding', {k: dd[k] for k in dd}, mstored, [pc.line, 'tolist'], extra)
            if base.split(SEP)[0] != mlat:
                run.fail('lattice recomputed from scratch differs from the model', base.split(SEP)[0], mlat, [pc.line, 'lattice'], extra)

            def check(what, ctx2, need_lattice=True, lattice=None):
                with guard(run, what, [pc.line, 'lattice']):
                    if lattice is None:
                        if not (ctx2 == ctx) or ctx2 != ctx:
                            run.fail(what + ': reloaded context != original', None, None, [pc.line], extra)
                        if need_lattice and "'lattice'" not in ctx2.tostring('python-literal'):
                            run.fail(what + ': stored lattice was not loaded', None, None, [pc.line], extra)
                    v = deep_view(pc, ctx2, lattice=lattice)
                run.case(pc.line + '|' + what, gen.nontrivial(tab), {'context': pc.line, 'carrier': what})
                run.count(what.split(' ')[0])
                if not same_view(v, base):
                    lines_v, lines_b = v.split(SEP), base.split(SEP)
                    bad = [i for i in range(len(lines_b)) if i >= len(lines_v) or (lines_v[i] != lines_b[i] and lines_v[i] != CTX_ONLY)]
                    run.fail(what + ': reloaded lattice is distinguishable from the recomputed one (view line %s)' % bad[:3],
                             [lines_v[i] for i in bad[:2]], [lines_b[i] for i in bad[:2]], [pc.line, 'lattice'], extra)

            with guard(run, 'reload carriers', [pc.line]):
                check('dict', concepts.Context.fromdict(dd))
                check('dict ignore_lattice', concepts.Context.fromdict(dd, ignore_lattice=True), need_lattice=False)
                check('dict-raw identity', concepts.Context.fromdict(dd, raw=True))
                for _ in range(2):
                    d2 = dict(dd, lattice=permute_stored(rng, dd['lattice']))
                    check('dict-raw permuted', concepts.Context.fromdict(d2, raw=True))
                d3 = dict(dd, lattice=shuffle_inner(rng, dd['lattice']))
                check('dict-raw inner-shuffled', concepts.Context.fromdict(d3, raw=True))
                # JSON text
                buf = io.StringIO()
                ctx.tojson(buf)
                check('json text', concepts.Context.fromjson(io.StringIO(buf.getvalue())))
                jd = json.loads(buf.getvalue())
                check('json dict', concepts.Context.fromdict(jd))
                # JSON with raw=True: any permutation of the stored sequences
                jperm = dict(jd, lattice=[list(map(list, e)) for e in permute_stored(rng, dd['lattice'])])
                check('json-raw permuted', concepts.Context.fromjson(io.StringIO(json.dumps(jperm)), raw=True))
                check('json-raw inner-shuffled', concepts.Context.fromjson(
                    io.StringIO(json.dumps(dict(jd, lattice=[list(map(list, e)) for e in shuffle_inner(rng, dd['lattice'])]))), raw=True))
                # what the caller does with a returned dict must not show in later serialisations
                scratch = ctx.todict()
                scratch['lattice'].reverse()
                del scratch['lattice'][:1]
                scratch['context'].clear()
                scratch['objects'] = list(scratch['objects'])[::-1]
                again = ctx.todict()
                if (list(again['lattice']) != list(dd['lattice']) or list(again['context']) != list(dd['context'])
                        or tuple(again['objects']) != tuple(dd['objects'])):
                    run.fail('todict() after the caller edited an earlier todict() result', again, dd, [pc.line, 'tolist'], extra)
                buf2 = io.StringIO()
                ctx.tojson(buf2)
                if buf2.getvalue() != buf.getvalue():
                    run.fail('tojson() after the caller edited an earlier todict() result', buf2.getvalue(), buf.getvalue(), [pc.line, 'tolist'], extra)
                if count % 4 == 0:
                    path = os.path.join(work, 'c.json')
                    ctx.tojson(path, indent=2)
                    check('json file', concepts.Context.fromjson(path))
                    c_no = concepts.Context(pc.objects, pc.properties, pc.bools)
                    c_no.tojson(path, ignore_lattice=True)
                    check('json file without lattice', concepts.Context.fromjson(path), need_lattice=False)
                # defaults on a context whose lattice was never asked for: todict() / tojson() include the lattice
                c_fresh = concepts.Context(pc.objects, pc.properties, pc.bools)
                fbuf = io.StringIO()
                c_fresh.tojson(fbuf)
                if 'lattice' not in json.loads(fbuf.getvalue()):
                    run.fail('tojson() of a context whose lattice was not computed yet lacks the lattice', fbuf.getvalue()[:200], None, [pc.line], extra)
                check('json text of a fresh context', concepts.Context.fromjson(io.StringIO(fbuf.getvalue()), require_lattice=True))
                c_fresh2 = concepts.Context(pc.objects, pc.properties, pc.bools)
                if 'lattice' not in c_fresh2.todict():
                    run.fail('todict() of a context whose lattice was not computed yet lacks the lattice', None, None, [pc.line], extra)
                # python literal: lattice lazily present
                c_lazy = concepts.Context(pc.objects, pc.properties, pc.bools)
                s_without = c_lazy.tostring('python-literal')
                if "'lattice'" in s_without:
                    run.fail('python-literal of a context without computed lattice contains a lattice', s_without, None, [pc.line], extra)
                check('literal without lattice', concepts.Context.fromstring(s_without, 'python-literal'), need_lattice=False)
                c_lazy.lattice
                s_with = c_lazy.tostring('python-literal')
                if "'lattice'" not in s_with:
                    run.fail('python-literal of a context with computed lattice lacks the lattice', s_with, None, [pc.line], extra)
                check('literal with lattice', concepts.Context.fromstring(s_with, 'python-literal'))
                if count % 4 == 1:
                    path = os.path.join(work, 'c.py')
                    c_lazy.tofile(path, frmat='python-literal')
                    check('literal file', concepts.Context.fromfile(path, frmat='python-literal'))
                    check('literal file via load', concepts.load(path))
                # pickle, same process
                check('pickle context', pickle.loads(pickle.dumps(ctx)), need_lattice=False)
                for proto in (2, pickle.HIGHEST_PROTOCOL):
                    L2 = pickle.loads(pickle.dumps(ctx.lattice, proto))
                    check('pickle lattice proto %d' % proto, None, lattice=L2)
                    L0 = ctx.lattice
                    for sl in (slice(None), slice(1, 3), slice(0, 0), slice(None, None, -1)):
                        if type(L2[sl]) is not type(L0[sl]) or [c.index for c in L2[sl]] != [c.index for c in L0[sl]]:
                            run.fail('slice %r of an unpickled lattice' % (sl,), repr(type(L2[sl])), repr(type(L0[sl])), [pc.line], extra)
                    if len(L2) != len(L0) or L2[-1].index != L0[-1].index or (L2[0] in L2) != (L0[0] in L0):
                        run.fail('len / negative index / membership of an unpickled lattice', None, None, [pc.line], extra)
                if len(fresh_items) < (60 if run.tier == 'quick' else 400) and count % 3 == 0:
                    fresh_items.append((tab, 'context', pickle.dumps(ctx), list(pc.objects), list(pc.properties)))
                    fresh_expect.append((pc.line, base))
                    fresh_items.append((tab, 'lattice', pickle.dumps(ctx.lattice), list(pc.objects), list(pc.properties)))
                    fresh_expect.append((pc.line, base))
            run.count('contexts')
            # the same table with awkward labels through the text carriers
            if count % 5 == 2 and pc.n + pc.m <= len(NASTY):
                labels = rng.sample(NASTY, pc.n + pc.m)
                with guard(run, 'carriers with awkward labels %r' % (labels,), [pc.line]):
                    pn = PyCtx(tab, labels[:pc.n], labels[pc.n:])
                    basen = deep_view(pn, concepts.Context(pn.objects, pn.properties, pn.bools))
                    cn = pn.ctx
                    cn.lattice
                    for what, c2, lat2 in (
                            ('literal with lattice (awkward labels)', concepts.Context.fromstring(cn.tostring('python-literal'), 'python-literal'), None),
                            ('dict (awkward labels)', concepts.Context.fromdict(cn.todict()), None),
                            ('json (awkward labels)', (lambda b: (cn.tojson(b), concepts.Context.fromjson(io.StringIO(b.getvalue())))[1])(io.StringIO()), None),
                            ('pickle lattice (awkward labels)', None, pickle.loads(pickle.dumps(cn.lattice)))):
                        run.case(pc.line + '|' + what, gen.nontrivial(tab))
                        run.count(what.split(' ')[0])
                        if (c2 is not None and not (c2 == cn)) or not same_view(deep_view(pn, c2, lattice=lat2), basen):
                            run.fail(what + ': reloaded context / lattice differs', None, [cn.objects, cn.properties], [pc.line], {'labels': labels})
        # fresh interpreter with another hash seed
        if fresh_items:
            path = os.path.join(work, 'fresh.pkl')
            with open(path, 'wb') as f:
                pickle.dump(fresh_items, f)
            code = CHILD % {'harness': os.path.join(VERIF, 'harness'), 'repo': REPO, 'path': path}
            for seed in (['7'] if run.tier == 'quick' else ['7', '123', '4242', 'random']):
                env = dict(os.environ, PYTHONHASHSEED=seed)
                r = subprocess.run([sys.executable, '-c', code], env=env, stdout=subprocess.PIPE, stderr=subprocess.STDOUT, text=True)
                if r.returncode != 0:
                    raise RuntimeError('fresh-process loader failed: ' + r.stdout[-2000:])
                with open(path + '.out', 'rb') as f:
                    outs = pickle.load(f)
                for (tab, what, *_), (line, base), v in zip(fresh_items, fresh_expect, outs):
                    run.case(line + '|fresh ' + what + seed, True)
                    run.count('fresh-process ' + what)
                    if not same_view(v, base):
                        run.fail('pickle of %s loaded in a fresh interpreter (PYTHONHASHSEED=%s)' % (what, seed), v[:600], base[:600], [line, 'lattice'])
        # large lattices: pickling (known finding D3 above 330 concepts)
        # a very wide table (row masks of more than 4300 decimal digits) through every pickle protocol
        with guard(run, 'pickle protocols 0-5 of a 1 x 15000 context', ['wide 15000']):
            wobjs, wprops = ['only'], ['w%d' % j for j in range(15000)]
            wctx = concepts.Context(wobjs, wprops, [tuple(j % 7 == 0 or j == 14999 for j in range(15000))])
            for proto in range(0, pickle.HIGHEST_PROTOCOL + 1):
                try:
                    w2 = pickle.loads(pickle.dumps(wctx, proto))
                except Exception as e:       # raised inside the C pickler: no implementation frame on the traceback
                    run.fail('pickle protocol %d of a 1 x 15000 context' % proto, 'raised %s: %s' % (type(e).__name__, str(e)[:200]), 'round trip', ['wide 15000'])
                if not (w2 == wctx) or w2.extension(['w14999']) != ('only',):
                    run.fail('pickle protocol %d of a 1 x 15000 context' % proto, None, None, ['wide 15000'])
            run.case('wide 15000|pickle protocols', True, {'context': '1 x 15000'})
            run.count('wide pickle protocols')
        big = [gen.contranominal(9)] + ([gen.ordinal(200)] if run.tier == 'thorough' else []) + [gen.ordinal(60), gen.contranominal(8)]
        for tab in big:
            pc = PyCtx(tab)
            with guard(run, 'lattice of a large context', [pc.line]):
                L = pc.ctx.lattice
                nL = len(L)
            run.case(pc.line + '|pickle large', True, {'context': '%dx%d scale' % (pc.n, pc.m), 'concepts': nL})
            with guard(run, 'pickle of a context whose (large) lattice is already computed', [pc.line]):
                try:
                    c2 = pickle.loads(pickle.dumps(pc.ctx))
                except RecursionError:
                    c2 = None
                    run.fail('pickle.dumps(context) with a computed lattice of %d concepts' % nL, 'raised RecursionError', 'pickles', [pc.line])
                if not (c2 == pc.ctx):
                    run.fail('pickled context with a large computed lattice reloads differently', None, None, [pc.line])
            try:
                blob = pickle.dumps(L)
            except RecursionError:
                known = [k for k in run.known if k['match'].get('exception') == 'RecursionError']
                if known and nL > 330:
                    hit = 'pickle.dumps(lattice) raises RecursionError for a lattice of %d concepts (> 330)' % nL
                    if hit not in run.known_hits:
                        run.known_hits.append(hit)
                    continue
                run.fail('pickle.dumps(lattice) of %d concepts' % nL, 'raised RecursionError', 'pickles', [pc.line])
            with guard(run, 'reload of a large pickled lattice', [pc.line]):
                L2 = pickle.loads(blob)
                if lattice_view(pc, L2) != lattice_view(pc, L):
                    run.fail('large pickled lattice reloads differently', None, None, [pc.line])
    finally:
        shutil.rmtree(work, ignore_errors=True)
