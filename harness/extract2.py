"""Further source-to-Lean translators (imported by extract.regenerate):

  * gen_lindig_lattice: the body of the `for n_extent, n_intent in neighbors(...)` loop of `lindig.lattice`
    (dict of mutable 4-tuples + heap) -> Generated/LindigLattice.lean
  * gen_iterunion: the body of the `while heap:` loop of `algorithms.common.iterunion`, and the configuration of the
    four traversal entry points (`Concept.upset/downset`, `Lattice.upset_union/downset_union`) -> Generated/Iterunion.lean
  * gen_annotate: the two labelling loops of `Lattice._annotate` -> Generated/Annotate.lean

Readings (trusted, see DESIGN.md §5): the dict `mapping` from extents to mutable 4-tuples `(extent, intent, upper, lower)` is the
record list `recs` of `Model/Lindig.lean` (`k in mapping` = `recFind`, `mapping[k][2|3].append(x)` = `appendUpper|appendLower`,
`mapping[k] = (k, i, us, ls)` under a failed membership test = append a record); a heap of `(key(x), x)` pairs is the list of the
`x` (popped by minimal key: `heapq` contract).
"""
import ast
import os

from extract import Decline, REPO, dotted, _function, _nodoc


def _src(*parts):
    return ast.parse(open(os.path.join(REPO, 'concepts', *parts)).read())


def _lst(node, ex):
    if isinstance(node, ast.List):
        return '[%s]' % ', '.join(ex(e) for e in node.elts)
    raise Decline('expected a list display: %s' % ast.unparse(node))


class StoreTr:
    """Body of the neighbor loop of `lindig.lattice` in continuation style over the state (recs, heap)."""

    FIELD = {2: 'appendUpper', 3: 'appendLower'}

    def __init__(self, values, aliases):
        self.values = dict(values)        # python name -> lean term (Nat)
        self.aliases = dict(aliases)      # python name -> (key term, field index): a list inside the record keyed `key`
        self.records = {}                 # python name -> key term: a name bound to the record just stored under that key

    def val(self, node):
        if isinstance(node, ast.Name) and node.id in self.values:
            return self.values[node.id]
        raise Decline('unsupported value %s' % ast.unparse(node))

    def listref(self, node):
        """a reference to the upper / lower list of a stored record -> (key term, field)"""
        if isinstance(node, ast.Name) and node.id in self.aliases:
            return self.aliases[node.id]
        if (isinstance(node, ast.Subscript) and isinstance(node.slice, ast.Constant) and node.slice.value in self.FIELD):
            base = node.value
            if (isinstance(base, ast.Subscript) and isinstance(base.value, ast.Name) and base.value.id == 'mapping'):
                return self.val(base.slice), node.slice.value
            if isinstance(base, ast.Name) and base.id in self.records:
                return self.records[base.id], node.slice.value
        raise Decline('unsupported list reference %s' % ast.unparse(node))

    def membership(self, node):
        """`k in mapping` / `k not in mapping` -> (key term, positive?)"""
        if (isinstance(node, ast.Compare) and len(node.ops) == 1 and isinstance(node.ops[0], (ast.In, ast.NotIn))
                and isinstance(node.comparators[0], ast.Name) and node.comparators[0].id == 'mapping'):
            return self.val(node.left), isinstance(node.ops[0], ast.In)
        raise Decline('unsupported condition %s' % ast.unparse(node))

    def block(self, stmts, ind, absent):
        """`absent`: key terms known not to be in `mapping` on this path"""
        if not stmts:
            return [ind + '(recs, heap)']
        st, rest = stmts[0], stmts[1:]
        if isinstance(st, ast.Continue):
            return [ind + '(recs, heap)']
        if isinstance(st, ast.If):
            key, positive = self.membership(st.test)
            yes, no = (st.body, st.orelse) if positive else (st.orelse, st.body)
            saved = dict(self.records)
            a = self.block(list(yes) + rest, ind + '  ', absent)
            self.records = dict(saved)
            b = self.block(list(no) + rest, ind + '  ', absent | {key})
            self.records = saved
            return [ind + 'if (recFind recs %s).isSome then' % key] + a + [ind + 'else'] + b
        if isinstance(st, ast.Expr) and isinstance(st.value, ast.Call):
            call = st.value
            if isinstance(call.func, ast.Attribute) and call.func.attr == 'append' and len(call.args) == 1 and not call.keywords:
                key, field = self.listref(call.func.value)
                line = '%slet recs := %s recs %s %s' % (ind, self.FIELD[field], key, self.val(call.args[0]))
                return [line] + self.block(rest, ind, absent)
            if isinstance(call.func, ast.Name) and call.func.id == 'push' and len(call.args) == 1 and not call.keywords:
                arg = call.args[0]
                if not (isinstance(arg, ast.Tuple) and len(arg.elts) == 2):
                    raise Decline('push of something else than a (key, record) pair')
                k, rec = arg.elts
                if not (isinstance(k, ast.Call) and isinstance(k.func, ast.Attribute) and k.func.attr == 'shortlex'
                        and not k.args and not k.keywords):
                    raise Decline('heap key is not <extent>.shortlex()')
                key = self.val(k.func.value)
                if isinstance(rec, ast.Name) and self.records.get(rec.id) == key:
                    pass
                elif (isinstance(rec, ast.Subscript) and isinstance(rec.value, ast.Name) and rec.value.id == 'mapping'
                        and self.val(rec.slice) == key):
                    pass
                else:
                    raise Decline('the pushed record is not the one stored under the pushed key')
                return ['%slet heap := heap ++ [%s]' % (ind, key)] + self.block(rest, ind, absent)
            raise Decline('unsupported call %s' % ast.unparse(st))
        if isinstance(st, ast.Assign):
            tup = st.value
            if not (isinstance(tup, ast.Tuple) and len(tup.elts) == 4):
                raise Decline('unsupported assignment %s' % ast.unparse(st))
            key = self.val(tup.elts[0])
            names, stored = [], False
            for tgt in st.targets:
                if isinstance(tgt, ast.Name):
                    names.append(tgt.id)
                elif (isinstance(tgt, ast.Subscript) and isinstance(tgt.value, ast.Name) and tgt.value.id == 'mapping'
                        and self.val(tgt.slice) == key):
                    stored = True
                else:
                    raise Decline('unsupported assignment target %s' % ast.unparse(tgt))
            if not stored:
                raise Decline('a record that is not stored in mapping under its own extent')
            if key not in absent:
                raise Decline('mapping[%s] assigned where the key may already be present' % key)
            line = '%slet recs := recs ++ [⟨%s, %s, %s, %s⟩]' % (ind, key, self.val(tup.elts[1]),
                                                                  _lst(tup.elts[2], self.val), _lst(tup.elts[3], self.val))
            for n in names:
                self.records[n] = key
            return [line] + self.block(rest, ind, absent - {key})
        raise Decline('unsupported statement %s' % ast.unparse(st)[:60])


def gen_lindig_lattice():
    tree = _src('algorithms', 'lindig.py')
    fn = _function(tree, 'lattice')
    if [a.arg for a in fn.args.args] != ['Objects'] or [a.arg for a in fn.args.kwonlyargs] != ['infimum']:
        raise Decline('lattice: signature changed')
    body = _nodoc(fn.body)
    head = [ast.unparse(st) for st in body[:-1]]
    want = ['extent, intent = Objects.frommembers(infimum).doubleprime()', 'concept = (extent, intent, [], [])',
            'mapping = {extent: concept}', 'heap = [(extent.shortlex(), concept)]',
            'push = functools.partial(heapq.heappush, heap)', 'pop = functools.partial(heapq.heappop, heap)']
    if head != want or not isinstance(body[-1], ast.While) or ast.unparse(body[-1].test) != 'heap' or body[-1].orelse:
        raise Decline('lattice: the code before the heap loop changed: %r' % head)
    wbody = body[-1].body
    if len(wbody) != 4 or not isinstance(wbody[2], ast.For):
        raise Decline('lattice: the heap loop has another shape')
    around = [ast.unparse(wbody[0]), ast.unparse(wbody[1]), ast.unparse(wbody[3])]
    if around != ['_, concept = pop()', 'extent, _, upper, _ = concept', 'yield concept']:
        raise Decline('lattice: the code around the neighbor loop changed: %r' % around)
    loop = wbody[2]
    if (ast.unparse(loop.target).strip('()') != 'n_extent, n_intent'
            or ast.unparse(loop.iter) != 'neighbors(extent, Objects=Objects)' or loop.orelse):
        raise Decline('lattice: neighbor loop header changed: for %s in %s' % (ast.unparse(loop.target), ast.unparse(loop.iter)))
    tr = StoreTr(values={'extent': 'extent', 'n_extent': 'n_extent', 'n_intent': 'n_intent'},
                 aliases={'upper': ('extent', 2)})
    tr.records['concept'] = 'extent'
    lines = tr.block(list(loop.body), '  ', frozenset())
    out = ['import FCA.Model.Lindig',
           '/- GENERATED by harness/extract2.py from concepts/algorithms/lindig.py (lattice) — do not edit.',
           '   `mapping` (dict: extent -> mutable 4-tuple) is the record list `recs`; `heap` lists the pushed extents. -/',
           'namespace FCA.Generated', '',
           '/-- body of `for n_extent, n_intent in neighbors(extent, Objects=Objects)` -/',
           'def lattice_body (extent n_extent n_intent : Nat) (recs : List Rec) (heap : List Nat) : List Rec × List Nat :=']
    return '\n'.join(out + lines + ['', 'end FCA.Generated', ''])


# ---------------------------------------------------------------------------------------------------------------------

def _attrgetter(node):
    if (isinstance(node, ast.Call) and dotted(node.func) == 'operator.attrgetter' and len(node.args) == 1
            and isinstance(node.args[0], ast.Constant) and isinstance(node.args[0].value, str)):
        return node.args[0].value
    raise Decline('default is not operator.attrgetter(<name>): %s' % ast.unparse(node))


def _method(tree, cls, name):
    found = [f for c in tree.body if isinstance(c, ast.ClassDef) and c.name == cls for f in c.body
             if isinstance(f, ast.FunctionDef) and f.name == name]
    if len(found) != 1:
        raise Decline('no unique %s.%s' % (cls, name))
    return found[0]


def gen_iterunion():
    tree = _src('algorithms', 'common.py')
    fn = _function(tree, 'iterunion')
    if [a.arg for a in fn.args.args] != ['concepts', 'sortkey', 'next_concepts'] or fn.args.kwonlyargs or fn.args.defaults:
        raise Decline('iterunion: signature changed')
    body = _nodoc(fn.body)
    head = [ast.unparse(st) for st in body[:-1]]
    want = ['heap = [(sortkey(c), c) for c in concepts]', 'heapq.heapify(heap)',
            'push = functools.partial(heapq.heappush, heap)', 'pop = functools.partial(heapq.heappop, heap)', 'seen = -1']
    if head != want or not isinstance(body[-1], ast.While) or ast.unparse(body[-1].test) != 'heap' or body[-1].orelse:
        raise Decline('iterunion: the code before the heap loop changed: %r' % head)
    wbody = body[-1].body
    if not wbody or ast.unparse(wbody[0]) != 'index, concept = pop()':
        raise Decline('iterunion: the heap loop does not start with the pop')

    def num(node, env):
        if isinstance(node, ast.Name) and node.id in env:
            return env[node.id]
        raise Decline('unsupported number %s' % ast.unparse(node))

    CMP = {ast.Gt: '>', ast.GtE: '≥', ast.Lt: '<', ast.LtE: '≤', ast.Eq: '=', ast.NotEq: '≠'}

    def block(stmts, env, ind):
        if not stmts:
            return [ind + '(seen, heap, out)']
        st, rest = stmts[0], stmts[1:]
        if isinstance(st, ast.Continue):
            return [ind + '(seen, heap, out)']
        if isinstance(st, ast.If):
            t = st.test
            if not (isinstance(t, ast.Compare) and len(t.ops) == 1 and type(t.ops[0]) in CMP):
                raise Decline('unsupported condition %s' % ast.unparse(t))
            cond = '%s %s %s' % (num(t.left, env), CMP[type(t.ops[0])], num(t.comparators[0], env))
            return ([ind + 'if %s then' % cond] + block(list(st.body) + rest, env, ind + '  ')
                    + [ind + 'else'] + block(list(st.orelse) + rest, env, ind + '  '))
        if isinstance(st, ast.Assign) and len(st.targets) == 1 and isinstance(st.targets[0], ast.Name) and st.targets[0].id == 'seen':
            return ['%slet seen : Int := %s' % (ind, num(st.value, env))] + block(rest, env, ind)
        if isinstance(st, ast.Expr) and isinstance(st.value, ast.Yield) and st.value.value is not None:
            v = st.value.value
            if not (isinstance(v, ast.Name) and v.id == 'concept'):
                raise Decline('yield of something else than the popped concept')
            return ['%slet out := concept :: out' % ind] + block(rest, env, ind)
        if isinstance(st, ast.For) and not st.orelse and isinstance(st.target, ast.Name):
            c = st.target.id
            it = st.iter
            if not (isinstance(it, ast.Call) and isinstance(it.func, ast.Name) and it.func.id == 'next_concepts'
                    and len(it.args) == 1 and isinstance(it.args[0], ast.Name) and it.args[0].id == 'concept' and not it.keywords):
                raise Decline('unsupported inner loop over %s' % ast.unparse(it))
            if len(st.body) != 1 or ast.unparse(st.body[0]) != 'push((sortkey(%s), %s))' % (c, c):
                raise Decline('inner loop body is not push((sortkey(c), c))')
            return ['%slet heap := (next_concepts concept).foldl (fun heap %s => heap ++ [%s]) heap' % (ind, c, c)] + block(rest, env, ind)
        raise Decline('unsupported statement %s' % ast.unparse(st)[:60])

    lines = block(list(wbody[1:]), {'index': '(index : Int)', 'seen': 'seen'}, '  ')
    # the traversal entry points: which comparison, sort key and neighbor attribute they pass on
    lm = _src('lattice_members.py')
    lt = _src('lattices.py')
    cfg = {}
    for cls_tree, cls, name, seeds in ((lm, 'NavigateableMixin', 'upset', None), (lm, 'NavigateableMixin', 'downset', None),
                                       (lt, 'NavigateableMixin', 'upset_union', 'maximal'),
                                       (lt, 'NavigateableMixin', 'downset_union', 'maximal')):
        m = _method(cls_tree, cls, name)
        args = [a.arg for a in m.args.args]
        if args[-2:] != ['_sortkey', '_next_concepts'] or len(m.args.defaults) != 2:
            raise Decline('%s: signature changed' % name)
        key, nxt = (_attrgetter(d) for d in m.args.defaults)
        stmts = [ast.unparse(s) for s in _nodoc(m.body)]
        if seeds is None:
            if stmts != ['return algorithms.iterunion([self], _sortkey, _next_concepts)']:
                raise Decline('%s: body changed: %r' % (name, stmts))
            cmp_ = ''
        else:
            if (len(stmts) != 2 or stmts[1] != 'return algorithms.iterunion(concepts, _sortkey, _next_concepts)'
                    or not stmts[0].startswith('concepts = tools.maximal(concepts, comparison=Concept.') or not stmts[0].endswith(')')):
                raise Decline('%s: body changed: %r' % (name, stmts))
            cmp_ = stmts[0][len('concepts = tools.maximal(concepts, comparison=Concept.'):-1]
        cfg[name] = (cmp_, key, nxt)
    out = ['/- GENERATED by harness/extract2.py from concepts/algorithms/common.py (iterunion), lattice_members.py and lattices.py',
           '   (traversal entry points) — do not edit. A heap of `(sortkey(c), c)` pairs is the list of the `c`. -/',
           'namespace FCA.Generated', '',
           '/-- body of `while heap:` after `index, concept = pop()`; `out` collects the yielded concepts, newest first -/',
           'def iterunion_body (next_concepts : Nat → List Nat) (index concept : Nat) (seen : Int) (heap : List Nat) (out : List Nat) :',
           '    Int × List Nat × List Nat :='] + lines + ['']
    for name in ('upset', 'downset', 'upset_union', 'downset_union'):
        out += ['/-- `%s`: (comparison handed to `tools.maximal`, sort key attribute, neighbor attribute) -/' % name,
                'def %s_cfg : String × String × String := ("%s", "%s", "%s")' % ((name,) + cfg[name]), '']
    return '\n'.join(out + ['end FCA.Generated', ''])


# ---------------------------------------------------------------------------------------------------------------------

def gen_annotate():
    """`Lattice._annotate`: two loops of the same shape. For each: which labels are enumerated, which extent is looked up, which
    attribute collects them. The append-or-create body is checked against the expected statements with the attribute name as
    the only parameter (its semantics = `C10_annotate_loop_*`)."""
    tree = _src('lattices.py')
    fn = _method(tree, 'Data', '_annotate')
    if [a.arg for a in fn.args.args] != ['context', 'mapping']:
        raise Decline('_annotate: signature changed')
    body = _nodoc(fn.body)
    if len(body) != 6:
        raise Decline('_annotate: expected two groups of three statements, got %d statements' % len(body))
    halves = []
    for k in (0, 3):
        init, loop, fin = body[k:k + 3]
        if ast.unparse(init) != 'touched = set()' or not isinstance(loop, ast.For) or loop.orelse or not isinstance(loop.target, ast.Name):
            raise Decline('_annotate: group %d changed' % (k // 3 + 1))
        v = loop.target.id
        src = ast.unparse(loop.iter)
        if src not in ('context.objects', 'context.properties'):
            raise Decline('_annotate: loop over %s' % src)
        lb = loop.body
        if len(lb) != 3 or not isinstance(lb[0], ast.Assign) or ast.unparse(lb[1]) != 'c = mapping[extent]' or not isinstance(lb[2], ast.If):
            raise Decline('_annotate: loop body of group %d changed' % (k // 3 + 1))
        if ast.unparse(lb[0].targets[0]) != 'extent':
            raise Decline('_annotate: first statement of the loop body changed')
        rhs = ast.unparse(lb[0].value)
        forms = {'context.extension(context.intension([%s]), raw=True)' % v: 'objectConcept',
                 'context.extension([%s], raw=True)' % v: 'attributeConcept'}
        if rhs not in forms:
            raise Decline('_annotate: extent computed as %s' % rhs)
        test = lb[2].test
        if not (isinstance(test, ast.Attribute) and isinstance(test.value, ast.Name) and test.value.id == 'c'):
            raise Decline('_annotate: test %s' % ast.unparse(test))
        attr = test.attr
        want_if = 'if c.%s:\n    c.%s.append(%s)\nelse:\n    c.%s = [%s]\n    touched.add(c)' % (attr, attr, v, attr, v)
        if ast.unparse(lb[2]) != want_if:
            raise Decline('_annotate: append-or-create statement changed: %s' % ast.unparse(lb[2]))
        want_fin = 'for c in touched:\n    c.%s = tuple(c.%s)' % (attr, attr)
        if ast.unparse(fin) != want_fin:
            raise Decline('_annotate: final conversion changed: %s' % ast.unparse(fin))
        halves.append((src.split('.')[1], forms[rhs], attr))
    out = ['/- GENERATED by harness/extract2.py from Lattice._annotate in concepts/lattices.py — do not edit.',
           '   Per labelling loop: (names enumerated, concept looked up for a name, attribute that collects the names). -/',
           'namespace FCA.Generated', '',
           'def annotate_cfg : List (String × String × String) :=',
           '  [%s]' % ', '.join('("%s", "%s", "%s")' % h for h in halves), '', 'end FCA.Generated', '']
    return '\n'.join(out)


GENERATORS = (('LindigLattice', gen_lindig_lattice), ('Iterunion', gen_iterunion), ('Annotate', gen_annotate))


# ---------------------------------------------------------------------------------------------------------------------

def gen_sortkeys():
    """Which bitset order sorts what in `Lattice.__init__`, `_init` and `_fromlist(unordered=True)`."""
    tree = _src('lattices.py')
    order = {}
    for helper in ('_shortlex', '_longlex'):
        m = _method(tree, 'Data', helper)
        stmts = [ast.unparse(s) for s in _nodoc(m.body)]
        if [a.arg for a in m.args.args] != ['concept'] or len(stmts) != 1:
            raise Decline('%s changed' % helper)
        for meth in ('shortlex', 'longlex'):
            if stmts[0] == 'return concept._extent.%s()' % meth:
                order[helper] = meth
        if helper not in order:
            raise Decline('%s returns %s' % (helper, stmts[0]))

    def keys_of(fn, receivers):
        """local names bound to self._shortlex / inst._longlex ... -> order name"""
        loc = {}
        for st in ast.walk(fn):
            if isinstance(st, ast.Assign) and len(st.targets) == 1 and isinstance(st.targets[0], ast.Name):
                v = st.value
                if isinstance(v, ast.Attribute) and isinstance(v.value, ast.Name) and v.value.id in receivers and v.attr in order:
                    if st.targets[0].id in loc and loc[st.targets[0].id] != order[v.attr]:
                        raise Decline('%s rebinds %s' % (fn.name, st.targets[0].id))
                    loc[st.targets[0].id] = order[v.attr]
        return loc

    def key_name(node, loc, receivers):
        if isinstance(node, ast.Name) and node.id in loc:
            return loc[node.id]
        if isinstance(node, ast.Attribute) and isinstance(node.value, ast.Name) and node.value.id in receivers and node.attr in order:
            return order[node.attr]
        raise Decline('sort key %s' % ast.unparse(node))

    def sorted_call(node, loc, receivers):
        """sorted(x, key=k) / tuple(sorted(x, key=k)) -> (source text, order)"""
        if isinstance(node, ast.Call) and isinstance(node.func, ast.Name) and node.func.id == 'tuple' and len(node.args) == 1:
            node = node.args[0]
        if (isinstance(node, ast.Call) and isinstance(node.func, ast.Name) and node.func.id == 'sorted' and len(node.args) == 1
                and len(node.keywords) == 1 and node.keywords[0].arg == 'key'):
            return ast.unparse(node.args[0]), key_name(node.keywords[0].value, loc, receivers)
        return None

    def neighbor_sorts(fn, loc, receivers, scope):
        found = {}
        for st in ast.walk(scope):
            if (isinstance(st, ast.Assign) and len(st.targets) == 1 and isinstance(st.targets[0], ast.Attribute)
                    and st.targets[0].attr in ('upper_neighbors', 'lower_neighbors')):
                sc = sorted_call(st.value, loc, receivers)
                if sc is None:
                    continue
                want_src = {'upper_neighbors': 'upper', 'lower_neighbors': 'lower'}[st.targets[0].attr]
                if sc[0] != want_src:
                    raise Decline('%s: %s sorted from %s' % (fn.name, st.targets[0].attr, sc[0]))
                if st.targets[0].attr in found:
                    raise Decline('%s: %s assigned twice from a sort' % (fn.name, st.targets[0].attr))
                found[st.targets[0].attr] = sc[1]
        return found

    rec = ('self', 'inst', 'cls')
    init = _method(tree, 'Data', '__init__')
    loc = keys_of(init, rec)
    got = neighbor_sorts(init, loc, rec, init)
    if set(got) != {'upper_neighbors', 'lower_neighbors'}:
        raise Decline('__init__: neighbor tuples are not both sorted: %r' % got)
    init_cfg = [('upper_neighbors', got['upper_neighbors']), ('lower_neighbors', got['lower_neighbors'])]
    # the generators for upper / lower must resolve the mapping
    text = ast.unparse(init)
    for need in ('upper = (mapping[u] for u in c.upper_neighbors)', 'lower = (mapping[l] for l in c.lower_neighbors)'):
        if need not in text:
            raise Decline('__init__: %r is gone' % need)
    _init = _method(tree, 'Data', '_init')
    d = [st for st in ast.walk(_init) if isinstance(st, ast.For) and ast.unparse(st.target).strip('()') == 'dindex, c']
    if len(d) != 1:
        raise Decline('_init: no unique dindex loop')
    it = d[0].iter
    if not (isinstance(it, ast.Call) and isinstance(it.func, ast.Name) and it.func.id == 'enumerate' and len(it.args) == 1 and not it.keywords):
        raise Decline('_init: dindex loop over %s' % ast.unparse(it))
    src_node = it.args[0]
    if isinstance(src_node, ast.Name):      # a local bound once to the sorted list
        binds = [st.value for st in ast.walk(_init) if isinstance(st, ast.Assign) and len(st.targets) == 1
                 and isinstance(st.targets[0], ast.Name) and st.targets[0].id == src_node.id]
        if len(binds) == 1:
            src_node = binds[0]
    sc = sorted_call(src_node, keys_of(_init, rec), rec)
    if sc is None or sc[0] != 'inst._concepts':
        raise Decline('_init: dindex loop over %s' % ast.unparse(it))
    if 'c.dindex = dindex' not in [ast.unparse(s) for s in d[0].body]:
        raise Decline('_init: dindex is not assigned in its loop')
    init_cfg.append(('dindex', sc[1]))
    fl = _method(tree, 'Data', '_fromlist')
    branch = [st for st in fl.body if isinstance(st, ast.If) and ast.unparse(st.test) == 'unordered']
    if len(branch) != 1:
        raise Decline('_fromlist: no unique `if unordered:`')
    loc = keys_of(fl, rec)
    sorts = [st for st in branch[0].body if isinstance(st, ast.Expr) and isinstance(st.value, ast.Call)
             and ast.unparse(st.value.func) == 'concepts.sort']
    if len(sorts) != 1 or sorts[0].value.args or len(sorts[0].value.keywords) != 1 or sorts[0].value.keywords[0].arg != 'key':
        raise Decline('_fromlist: no unique concepts.sort(key=...)')
    fl_cfg = [('concepts', key_name(sorts[0].value.keywords[0].value, loc, rec))]
    scope = ast.Module(body=branch[0].body, type_ignores=[])
    got = neighbor_sorts(fl, loc, rec, scope)
    if set(got) != {'upper_neighbors', 'lower_neighbors'}:
        raise Decline('_fromlist: neighbor tuples of the unordered branch are not both sorted: %r' % got)
    fl_cfg += [('upper_neighbors', got['upper_neighbors']), ('lower_neighbors', got['lower_neighbors'])]

    def lean(cfg):
        return '[%s]' % ', '.join('("%s", "%s")' % kv for kv in cfg)
    return '\n'.join([
        '/- GENERATED by harness/extract2.py from Lattice.__init__, _init and _fromlist in concepts/lattices.py — do not edit.',
        '   (what is sorted, by which order of the extents) -/',
        'namespace FCA.Generated', '',
        '/-- `Lattice.__init__` / `_init` -/',
        'def init_sort_cfg : List (String × String) := ' + lean(init_cfg), '',
        '/-- `Lattice._fromlist(..., unordered=True)` -/',
        'def fromlist_sort_cfg : List (String × String) := ' + lean(fl_cfg), '', 'end FCA.Generated', ''])


GENERATORS = GENERATORS + (('SortKeys', gen_sortkeys),)


# ---------------------------------------------------------------------------------------------------------------------

def gen_aggregate():
    """`Lattice.join` / `Lattice.meet`: which reduction folds the extents, which closure is looked up in the mapping."""
    tree = _src('lattices.py')
    cfg = {}
    for name in ('join', 'meet'):
        m = _method(tree, 'AggregagtionMixin', name)
        if [a.arg for a in m.args.args] != ['self', 'concepts'] or m.args.defaults or m.args.kwonlyargs:
            raise Decline('Lattice.%s: signature changed' % name)
        body = _nodoc(m.body)
        if len(body) != 3:
            raise Decline('Lattice.%s: expected three statements, got %d' % (name, len(body)))
        if ast.unparse(body[0]) != 'extents = (c._extent for c in concepts)':
            raise Decline('Lattice.%s: first statement changed: %s' % (name, ast.unparse(body[0])))
        st = body[1]
        if not (isinstance(st, ast.Assign) and len(st.targets) == 1 and isinstance(st.targets[0], ast.Name)
                and isinstance(st.value, ast.Call) and isinstance(st.value.func, ast.Attribute)
                and ast.unparse(st.value.func.value) == 'self._context._Objects'
                and [ast.unparse(a) for a in st.value.args] == ['extents'] and not st.value.keywords):
            raise Decline('Lattice.%s: second statement changed: %s' % (name, ast.unparse(st)))
        var, reduction = st.targets[0].id, st.value.func.attr
        ret = body[2]
        if not (isinstance(ret, ast.Return) and isinstance(ret.value, ast.Subscript)
                and ast.unparse(ret.value.value) == 'self._mapping'):
            raise Decline('Lattice.%s: return changed: %s' % (name, ast.unparse(ret)))
        key = ret.value.slice
        if not (isinstance(key, ast.Call) and isinstance(key.func, ast.Attribute) and isinstance(key.func.value, ast.Name)
                and key.func.value.id == var and not key.args and not key.keywords):
            raise Decline('Lattice.%s: looked-up key changed: %s' % (name, ast.unparse(key)))
        cfg[name] = (reduction, key.func.attr)
    return '\n'.join([
        '/- GENERATED by harness/extract2.py from Lattice.join / Lattice.meet in concepts/lattices.py — do not edit.',
        '   (reduction over the extents of the arguments, closure whose result is looked up in the mapping) -/',
        'namespace FCA.Generated', '',
        'def lattice_join_cfg : String × String := ("%s", "%s")' % cfg['join'],
        'def lattice_meet_cfg : String × String := ("%s", "%s")' % cfg['meet'], '', 'end FCA.Generated', ''])


GENERATORS = GENERATORS + (('Aggregate', gen_aggregate),)


# ---------------------------------------------------------------------------------------------------------------------

def gen_minimize():
    """`Context._minimize(extent, intent)` (behind `Concept.attributes()` / `minimal()`), statement by statement."""
    tree = _src('contexts.py')
    fn = _method(tree, 'MinimizeMixin', '_minimize')
    if [a.arg for a in fn.args.args] != ['extent', 'intent']:
        raise Decline('_minimize: signature changed')
    body = _nodoc(fn.body)
    if len(body) != 2 or not isinstance(body[0], ast.If) or not isinstance(body[1], ast.For):
        raise Decline('_minimize: expected `if ...: yield; return` and a loop')
    first = body[0]
    if ast.unparse(first.test) != 'not extent' or first.orelse or [ast.unparse(s) for s in first.body] != ['yield intent', 'return']:
        raise Decline('_minimize: the empty-extent case changed: %s' % ast.unparse(first))
    loop = body[1]
    if not isinstance(loop.target, ast.Name) or ast.unparse(loop.iter) != 'intent.powerset()' or loop.orelse:
        raise Decline('_minimize: loop header changed: for %s in %s' % (ast.unparse(loop.target), ast.unparse(loop.iter)))
    v = loop.target.id
    if len(loop.body) != 1 or not isinstance(loop.body[0], ast.If) or loop.body[0].orelse:
        raise Decline('_minimize: loop body changed')
    test = loop.body[0].test
    if [ast.unparse(s) for s in loop.body[0].body] != ['yield %s' % v]:
        raise Decline('_minimize: the loop yields something else: %s' % ast.unparse(loop.body[0]))

    def term(node):
        if isinstance(node, ast.Name) and node.id in ('extent', 'intent', v):
            return node.id
        if (isinstance(node, ast.Call) and isinstance(node.func, ast.Attribute) and node.func.attr == 'prime'
                and not node.args and not node.keywords):
            return '(prime %s)' % term(node.func.value)
        raise Decline('_minimize: unsupported term %s' % ast.unparse(node))
    if not (isinstance(test, ast.Compare) and len(test.ops) == 1 and isinstance(test.ops[0], (ast.Eq, ast.NotEq))):
        raise Decline('_minimize: unsupported filter %s' % ast.unparse(test))
    op = '==' if isinstance(test.ops[0], ast.Eq) else '!='
    cond = '%s %s %s' % (term(test.left), op, term(test.comparators[0]))
    # the two callers
    lm = _src('lattice_members.py')
    att = [ast.unparse(s) for s in _nodoc(_method(lm, 'Concept', 'attributes').body)]
    mini = [ast.unparse(s) for s in _nodoc(_method(lm, 'Concept', 'minimal').body)]
    inf = [ast.unparse(s) for s in _nodoc(_method(lm, 'Infimum', 'minimal').body)]
    mm = [ast.unparse(s) for s in _nodoc(_method(tree, 'MinimizeMixin', '_minimal').body)]
    want = {
        'Concept.attributes': (att, ['minimize = self.lattice._context._minimize(self._extent, self._intent)',
                                     'return (i.members() for i in minimize)']),
        'Concept.minimal': (mini, ['return self.lattice._context._minimal(self._extent, self._intent).members()']),
        'Infimum.minimal': (inf, ['if self._extent:\n    return super().minimal()', 'return self._intent.members()']),
        'Context._minimal': (mm, ['return next(cls._minimize(extent, intent))']),
    }
    for k, (got, exp) in want.items():
        if got != exp:
            raise Decline('%s changed: %r' % (k, got))
    return '\n'.join([
        '/- GENERATED by harness/extract2.py from Context._minimize in concepts/contexts.py — do not edit.',
        '   (`Concept.attributes`, `Concept.minimal`, `Infimum.minimal`, `Context._minimal` are compared with the expected text) -/',
        'namespace FCA.Generated', '',
        'def minimize (powerset : Nat → List Nat) (prime : Nat → Nat) (extent intent : Nat) : List Nat :=',
        '  if extent = 0 then [intent]',
        '  else (powerset intent).filter fun %s => %s' % (v, cond), '', 'end FCA.Generated', ''])


GENERATORS = GENERATORS + (('Minimize', gen_minimize),)


# ---------------------------------------------------------------------------------------------------------------------

def gen_fromdict_row():
    """`Context.fromdict`: the row validator `_make_set` and the cell expression of `bools`."""
    tree = _src('contexts.py')
    fn = _method(tree, 'Data', 'fromdict')
    inner = [st for st in fn.body if isinstance(st, ast.FunctionDef) and st.name == '_make_set']
    if len(inner) != 1:
        raise Decline('fromdict: no unique inner function _make_set')
    ms = inner[0]
    if [a.arg for a in ms.args.args] != ['r', 'indexes'] or [ast.unparse(d) for d in ms.args.defaults] != ['set(indexes)']:
        raise Decline('_make_set: signature changed')
    stmts = [ast.unparse(s) for s in fn.body]
    if 'indexes = tuple(range(len(properties)))' not in stmts:
        raise Decline('fromdict: `indexes = tuple(range(len(properties)))` is gone')
    want_bools = 'bools = [tuple((i in intent for i in indexes)) for intent in map(_make_set, context)]'
    if want_bools not in stmts:
        raise Decline('fromdict: the construction of bools changed')
    body = _nodoc(ms.body)
    if (len(body) < 2 or ast.unparse(body[0]) != 'result = set(r)' or ast.unparse(body[-1]) != 'return result'):
        raise Decline('_make_set: first / last statement changed')
    sets = {'result': 'r.eraseDups', 'r': 'r', 'indexes': 'indexes'}

    def length(node):
        if (isinstance(node, ast.Call) and isinstance(node.func, ast.Name) and node.func.id == 'len' and len(node.args) == 1
                and isinstance(node.args[0], ast.Name) and node.args[0].id in sets):
            return '%s.length' % sets[node.args[0].id]
        raise Decline('_make_set: unsupported number %s' % ast.unparse(node))

    def cond(node):
        if isinstance(node, ast.Compare) and len(node.ops) == 1 and isinstance(node.ops[0], ast.NotEq):
            return '(%s != %s)' % (length(node.left), length(node.comparators[0]))
        if isinstance(node, ast.UnaryOp) and isinstance(node.op, ast.Not):
            c = node.operand
            if (isinstance(c, ast.Call) and isinstance(c.func, ast.Attribute) and c.func.attr == 'issubset'
                    and isinstance(c.func.value, ast.Name) and c.func.value.id in sets and len(c.args) == 1
                    and isinstance(c.args[0], ast.Name) and c.args[0].id in sets):
                return '!(%s.all %s.contains)' % (sets[c.func.value.id], sets[c.args[0].id])
        raise Decline('_make_set: unsupported condition %s' % ast.unparse(node))
    conds = []
    for st in body[1:-1]:
        if not (isinstance(st, ast.If) and not st.orelse and len(st.body) == 1 and isinstance(st.body[0], ast.Raise)):
            raise Decline('_make_set: a statement that is not a guard: %s' % ast.unparse(st)[:60])
        exc = st.body[0].exc
        if not (isinstance(exc, ast.Call) and isinstance(exc.func, ast.Name) and exc.func.id == 'ValueError'):
            raise Decline('_make_set: a guard raises something else than ValueError')
        conds.append(cond(st.test))
    if not conds:
        raise Decline('_make_set: no guards')
    return '\n'.join([
        '/- GENERATED by harness/extract2.py from Context.fromdict (_make_set, bools) in concepts/contexts.py — do not edit.',
        '   `indexes` = set(range(len(properties))) as a list of Int; `set(r)` = r.eraseDups. -/',
        'namespace FCA.Generated', '',
        '/-- true iff `_make_set(r)` raises `ValueError` for a row of ints -/',
        'def fromdict_rowRejects (np : Nat) (r : List Int) : Bool :=',
        '  let indexes : List Int := (List.range np).map Int.ofNat',
        '  ' + ' || '.join(conds), '',
        '/-- the cells of one row: `tuple(i in intent for i in indexes)` -/',
        'def fromdict_rowCells (np : Nat) (r : List Int) : List Bool :=',
        '  (List.range np).map fun i => r.eraseDups.contains (Int.ofNat i)', '', 'end FCA.Generated', ''])


GENERATORS = GENERATORS + (('FromdictRow', gen_fromdict_row),)


# ---------------------------------------------------------------------------------------------------------------------

class DefTr:
    """Straight-line `Definition` mutators (calls of `Unique` / `set` methods on `self._objects`, `self._properties`, `self._pairs`,
    `if`/`else`, one `for` over the current names) -> a Lean function in `Except Err` over the state (objs, props, pairs)."""

    FIELD = {'self._objects': 'objs', 'self._properties': 'props', 'self._pairs': 'pairs'}
    OTHER = {'other._objects': 'other.objs', 'other._properties': 'other.props', 'other._pairs': 'other.pairs'}

    def __init__(self, names, lists, bools):
        self.names = dict(names)      # python name -> lean term : Name
        self.lists = dict(lists)      # python name -> lean term : List Name
        self.bools = dict(bools)      # python name -> lean term : Bool
        self.alias = {}               # local alias of a field
        self.pairvars = {}            # python name -> (o term, p term)
        self.ret = None               # lean term of the returned list of names (None: the method returns None)

    def field(self, node):
        try:
            d = dotted(node)
        except Decline:
            d = None
        if d in self.FIELD:
            return self.FIELD[d]
        if d in self.alias:
            return self.alias[d]
        raise Decline('not a field of the definition: %s' % ast.unparse(node))

    def name(self, node, loc):
        if isinstance(node, ast.Name):
            if node.id in loc:
                return loc[node.id]
            if node.id in self.names:
                return self.names[node.id]
        raise Decline('unsupported name expression %s' % ast.unparse(node))

    def pair(self, node, loc):
        if isinstance(node, ast.Name) and node.id in self.pairvars:
            return '(%s, %s)' % self.pairvars[node.id]
        if isinstance(node, ast.Tuple) and len(node.elts) == 2:
            return '(%s, %s)' % (self.name(node.elts[0], loc), self.name(node.elts[1], loc))
        raise Decline('unsupported pair %s' % ast.unparse(node))

    def namelist(self, node):
        if isinstance(node, ast.Name) and node.id in self.lists:
            return self.lists[node.id]
        try:
            d = dotted(node)
        except Decline:
            d = None
        if d in self.OTHER:
            return self.OTHER[d]
        if d in self.FIELD and self.FIELD[d] != 'pairs':
            return self.FIELD[d]
        raise Decline('unsupported list of names %s' % ast.unparse(node))

    def block(self, stmts, ind, loc):
        if not stmts:
            if self.ret is not None:
                return [ind + '.ok ((⟨objs, props, pairs⟩ : Defn), %s)' % self.ret]
            return [ind + '.ok (⟨objs, props, pairs⟩ : Defn)']
        st, rest = stmts[0], stmts[1:]
        go = lambda line: [ind + line] + self.block(rest, ind, loc)      # noqa: E731
        if isinstance(st, ast.Return) and not rest and isinstance(st.value, ast.Name) and st.value.id in self.lists:
            self.ret = self.lists[st.value.id]
            return self.block([], ind, loc)
        if isinstance(st, ast.If):
            t = ast.unparse(st.test)
            if t == 'isinstance(pair, int)':          # well-typed arguments only
                return self.block(rest, ind, loc)
            if t == 'not ignore_conflicts' and [ast.unparse(s) for s in st.body] == ['ensure_compatible(self, other)'] and not st.orelse:
                return ([ind + 'if !ignore_conflicts && !(conflicts ⟨objs, props, pairs⟩ other).isEmpty then .error .valueError',
                         ind + 'else'] + self.block(rest, ind + '  ', loc))
            if isinstance(st.test, ast.Name) and st.test.id in self.bools:
                return ([ind + 'if %s then' % self.bools[st.test.id]] + self.block(list(st.body) + rest, ind + '  ', loc)
                        + [ind + 'else'] + self.block(list(st.orelse) + rest, ind + '  ', loc))
            raise Decline('unsupported condition %s' % t)
        if isinstance(st, ast.Assign) and len(st.targets) == 1:
            tgt, v = st.targets[0], st.value
            if isinstance(tgt, ast.Tuple) and isinstance(v, ast.Name) and v.id == 'pair' and len(tgt.elts) == 2:
                a, b = tgt.elts[0].id, tgt.elts[1].id
                self.pairvars['pair'] = (a, b)
                self.names[a], self.names[b] = a, b
                return self.block(rest, ind, loc)
            if isinstance(tgt, ast.Name) and isinstance(v, ast.SetComp) and len(v.generators) == 1 and not v.generators[0].ifs:
                g = v.generators[0]          # {o for o, _ in self._pairs}: the names occurring in a true cell
                if (isinstance(g.target, ast.Tuple) and len(g.target.elts) == 2 and all(isinstance(e, ast.Name) for e in g.target.elts)
                        and self.field(g.iter) == 'pairs' and isinstance(v.elt, ast.Name)
                        and v.elt.id in [e.id for e in g.target.elts]):
                    a, b = (e.id for e in g.target.elts)
                    self.lists[tgt.id] = tgt.id
                    return go('let %s := pairs.map fun (%s, %s) => %s' % (tgt.id, a, b, v.elt.id))
                raise Decline('unsupported set comprehension %s' % ast.unparse(v))
            if isinstance(tgt, ast.Name) and isinstance(v, ast.ListComp) and len(v.generators) == 1 and len(v.generators[0].ifs) == 1:
                g = v.generators[0]          # [o for o in self._objects if o not in nonempty]
                c = g.ifs[0]
                if (isinstance(g.target, ast.Name) and isinstance(v.elt, ast.Name) and v.elt.id == g.target.id
                        and isinstance(c, ast.Compare) and len(c.ops) == 1 and isinstance(c.ops[0], (ast.In, ast.NotIn))
                        and isinstance(c.left, ast.Name) and c.left.id == g.target.id
                        and isinstance(c.comparators[0], ast.Name) and c.comparators[0].id in self.lists):
                    t = '%s.contains %s' % (self.lists[c.comparators[0].id], g.target.id)
                    if isinstance(c.ops[0], ast.NotIn):
                        t = '!(%s)' % t
                    src = self.namelist(g.iter)
                    self.lists[tgt.id] = tgt.id
                    return go('let %s := %s.filter fun %s => %s' % (tgt.id, src, g.target.id, t))
                raise Decline('unsupported list comprehension %s' % ast.unparse(v))
            if isinstance(tgt, ast.Name):
                try:
                    f = self.field(v)
                    self.alias[tgt.id] = f
                    return self.block(rest, ind, loc)
                except Decline:
                    pass
                if (isinstance(v, ast.Call) and dotted(v.func) == 'tools.Unique' and len(v.args) == 1
                        and isinstance(v.args[0], ast.Name) and v.args[0].id == tgt.id and tgt.id in self.lists):
                    self.lists[tgt.id] = tgt.id
                    return go('let %s := uniq %s' % (tgt.id, self.lists[tgt.id] if self.lists[tgt.id] != tgt.id else tgt.id))
            raise Decline('unsupported assignment %s' % ast.unparse(st))
        if isinstance(st, ast.AugAssign):
            f = self.field(st.target)
            if f in ('objs', 'props'):
                arg = self.namelist(st.value)
                if isinstance(st.op, ast.BitOr):
                    return go('let %s := uIor %s %s' % (f, f, arg))
                if isinstance(st.op, ast.BitAnd):
                    return go('let %s := uIand %s %s' % (f, f, arg))
            elif isinstance(st.value, ast.SetComp) and isinstance(st.op, ast.BitOr):
                # move-by-side-effect idiom: {NEW for v in NAMES if OLD in pairs and (not pairs.remove(OLD))}
                sc = st.value
                if not (len(sc.generators) == 1 and isinstance(sc.generators[0].target, ast.Name) and len(sc.generators[0].ifs) == 1):
                    raise Decline('unsupported comprehension %s' % ast.unparse(sc))
                g = sc.generators[0]
                v = g.target.id
                src = self.namelist(g.iter)
                loc2 = dict(loc, **{v: v})
                cond = g.ifs[0]
                if not (isinstance(cond, ast.BoolOp) and isinstance(cond.op, ast.And) and len(cond.values) == 2):
                    raise Decline('unsupported comprehension filter %s' % ast.unparse(cond))
                test, rem = cond.values
                if not (isinstance(test, ast.Compare) and len(test.ops) == 1 and isinstance(test.ops[0], ast.In)
                        and self.field(test.comparators[0]) == 'pairs'):
                    raise Decline('unsupported comprehension filter %s' % ast.unparse(cond))
                oldpair = self.pair(test.left, loc2)
                if not (isinstance(rem, ast.UnaryOp) and isinstance(rem.op, ast.Not) and isinstance(rem.operand, ast.Call)
                        and isinstance(rem.operand.func, ast.Attribute) and rem.operand.func.attr == 'remove'
                        and self.field(rem.operand.func.value) == 'pairs' and len(rem.operand.args) == 1
                        and self.pair(rem.operand.args[0], loc2) == oldpair):
                    raise Decline('unsupported comprehension filter %s' % ast.unparse(cond))
                newpair = self.pair(sc.elt, loc2)
                return ([ind + 'let moved := %s.filter fun %s => pairs.contains %s' % (src, v, oldpair),
                         ind + 'let pairs := pDifference pairs (moved.map fun %s => %s)' % (v, oldpair),
                         ind + 'let pairs := (moved.map fun %s => %s).foldl pAdd pairs' % (v, newpair)] + self.block(rest, ind, loc))
            elif ast.unparse(st.value) == 'other._pairs':
                if isinstance(st.op, ast.BitOr):
                    return go('let pairs := other.pairs.foldl pAdd pairs')
                if isinstance(st.op, ast.BitAnd):
                    return go('let pairs := pairs.filter other.pairs.contains')
            raise Decline('unsupported augmented assignment %s' % ast.unparse(st))
        if isinstance(st, ast.Expr) and isinstance(st.value, ast.Call) and isinstance(st.value.func, ast.Attribute):
            call = st.value
            f, meth = self.field(call.func.value), call.func.attr
            if call.keywords:
                raise Decline('keyword arguments in %s' % ast.unparse(st))
            if f in ('objs', 'props'):
                if meth == 'add' and len(call.args) == 1:
                    return go('let %s := uAdd %s %s' % (f, f, self.name(call.args[0], loc)))
                if meth == 'move' and len(call.args) == 2 and isinstance(call.args[1], ast.Name) and call.args[1].id == 'index':
                    return go('let %s ← uMove %s %s index' % (f, f, self.name(call.args[0], loc)))
                if meth == 'remove' and len(call.args) == 1:
                    return go('let %s ← uRemove %s %s' % (f, f, self.name(call.args[0], loc)))
                if meth == 'replace' and len(call.args) == 2:
                    return go('let %s ← uReplace %s %s %s' % (f, f, self.name(call.args[0], loc), self.name(call.args[1], loc)))
            else:
                if meth in ('add', 'discard') and len(call.args) == 1:
                    return go('let pairs := %s pairs %s' % ({'add': 'pAdd', 'discard': 'pDiscard'}[meth], self.pair(call.args[0], loc)))
                if meth == 'difference_update' and len(call.args) == 1 and isinstance(call.args[0], ast.GeneratorExp):
                    g = call.args[0]
                    if len(g.generators) == 1 and not g.generators[0].ifs and isinstance(g.generators[0].target, ast.Name):
                        v = g.generators[0].target.id
                        src = self.namelist(g.generators[0].iter)
                        return go('let pairs := pDifference pairs (%s.map fun %s => %s)' % (src, v, self.pair(g.elt, dict(loc, **{v: v}))))
                if meth == 'update' and len(call.args) == 1 and isinstance(call.args[0], ast.GeneratorExp):
                    g = call.args[0]
                    if len(g.generators) == 1 and not g.generators[0].ifs and isinstance(g.generators[0].target, ast.Name):
                        v = g.generators[0].target.id
                        src = self.namelist(g.generators[0].iter)
                        return go('let pairs := %s.foldl (fun acc %s => pAdd acc %s) pairs' % (src, v, self.pair(g.elt, dict(loc, **{v: v}))))
            raise Decline('unsupported call %s' % ast.unparse(st))
        if (isinstance(st, ast.For) and not st.orelse and isinstance(st.target, ast.Name) and len(st.body) == 1
                and isinstance(st.body[0], ast.Expr) and isinstance(st.body[0].value, ast.Call)
                and isinstance(st.body[0].value.func, ast.Attribute) and st.body[0].value.func.attr == 'remove'
                and isinstance(st.iter, ast.Name) and st.iter.id in self.lists):
            v = st.target.id
            call = st.body[0].value
            f = self.field(call.func.value)
            if f in ('objs', 'props') and [ast.unparse(a) for a in call.args] == [v]:
                return go('let %s ← %s.foldlM (fun acc %s => uRemove acc %s) %s' % (f, self.lists[st.iter.id], v, v, f))
            raise Decline('unsupported removal loop %s' % ast.unparse(st)[:60])
        if isinstance(st, ast.For) and not st.orelse and isinstance(st.target, ast.Name):
            v = st.target.id
            src = self.namelist(st.iter)
            if len(st.body) == 1 and isinstance(st.body[0], ast.If) and len(st.body[0].body) == 1 and len(st.body[0].orelse) == 1:
                c = st.body[0]
                t = c.test
                if (isinstance(t, ast.Compare) and len(t.ops) == 1 and isinstance(t.ops[0], ast.In) and isinstance(t.left, ast.Name)
                        and t.left.id == v and isinstance(t.comparators[0], ast.Name) and t.comparators[0].id in self.lists):
                    loc2 = dict(loc, **{v: v})

                    def one(s):
                        if (isinstance(s, ast.Expr) and isinstance(s.value, ast.Call) and isinstance(s.value.func, ast.Attribute)
                                and self.field(s.value.func.value) == 'pairs' and s.value.func.attr in ('add', 'discard')
                                and len(s.value.args) == 1):
                            return '%s acc %s' % ({'add': 'pAdd', 'discard': 'pDiscard'}[s.value.func.attr], self.pair(s.value.args[0], loc2))
                        raise Decline('unsupported loop statement %s' % ast.unparse(s))
                    return go('let pairs := %s.foldl (fun acc %s => if %s.contains %s then %s else %s) pairs'
                              % (src, v, self.lists[t.comparators[0].id], v, one(c.body[0]), one(c.orelse[0])))
            raise Decline('unsupported loop %s' % ast.unparse(st)[:60])
        raise Decline('unsupported statement %s' % ast.unparse(st)[:60])


def gen_defn():
    tree = _src('definitions.py')
    spec = [
        ('__setitem__', ['self', 'pair', 'value'], '(o p : Name) (value : Bool)', dict(names={}, lists={}, bools={'value': 'value'})),
        ('move_object', ['self', 'obj', 'index'], '(obj : Name) (index : Int)', dict(names={'obj': 'obj'}, lists={}, bools={})),
        ('move_property', ['self', 'prop', 'index'], '(prop : Name) (index : Int)', dict(names={'prop': 'prop'}, lists={}, bools={})),
        ('add_object', ['self', 'obj', 'properties'], '(obj : Name) (properties : List Name)', dict(names={'obj': 'obj'}, lists={'properties': 'properties'}, bools={})),
        ('add_property', ['self', 'prop', 'objects'], '(prop : Name) (objects : List Name)', dict(names={'prop': 'prop'}, lists={'objects': 'objects'}, bools={})),
        ('set_object', ['self', 'obj', 'properties'], '(obj : Name) (properties : List Name)', dict(names={'obj': 'obj'}, lists={'properties': 'properties'}, bools={})),
        ('set_property', ['self', 'prop', 'objects'], '(prop : Name) (objects : List Name)', dict(names={'prop': 'prop'}, lists={'objects': 'objects'}, bools={})),
        ('rename_object', ['self', 'old', 'new'], '(old new : Name)', dict(names={'old': 'old', 'new': 'new'}, lists={}, bools={})),
        ('rename_property', ['self', 'old', 'new'], '(old new : Name)', dict(names={'old': 'old', 'new': 'new'}, lists={}, bools={})),
        ('remove_object', ['self', 'obj'], '(obj : Name)', dict(names={'obj': 'obj'}, lists={}, bools={})),
        ('remove_property', ['self', 'prop'], '(prop : Name)', dict(names={'prop': 'prop'}, lists={}, bools={})),
        ('remove_empty_objects', ['self'], '', dict(names={}, lists={}, bools={})),
        ('remove_empty_properties', ['self'], '', dict(names={}, lists={}, bools={})),
        ('union_update', ['self', 'other', 'ignore_conflicts'], '(other : Defn) (ignore_conflicts : Bool)', dict(names={}, lists={}, bools={})),
        ('intersection_update', ['self', 'other', 'ignore_conflicts'], '(other : Defn) (ignore_conflicts : Bool)', dict(names={}, lists={}, bools={})),
    ]
    out = ['import FCA.Model.DefnExtra',
           '/- GENERATED by harness/extract2.py from MutableMixin in concepts/definitions.py — do not edit.',
           '   Straight-line mutators, statement by statement, over the state (objs, props, pairs); `Unique` / `set` methods are the',
           '   primitives of Model/Defn.lean and Model/DefnExtra.lean (uAdd, uIor, uIand, uMove, uRemove, uniq, pAdd, pDiscard, pDifference), `ensure_compatible` is `conflicts`. -/',
           'namespace FCA.Generated', '']
    for name, args, params, kw in spec:
        m = _method(tree, 'MutableMixin', name)
        if [a.arg for a in m.args.args] != args:
            raise Decline('%s: signature changed' % name)
        tr = DefTr(**kw)
        lines = tr.block(_nodoc(m.body), '  ', {})
        lean_name = 'defn_' + name.strip('_')
        rtype = 'Defn' if tr.ret is None else '(Defn × List Name)'
        out += ['/-- `Definition.%s` -/' % name,
                'def %s (objs props : List Name) (pairs : List (Name × Name)) %s : Except Err %s := do' % (lean_name, params, rtype)] + lines + ['']
    return '\n'.join(out + ['end FCA.Generated', ''])


GENERATORS = GENERATORS + (('Defn', gen_defn),)


# ---------------------------------------------------------------------------------------------------------------------

class CompTr:
    """Set comprehensions / nested loops over names and pairs of a definition -> Lean list expressions.
    `A & B` on `Unique` operands is `collections.abc.Set.__and__`: the members of B that are in A, in B's order."""

    def __init__(self, seqs, pairsets, xors=None):
        self.seqs = dict(seqs)            # python expr text -> lean term : List Name
        self.pairsets = dict(pairsets)    # python expr text -> lean term : List (Name × Name)
        self.xors = dict(xors or {})      # python name -> (lean pair list, lean pair list): symmetric difference of two pair sets

    def seq(self, node):
        t = ast.unparse(node)
        if t in self.seqs:
            return self.seqs[t]
        raise Decline('unsupported sequence of names %s' % t)

    def pair(self, node, bound):
        if isinstance(node, ast.Tuple) and len(node.elts) == 2 and all(isinstance(e, ast.Name) and e.id in bound for e in node.elts):
            return '(%s, %s)' % (node.elts[0].id, node.elts[1].id)
        raise Decline('unsupported pair %s' % ast.unparse(node))

    def cond(self, node, bound):
        if isinstance(node, ast.Compare) and len(node.ops) == 1 and isinstance(node.ops[0], (ast.In, ast.NotIn)):
            neg = isinstance(node.ops[0], ast.NotIn)
            pr = self.pair(node.left, bound)
            t = ast.unparse(node.comparators[0])
            if t in self.pairsets:
                c = '%s.contains %s' % (self.pairsets[t], pr)
            elif t in self.xors:
                a, b = self.xors[t]
                c = '(%s.contains %s != %s.contains %s)' % (a, pr, b, pr)
            else:
                raise Decline('membership in %s' % t)
            return '!(%s)' % c if neg else c
        raise Decline('unsupported filter %s' % ast.unparse(node))

    def nested(self, gens, elt, conds):
        """[(target name, iter node)] outer to inner (two levels), element, filter conditions"""
        if len(gens) != 2 or not all(isinstance(t, ast.Name) for t, _ in gens):
            raise Decline('unsupported generators')
        (a, ia), (b, ib) = gens
        bound = {a.id, b.id}
        body = 'some %s' % self.pair(elt, bound)
        if conds:
            body = 'if %s then %s else none' % (' && '.join(self.cond(c, bound) for c in conds), body)
        return '%s.flatMap fun %s => %s.filterMap fun %s => %s' % (self.seq(ia), a.id, self.seq(ib), b.id, body)

    def setcomp(self, node):
        if not isinstance(node, ast.SetComp):
            raise Decline('expected a set comprehension: %s' % ast.unparse(node))
        gs = node.generators
        if len(gs) == 1 and not gs[0].ifs and isinstance(gs[0].target, ast.Tuple) and len(gs[0].target.elts) == 2:
            t = ast.unparse(gs[0].iter)
            if t not in self.pairsets:
                raise Decline('comprehension over %s' % t)
            a, b = (e.id for e in gs[0].target.elts)
            return '%s.map fun (%s, %s) => %s' % (self.pairsets[t], a, b, self.pair(node.elt, {a, b}))
        conds = [c for g in gs for c in g.ifs]
        if any(g.ifs for g in gs[:-1]):
            raise Decline('a filter on the outer generator')
        return self.nested([(g.target, g.iter) for g in gs], node.elt, conds)


def gen_derive():
    tree = _src('definitions.py')
    out = ['import FCA.Model.Defn',
           '/- GENERATED by harness/extract2.py from Triple.copy, TransformableMixin.inverted / transposed and conflicting_pairs in',
           '   concepts/definitions.py — do not edit. `_fromargs(a, b, c)` builds a definition from the three parts; `x.copy()` of a',
           '   `Unique` / set is the same value (non-aliasing is the subject of Model/DefnHeap.lean). -/',
           'namespace FCA.Generated', '']
    tr = CompTr(seqs={'self._objects': 'd.objs', 'self._properties': 'd.props'},
                pairsets={'self._pairs': 'd.pairs', 'pairs': 'd.pairs'})

    def part(node, kind):
        """an argument of _fromargs"""
        if (isinstance(node, ast.Call) and isinstance(node.func, ast.Attribute) and node.func.attr == 'copy' and not node.args
                and not node.keywords):
            t = ast.unparse(node.func.value)
            table = tr.seqs if kind == 'names' else tr.pairsets
            if t in table:
                return table[t]
            raise Decline('copy of %s' % t)
        if kind == 'pairs':
            return tr.setcomp(node)
        raise Decline('unsupported part %s' % ast.unparse(node))

    for cls, name in (('Triple', 'copy'), ('TransformableMixin', 'inverted'), ('TransformableMixin', 'transposed')):
        m = _method(tree, cls, name)
        if [a.arg for a in m.args.args] != ['self']:
            raise Decline('%s: signature changed' % name)
        body = _nodoc(m.body)
        if len(body) == 2 and ast.unparse(body[0]) == 'pairs = self._pairs':
            body = body[1:]
        if len(body) != 1 or not isinstance(body[0], ast.Return):
            raise Decline('%s: body changed' % name)
        call = body[0].value
        if not (isinstance(call, ast.Call) and ast.unparse(call.func) == 'self._fromargs' and len(call.args) == 3 and not call.keywords):
            raise Decline('%s: does not return self._fromargs(a, b, c)' % name)
        out += ['/-- `Definition.%s()` -/' % name,
                'def defn_%s (d : Defn) : Defn :=' % name,
                '  ⟨%s, %s, %s⟩' % (part(call.args[0], 'names'), part(call.args[1], 'names'), part(call.args[2], 'pairs')), '']
    # conflicting_pairs(left, right)
    fn = _function(tree, 'conflicting_pairs')
    if [a.arg for a in fn.args.args] != ['left', 'right']:
        raise Decline('conflicting_pairs: signature changed')
    body = _nodoc(fn.body)
    seqs, xors = {}, {}
    for st in body[:-1]:
        if not (isinstance(st, ast.Assign) and len(st.targets) == 1 and isinstance(st.targets[0], ast.Name) and isinstance(st.value, ast.BinOp)):
            raise Decline('conflicting_pairs: unsupported statement %s' % ast.unparse(st))
        l, r = ast.unparse(st.value.left), ast.unparse(st.value.right)
        names = {'left._objects': 'l.objs', 'right._objects': 'r.objs', 'left._properties': 'l.props', 'right._properties': 'r.props'}
        prs = {'left._pairs': 'l.pairs', 'right._pairs': 'r.pairs'}
        if isinstance(st.value.op, ast.BitAnd) and l in names and r in names:
            seqs[st.targets[0].id] = '(%s.filter %s.contains)' % (names[r], names[l])      # Set.__and__: right operand's order
        elif isinstance(st.value.op, ast.BitXor) and l in prs and r in prs:
            xors[st.targets[0].id] = (prs[l], prs[r])
        else:
            raise Decline('conflicting_pairs: unsupported statement %s' % ast.unparse(st))
    loop = body[-1]
    if not (isinstance(loop, ast.For) and len(loop.body) == 1 and isinstance(loop.body[0], ast.For) and not loop.orelse):
        raise Decline('conflicting_pairs: the nested loops changed')
    inner = loop.body[0]
    if not (len(inner.body) == 1 and isinstance(inner.body[0], ast.If) and not inner.body[0].orelse and len(inner.body[0].body) == 1):
        raise Decline('conflicting_pairs: the inner loop body changed')
    y = inner.body[0].body[0]
    if not (isinstance(y, ast.Expr) and isinstance(y.value, ast.Yield) and y.value.value is not None):
        raise Decline('conflicting_pairs: the inner loop does not yield')
    tr2 = CompTr(seqs=seqs, pairsets={}, xors=xors)
    expr = tr2.nested([(loop.target, loop.iter), (inner.target, inner.iter)], y.value.value, [inner.body[0].test])
    ec = [ast.unparse(s) for s in _nodoc(_function(tree, 'ensure_compatible').body)]
    if (len(ec) != 2 or ec[0] != 'conflicts = list(conflicting_pairs(left, right))' or not ec[1].startswith('if conflicts:\n    raise ValueError(')):
        raise Decline('ensure_compatible changed: %r' % ec)
    out += ['/-- `conflicting_pairs(left, right)` in yield order (`ensure_compatible` raises `ValueError` iff it is non-empty) -/',
            'def conflicting_pairs (l r : Defn) : List (Name × Name) :=', '  ' + expr, '', 'end FCA.Generated', '']
    return '\n'.join(out)


GENERATORS = GENERATORS + (('Derive', gen_derive),)


# ---------------------------------------------------------------------------------------------------------------------

def gen_dot():
    """`visualize.lattice`: the body of `for concept in lattice._concepts:` as a sequence of DOT statements."""
    tree = _src('visualize.py')
    consts = {ast.unparse(st) for st in tree.body if isinstance(st, ast.Assign)}
    for need in ("SORTKEYS = [lambda c: c.index]", "NAME_GETTERS = [lambda c: f'c{c.index:d}']"):
        if need not in consts:
            raise Decline('visualize: %r is gone' % need)
    fn = _function(tree, 'lattice')
    args = [a.arg for a in fn.args.args]
    if args[:5] != ['lattice', 'filename', 'directory', 'render', 'view'] or 'make_object_label' not in args or 'make_property_label' not in args:
        raise Decline('visualize.lattice: signature changed')
    body = _nodoc(fn.body)
    texts = [ast.unparse(s) for s in body]
    for need in ('sortkey = SORTKEYS[0]', 'node_name = NAME_GETTERS[0]'):
        if need not in texts:
            raise Decline('visualize.lattice: %r is gone' % need)
    loops = [s for s in body if isinstance(s, ast.For)]
    if len(loops) != 1 or ast.unparse(loops[0].target) != 'concept' or ast.unparse(loops[0].iter) != 'lattice._concepts' or loops[0].orelse:
        raise Decline('visualize.lattice: no unique loop over lattice._concepts')
    if not isinstance(body[-1], ast.Return) or ast.unparse(body[-1].value) != 'dot':
        raise Decline('visualize.lattice: does not return dot')
    LABEL = {'headlabel': ('make_object_label', 'objects', 'objectLabel'),
             'taillabel': ('make_property_label', 'properties', 'propertyLabel')}

    def label_edge(st, attr):
        """dot.edge(name, name, <head|tail>label=make_*_label(concept.<attr>), ...) -> DotItem constructor"""
        if not (isinstance(st, ast.Expr) and isinstance(st.value, ast.Call) and ast.unparse(st.value.func) == 'dot.edge'
                and [ast.unparse(a) for a in st.value.args] == ['name', 'name']):
            raise Decline('unsupported statement in a label branch: %s' % ast.unparse(st)[:60])
        found = None
        for kw in st.value.keywords:
            if kw.arg in LABEL:
                cb, want_attr, ctor = LABEL[kw.arg]
                if ast.unparse(kw.value) != '%s(concept.%s)' % (cb, want_attr) or found:
                    raise Decline('label text is %s' % ast.unparse(kw.value))
                found = (want_attr, ctor)
        if not found or found[0] != attr:
            raise Decline('the label edge guarded by concept.%s carries %r' % (attr, found))
        return found[1]

    lines = []
    for st in loops[0].body:
        t = ast.unparse(st)
        if t == 'name = node_name(concept)':
            continue
        if t == 'dot.node(name)':
            lines.append('  let out := out ++ [DotItem.node c.index]')
        elif isinstance(st, ast.If) and not st.orelse and len(st.body) == 1 and ast.unparse(st.test) in ('concept.objects', 'concept.properties'):
            attr = ast.unparse(st.test).split('.')[1]
            ctor = label_edge(st.body[0], attr)
            lines.append('  let out := if !c.%s.isEmpty then out ++ [DotItem.%s c.index c.%s] else out' % (attr, ctor, attr))
        elif t == 'dot.edges(((name, node_name(c)) for c in sorted(concept.lower_neighbors, key=sortkey)))':
            lines.append('  let out := out ++ (sortBy id c.lower).map (DotItem.edge c.index)')
        else:
            raise Decline('visualize.lattice: unsupported statement in the loop: %s' % t[:70])
    if not any('DotItem.node' in l for l in lines):
        raise Decline('visualize.lattice: no node statement')
    return '\n'.join([
        'import FCA.Model.Misc',
        '/- GENERATED by harness/extract2.py from visualize.lattice in concepts/visualize.py — do not edit.',
        '   Node names are `c<index>` (NAME_GETTERS[0]), edges go to the lower neighbors sorted by index (SORTKEYS[0]). -/',
        'namespace FCA.Generated', '',
        '/-- body of `for concept in lattice._concepts:`; `out` = the DOT statements so far -/',
        'def dot_body (c : LConcept) (out : List DotItem) : List DotItem :='] + lines + ['  out', '', 'end FCA.Generated', ''])


GENERATORS = GENERATORS + (('Dot', gen_dot),)


# ---------------------------------------------------------------------------------------------------------------------

def gen_getitem():
    """`Context.__getitem__` (try objects / except KeyError: properties / else), `intension`, `extension`, `neighbors`, and
    `Lattice.__getitem__` / `__call__`."""
    tree = _src('contexts.py')
    m = _method(tree, 'PrimeMixin', '__getitem__')
    if [a.arg for a in m.args.args] != ['self', 'items', 'raw']:
        raise Decline('Context.__getitem__: signature changed')
    body = _nodoc(m.body)
    FAM = {'self._Objects': 'O', 'self._Properties': 'P'}

    def frommembers(node, arg):
        """self._X.frommembers(<arg>) -> family letter"""
        if (isinstance(node, ast.Call) and isinstance(node.func, ast.Attribute) and node.func.attr == 'frommembers'
                and ast.unparse(node.func.value) in FAM and [ast.unparse(a) for a in node.args] == [arg] and not node.keywords):
            return FAM[ast.unparse(node.func.value)]
        raise Decline('not a frommembers(%s) call: %s' % (arg, ast.unparse(node)))

    def unpack_dp(st, env):
        """a, b = x.doubleprime() -> lean line; env maps python names to the family of the bit set they hold"""
        if not (isinstance(st, ast.Assign) and len(st.targets) == 1 and isinstance(st.targets[0], ast.Tuple) and len(st.targets[0].elts) == 2
                and isinstance(st.value, ast.Call) and isinstance(st.value.func, ast.Attribute) and st.value.func.attr == 'doubleprime'
                and isinstance(st.value.func.value, ast.Name) and st.value.func.value.id in env and not st.value.args):
            raise Decline('unsupported statement %s' % ast.unparse(st))
        src = st.value.func.value.id
        a, b = (e.id for e in st.targets[0].elts)
        return 'let (%s, %s) := doubleprime%s %s' % (a, b, env[src], src)

    if len(body) < 3 or ast.unparse(body[0]) != 'items = tuple(items)' or not isinstance(body[1], ast.Try):
        raise Decline('Context.__getitem__: expected `items = tuple(items)` and a try statement')
    tr = body[1]
    if (len(tr.body) != 1 or len(tr.handlers) != 1 or ast.unparse(tr.handlers[0].type) != 'KeyError' or tr.handlers[0].name or tr.finalbody):
        raise Decline('Context.__getitem__: the try statement changed')
    t0 = tr.body[0]
    if not (isinstance(t0, ast.Assign) and len(t0.targets) == 1 and isinstance(t0.targets[0], ast.Name)):
        raise Decline('Context.__getitem__: try body changed')
    v1, f1 = t0.targets[0].id, frommembers(t0.value, 'items')
    if len(tr.orelse) != 1:
        raise Decline('Context.__getitem__: else branch changed')
    ok_line = unpack_dp(tr.orelse[0], {v1: f1})
    h = tr.handlers[0].body
    if len(h) != 2 or not (isinstance(h[0], ast.Assign) and len(h[0].targets) == 1 and isinstance(h[0].targets[0], ast.Name)):
        raise Decline('Context.__getitem__: except branch changed')
    v2, f2 = h[0].targets[0].id, frommembers(h[0].value, 'items')
    ex_line = unpack_dp(h[1], {v2: f2})
    tail = [ast.unparse(s) for s in body[2:]]
    if tail != ['if raw:\n    return (extent, intent)', 'return (extent.members(), intent.members())']:
        raise Decline('Context.__getitem__: the return statements changed: %r' % tail)
    out = ['import FCA.Model.Defn',
           '/- GENERATED by harness/extract2.py from Context.__getitem__ / intension / extension / neighbors in concepts/contexts.py and',
           '   Lattice.__getitem__ / __call__ in concepts/lattices.py — do not edit. `frommembersX items = none` stands for the KeyError. -/',
           'namespace FCA.Generated', '',
           'def ctx_getitem (frommembersO frommembersP : List Name → Option Nat) (doubleprimeO doubleprimeP : Nat → Nat × Nat)',
           '    (items : List Name) : Except Err (Nat × Nat) :=',
           '  match frommembers%s items with' % f1,
           '  | some %s =>' % v1, '    ' + ok_line, '    .ok (extent, intent)',
           '  | none =>',
           '    match frommembers%s items with' % f2,
           '    | some %s =>' % v2, '      ' + ex_line, '      .ok (extent, intent)',
           '    | none => .error .keyError', '']
    # one-line derivations: (family, operation)
    cfg = {}
    for name, arg, var in (('intension', 'objects', 'intent'), ('extension', 'properties', 'extent')):
        mm = _method(tree, 'PrimeMixin', name)
        b = _nodoc(mm.body)
        if len(b) != 3 or [ast.unparse(s) for s in b[1:]] != ['if raw:\n    return %s' % var, 'return %s.members()' % var]:
            raise Decline('%s: body changed' % name)
        st = b[0]
        if not (isinstance(st, ast.Assign) and ast.unparse(st.targets[0]) == var and isinstance(st.value, ast.Call)
                and isinstance(st.value.func, ast.Attribute) and not st.value.args):
            raise Decline('%s: first statement changed' % name)
        cfg[name] = (frommembers(st.value.func.value, arg), st.value.func.attr)
    nb = _method(tree, 'LatticeMixin', 'neighbors')
    b = _nodoc(nb.body)
    st = b[0]
    if not (isinstance(st, ast.Assign) and ast.unparse(st.targets[0]) == 'objects' and isinstance(st.value, ast.Call)
            and isinstance(st.value.func, ast.Attribute) and not st.value.args):
        raise Decline('neighbors: first statement changed')
    cfg['neighbors'] = (frommembers(st.value.func.value, 'objects'), st.value.func.attr)
    if [ast.unparse(s) for s in b[1:]] != ['if raw:\n    return list(self._neighbors(objects))',
                                          'return [(extent.members(), intent.members()) for extent, intent in self._neighbors(objects)]']:
        raise Decline('neighbors: body changed')
    if [ast.unparse(s) for s in _nodoc(_method(tree, 'LatticeMixin', '_neighbors').body)] != ['return algorithms.neighbors(objects, Objects=self._Objects)']:
        raise Decline('_neighbors changed')
    lt = _src('lattices.py')
    gi = [ast.unparse(s) for s in _nodoc(_method(lt, 'CollectionMixin', '__getitem__').body)]
    if gi != ['if isinstance(key, (int, slice)):\n    return self._concepts[key]', 'if not key:\n    return self.supremum',
              'extent, intent = self._context.__getitem__(key, raw=True)', 'return self._mapping[extent]']:
        raise Decline('Lattice.__getitem__ changed: %r' % gi)
    ca = [ast.unparse(s) for s in _nodoc(_method(lt, 'CollectionMixin', '__call__').body)]
    if ca != ['extent = self._context.extension(properties, raw=True)', 'return self._mapping[extent]']:
        raise Decline('Lattice.__call__ changed: %r' % ca)
    for k in ('intension', 'extension', 'neighbors'):
        out += ['def %s_cfg : String × String := ("%s", "%s")' % ((k,) + cfg[k])]
    return '\n'.join(out + ['', 'end FCA.Generated', ''])


GENERATORS = GENERATORS + (('Getitem', gen_getitem),)


# ---------------------------------------------------------------------------------------------------------------------

class UniqueTr:
    """Methods of `tools.Unique` over the explicit state (seen, items); a raising statement returns the state reached so far."""

    def __init__(self, names):
        self.names = dict(names)

    def name(self, node):
        if isinstance(node, ast.Name) and node.id in self.names:
            return self.names[node.id]
        raise Decline('Unique: unsupported name %s' % ast.unparse(node))

    def block(self, stmts, ind):
        if not stmts:
            return [ind + '.ok ⟨seen, items⟩']
        st, rest = stmts[0], stmts[1:]
        go = lambda *lines: [ind + l for l in lines] + self.block(rest, ind)        # noqa: E731
        fail = lambda err: '.error (.%s, ⟨seen, items⟩)' % err                       # noqa: E731
        if isinstance(st, ast.If):
            t = st.test
            if (isinstance(t, ast.Compare) and len(t.ops) == 1 and isinstance(t.ops[0], (ast.In, ast.NotIn))
                    and ast.unparse(t.comparators[0]) == 'self._seen'):
                c = 'seen.contains %s' % self.name(t.left)
                if isinstance(t.ops[0], ast.NotIn):
                    c = '!(%s)' % c
            elif (isinstance(t, ast.Compare) and len(t.ops) == 1 and isinstance(t.ops[0], ast.NotEq)
                    and isinstance(t.left, ast.Name) and t.left.id == 'idx' and isinstance(t.comparators[0], ast.Name)
                    and t.comparators[0].id == 'new_index'):
                c = '((idx : Int) != new_index)'
            else:
                raise Decline('Unique: unsupported condition %s' % ast.unparse(t))
            if len(st.body) == 1 and isinstance(st.body[0], ast.Raise) and not st.orelse:
                exc = st.body[0].exc
                if not (isinstance(exc, ast.Call) and isinstance(exc.func, ast.Name) and exc.func.id == 'ValueError'):
                    raise Decline('Unique: raises something else than ValueError')
                return [ind + 'if %s then %s' % (c, fail('valueError')), ind + 'else'] + self.block(rest, ind + '  ')
            if st.orelse:
                raise Decline('Unique: if/else')
            return ([ind + 'if %s then' % c] + self.block(list(st.body) + rest, ind + '  ') + [ind + 'else'] + self.block(rest, ind + '  '))
        t = ast.unparse(st)
        if isinstance(st, ast.Assign) and len(st.targets) == 1:
            tgt, v = st.targets[0], st.value
            if (isinstance(tgt, ast.Name) and tgt.id == 'idx' and isinstance(v, ast.Call) and ast.unparse(v.func) == 'self._items.index'
                    and len(v.args) == 1):
                return [ind + 'match lIndex items %s with' % self.name(v.args[0]), ind + '| none => ' + fail('valueError'),
                        ind + '| some idx =>'] + self.block(rest, ind + '  ')
            if (isinstance(tgt, ast.Subscript) and ast.unparse(tgt.value) == 'self._items' and ast.unparse(tgt.slice) == 'idx'):
                return go('let items := lSet items idx %s' % self.name(v))
            if (isinstance(tgt, ast.Subscript) and ast.unparse(tgt.value) == 'self._items' and isinstance(tgt.slice, ast.Call)
                    and ast.unparse(tgt.slice.func) == 'self._items.index' and len(tgt.slice.args) == 1):
                # the right-hand side is a plain name: the index look-up is what may raise
                return [ind + 'match lIndex items %s with' % self.name(tgt.slice.args[0]), ind + '| none => ' + fail('valueError'),
                        ind + '| some idx1 =>', ind + '  let items := lSet items idx1 %s' % self.name(v)] + self.block(rest, ind + '  ')
            if (isinstance(tgt, ast.Name) and isinstance(v, ast.Call) and ast.unparse(v.func) == 'self._items.pop'
                    and [ast.unparse(a) for a in v.args] == ['idx']):
                self.names[tgt.id] = 'popped'
                return go('let (popped, items) := lPop items idx')
            raise Decline('Unique: unsupported assignment %s' % t)
        if isinstance(st, ast.Expr) and isinstance(st.value, ast.Call) and not st.value.keywords:
            f = ast.unparse(st.value.func)
            a = st.value.args
            if f == 'self._seen.add' and len(a) == 1:
                return go('let seen := sAdd seen %s' % self.name(a[0]))
            if f == 'self._seen.remove' and len(a) == 1:
                return [ind + 'match sRemove seen %s with' % self.name(a[0]), ind + '| none => ' + fail('keyError'),
                        ind + '| some seen =>'] + self.block(rest, ind + '  ')
            if f == 'self._items.append' and len(a) == 1:
                return go('let items := items ++ [%s]' % self.name(a[0]))
            if f == 'self._items.remove' and len(a) == 1:
                return [ind + 'match lRemove items %s with' % self.name(a[0]), ind + '| none => ' + fail('valueError'),
                        ind + '| some items =>'] + self.block(rest, ind + '  ')
            if f == 'self._items.insert' and len(a) == 2 and ast.unparse(a[0]) == 'new_index':
                return go('let items := pyInsert items new_index %s' % self.name(a[1]))
        raise Decline('Unique: unsupported statement %s' % t[:60])


def gen_unique():
    tree = _src('tools.py')
    spec = [('add', ['self', 'item'], '(item : Name)', {'item': 'item'}),
            ('discard', ['self', 'item'], '(item : Name)', {'item': 'item'}),
            ('replace', ['self', 'item', 'new_item'], '(item new_item : Name)', {'item': 'item', 'new_item': 'new_item'}),
            ('move', ['self', 'item', 'new_index'], '(item : Name) (new_index : Int)', {'item': 'item'})]
    out = ['import FCA.Model.UniqueState',
           '/- GENERATED by harness/extract2.py from tools.Unique in concepts/tools.py — do not edit.',
           '   State = (`_seen`, `_items`); an exception carries the state reached when it was raised. -/',
           'namespace FCA.Generated', '']
    for name, args, params, names in spec:
        m = _method(tree, 'Unique', name)
        if [a.arg for a in m.args.args] != args:
            raise Decline('Unique.%s: signature changed' % name)
        lines = UniqueTr(names).block(_nodoc(m.body), '  ')
        out += ['/-- `Unique.%s` -/' % name,
                'def unique_%s (seen items : List Name) %s : Except (Err × UState) UState :=' % (name, params)] + lines + ['']
    # __init__: `self._seen = seen = set(); add = seen.add; self._items = [item for item in iterable if item not in seen and not add(item)]`
    init = [ast.unparse(x) for x in _nodoc(_method(tree, 'Unique', '__init__').body)]
    if init != ['self._seen = seen = set()', 'add = seen.add',
                'self._items = [item for item in iterable if item not in seen and (not add(item))]']:
        raise Decline('Unique.__init__ changed: %r' % init)
    out += ['/-- `Unique(iterable)`: the comprehension whose filter adds to `seen` as a side effect, item by item -/',
            'def unique_init (iterable : List Name) : UState :=',
            '  let r := iterable.foldl (fun (s : List Name × List Name) item =>',
            '    if !(s.1.contains item) then (sAdd s.1 item, s.2 ++ [item]) else s) ([], [])',
            '  ⟨r.1, r.2⟩', '']
    # membership and iteration read the two fields as the model assumes
    for meth, want in (('__contains__', ['return item in self._seen']), ('__iter__', ['return iter(self._items)']),
                       ('__len__', ['return len(self._items)'])):
        got = [ast.unparse(s) for s in _nodoc(_method(tree, 'Unique', meth).body)]
        if got != want:
            raise Decline('Unique.%s changed: %r' % (meth, got))
    return '\n'.join(out + ['end FCA.Generated', ''])


GENERATORS = GENERATORS + (('Unique', gen_unique),)


# ---------------------------------------------------------------------------------------------------------------------

def gen_relations_init():
    """`junctors.Relations.__init__`: which unary class feeds the pairs, the pair size, what `include_unary` adds, what is sorted by what."""
    tree = _src('junctors.py')
    m = _method(tree, 'Relations', '__init__')
    if [a.arg for a in m.args.args] != ['self', 'items', 'booleans', 'include_unary']:
        raise Decline('Relations.__init__: signature changed')
    st = [ast.unparse(s) for s in _nodoc(m.body)]
    if len(st) != 6:
        raise Decline('Relations.__init__: expected six statements, got %d' % len(st))
    if st[0] != 'unary = [Relation(i, None, bools) for i, bools in zip(items, booleans)]':
        raise Decline('Relations.__init__: unary changed: %s' % st[0])
    import re
    mt = re.fullmatch(r'combos = combinations\(\(\(u\.left, u\.bools\) for u in unary if u\.__class__ is (\w+)\), (\d+)\)', st[1])
    if not mt:
        raise Decline('Relations.__init__: combos changed: %s' % st[1])
    cls_name, size = mt.group(1), int(mt.group(2))
    if st[2] != 'binary = (Relation(l, r, zip(lbools, rbools)) for (l, lbools), (r, rbools) in combos)':
        raise Decline('Relations.__init__: binary changed: %s' % st[2])
    if st[3] != 'members = chain(unary, binary) if include_unary else binary':
        raise Decline('Relations.__init__: members changed: %s' % st[3])
    if st[4] != 'super().__init__(members)':
        raise Decline('Relations.__init__: %s' % st[4])
    mt = re.fullmatch(r'self\.sort\(key=lambda r: r\.(\w+)\)', st[5])
    if not mt:
        raise Decline('Relations.__init__: the final sort changed: %s' % st[5])
    return '\n'.join([
        '/- GENERATED by harness/extract2.py from Relations.__init__ in concepts/junctors.py — do not edit.',
        '   (class of the unary relations whose items are paired, pair size, attribute the whole list is finally sorted by;',
        '   `include_unary` chains the unary relations in front of the binary ones) -/',
        'namespace FCA.Generated', '',
        'def relations_init_cfg : String × Nat × String := ("%s", %d, "%s")' % (cls_name, size, mt.group(1)), '',
        'end FCA.Generated', ''])


GENERATORS = GENERATORS + (('RelationsInit', gen_relations_init),)


# ---------------------------------------------------------------------------------------------------------------------

def gen_cxt_lines():
    """`formats.cxt.iter_cxt_lines`: the generator of the lines of a .cxt file, yield by yield; `Cxt.dumpf` prints each line."""
    tree = _src('formats', 'cxt.py')
    fn = _function(tree, 'iter_cxt_lines')
    if [a.arg for a in fn.args.args] != ['objects', 'properties', 'bools'] or [a.arg for a in fn.args.kwonlyargs] != ['symbols']:
        raise Decline('iter_cxt_lines: signature changed')
    parts = []
    for st in _nodoc(fn.body):
        if isinstance(st, ast.Assert):
            continue
        if isinstance(st, ast.Expr) and isinstance(st.value, ast.Yield) and st.value.value is not None:
            v = st.value.value
            if isinstance(v, ast.Constant) and isinstance(v.value, str):
                parts.append('[%s.toList]' % ('"%s"' % v.value.replace('\\', '\\\\').replace('"', '\\"')))
                continue
            if (isinstance(v, ast.JoinedStr) and len(v.values) == 1 and isinstance(v.values[0], ast.FormattedValue)
                    and ast.unparse(v) in ("f'{len(objects):d}'", "f'{len(properties):d}'")):
                which = 'objects' if 'objects' in ast.unparse(v) else 'properties'
                parts.append('[(toString %s.length).toList]' % which)
                continue
            raise Decline('iter_cxt_lines: unsupported yield %s' % ast.unparse(v))
        if isinstance(st, ast.Expr) and isinstance(st.value, ast.YieldFrom) and isinstance(st.value.value, ast.Name) \
                and st.value.value.id in ('objects', 'properties'):
            parts.append(st.value.value.id)
            continue
        if isinstance(st, ast.For) and ast.unparse(st.target) == 'row' and ast.unparse(st.iter) == 'bools' and not st.orelse:
            if [ast.unparse(s) for s in st.body] != ["yield ''.join((symbols[value] for value in row))"]:
                raise Decline('iter_cxt_lines: the row loop changed: %s' % ast.unparse(st))
            parts.append('(bools.map fun row => row.flatMap fun value => symbols value)')
            continue
        raise Decline('iter_cxt_lines: unsupported statement %s' % ast.unparse(st)[:60])
    cls = [c for c in tree.body if isinstance(c, ast.ClassDef) and c.name == 'Cxt']
    if len(cls) != 1:
        raise Decline('no class Cxt')
    dump = [ast.unparse(s) for f in cls[0].body if isinstance(f, ast.FunctionDef) and f.name == 'dumpf' for s in _nodoc(f.body)]
    if dump != ['write = functools.partial(print, file=file)',
                'for line in iter_cxt_lines(objects, properties, bools, symbols=cls.symbols):\n    write(line)']:
        raise Decline('Cxt.dumpf changed: %r' % dump)
    if 'symbols = SYMBOLS' not in [ast.unparse(s) for s in cls[0].body]:
        raise Decline('Cxt.symbols is not SYMBOLS')
    return '\n'.join([
        '/- GENERATED by harness/extract2.py from iter_cxt_lines in concepts/formats/cxt.py — do not edit.',
        '   The yielded lines in order; `Cxt.dumpf` prints each of them (line + newline). Strings are lists of characters. -/',
        'namespace FCA.Generated', '',
        'def cxt_lines (symbols : Bool → List Char) (objects properties : List (List Char)) (bools : List (List Bool)) : List (List Char) :=',
        '  ' + ' ++ '.join(parts), '', 'end FCA.Generated', ''])


GENERATORS = GENERATORS + (('CxtLines', gen_cxt_lines),)


# ---------------------------------------------------------------------------------------------------------------------

def gen_table_dump():
    """`formats.table.dump_file`: column widths, the `%-Ns|…|` template, header line and one line per object.
    Reading of `'%-Ns' % s`: `s` left-justified to width N (`ljust`); `tmpl % tuple` fills the fields in order."""
    tree = _src('formats', 'table.py')
    fn = _function(tree, 'dump_file')
    if [a.arg for a in fn.args.args] != ['file', 'objects', 'properties', 'bools'] or [a.arg for a in fn.args.kwonlyargs] != ['indent', '_serialized']:
        raise Decline('table.dump_file: signature changed')
    st = [ast.unparse(s) for s in _nodoc(fn.body)]
    if len(st) != 6:
        raise Decline('table.dump_file: expected six statements, got %d' % len(st))
    # widths
    if st[0] == 'wd = [tools.max_len(objects)]' and st[1] == 'wd.extend(map(len, properties))':
        wd = '(objects.foldl (fun m o => max m o.length) 0) :: properties.map (·.length)'
    else:
        raise Decline('table.dump_file: the widths changed: %r' % st[:2])
    ml = [ast.unparse(s) for s in _nodoc(_function(_src('tools.py'), 'max_len').body)]
    if ml != ['try:\n    result = max(map(len, iterable))\nexcept ValueError:\n    return minimum', 'return max(result, minimum)']:
        raise Decline('tools.max_len changed: %r' % ml)
    if st[2] != "tmpl = ' ' * indent + '|'.join((f'%-{w:d}s' for w in wd)) + '|'":
        raise Decline('table.dump_file: the template changed: %s' % st[2])
    if st[3] != 'write = functools.partial(print, file=file)':
        raise Decline('table.dump_file: %s' % st[3])
    if st[4] != "write(tmpl % (('',) + tuple(properties)))":
        raise Decline('table.dump_file: the header line changed: %s' % st[4])
    import re
    mt = re.fullmatch(r"for o, intent in zip\(objects, bools\):\n    write\(tmpl % \(\(o,\) \+ tuple\(\('(.*)' if b else '(.*)' for b in intent\)\)\)\)", st[5])
    if not mt:
        raise Decline('table.dump_file: the row loop changed: %s' % st[5])
    yes, no = mt.group(1), mt.group(2)
    return '\n'.join([
        'import FCA.Model.Formats',
        '/- GENERATED by harness/extract2.py from dump_file in concepts/formats/table.py — do not edit.',
        "   `tmpl % cells` with `tmpl = ' ' * indent + '|'.join('%-Ns' …) + '|'` is read as: indent, the cells left-justified to their",
        '   widths joined by `|`, a closing `|`; `print` appends a newline. -/',
        'namespace FCA.Generated', '',
        'def table_lines (indent : Nat) (objects properties : List Str) (bools : List (List Bool)) : List Str :=',
        '  let wd := %s' % wd,
        '  let tmpl := fun (cells : List Str) =>',
        "    List.replicate indent ' ' ++ joinWith ['|'] ((wd.zip cells).map fun (w, c) => ljust w c) ++ ['|']",
        '  tmpl ("".toList :: properties) ::',
        '    (objects.zip bools).map fun (o, intent) => tmpl (o :: intent.map fun b => if b then "%s".toList else "%s".toList)' % (yes, no),
        '', 'end FCA.Generated', ''])


GENERATORS = GENERATORS + (('TableDump', gen_table_dump),)


# ---------------------------------------------------------------------------------------------------------------------

def gen_tolist():
    """`Lattice._tolist`: the four parts of a stored concept, and the keys `Context.todict` writes."""
    tree = _src('lattices.py')
    m = _method(tree, 'Data', '_tolist')
    body = _nodoc(m.body)
    if len(body) != 1 or not isinstance(body[0], ast.Return) or not isinstance(body[0].value, ast.ListComp):
        raise Decline('_tolist: body changed')
    lc = body[0].value
    if (len(lc.generators) != 1 or ast.unparse(lc.generators[0].target) != 'c' or ast.unparse(lc.generators[0].iter) != 'self._concepts'
            or lc.generators[0].ifs or not isinstance(lc.elt, ast.Tuple) or len(lc.elt.elts) != 4):
        raise Decline('_tolist: comprehension changed')
    parts = []
    for e in lc.elt.elts:
        if not (isinstance(e, ast.Call) and isinstance(e.func, ast.Name) and e.func.id == 'tuple' and len(e.args) == 1):
            raise Decline('_tolist: part %s' % ast.unparse(e))
        a = e.args[0]
        if (isinstance(a, ast.Call) and isinstance(a.func, ast.Attribute) and a.func.attr == 'iter_set' and not a.args
                and isinstance(a.func.value, ast.Attribute) and isinstance(a.func.value.value, ast.Name) and a.func.value.value.id == 'c'):
            parts.append((a.func.value.attr, 'iter_set'))
        elif (isinstance(a, ast.GeneratorExp) and len(a.generators) == 1 and not a.generators[0].ifs
                and isinstance(a.generators[0].target, ast.Name) and isinstance(a.elt, ast.Attribute)
                and isinstance(a.elt.value, ast.Name) and a.elt.value.id == a.generators[0].target.id
                and isinstance(a.generators[0].iter, ast.Attribute) and isinstance(a.generators[0].iter.value, ast.Name)
                and a.generators[0].iter.value.id == 'c'):
            parts.append((a.generators[0].iter.attr, a.elt.attr))
        else:
            raise Decline('_tolist: part %s' % ast.unparse(e))
    ct = _src('contexts.py')
    td = [ast.unparse(s) for s in _nodoc(_method(ct, 'ExportableMixin', 'todict').body)]
    want = ["result = {'objects': self.objects, 'properties': self.properties, 'context': self._intents.index_sets()}",
            "if ignore_lattice:\n    pass\nelif ignore_lattice is None and 'lattice' not in self.__dict__:\n    pass\nelse:\n    result['lattice'] = self.lattice._tolist()",
            'return result']
    if td != want:
        raise Decline('Context.todict changed: %r' % td)
    return '\n'.join([
        '/- GENERATED by harness/extract2.py from Lattice._tolist in concepts/lattices.py (Context.todict compared with the expected',
        '   statements) — do not edit. Per part of a stored concept: (attribute of the concept, how it is turned into indexes). -/',
        'namespace FCA.Generated', '',
        'def tolist_cfg : List (String × String) := [%s]' % ', '.join('("%s", "%s")' % p for p in parts), '',
        'end FCA.Generated', ''])


GENERATORS = GENERATORS + (('Tolist', gen_tolist),)


# ---------------------------------------------------------------------------------------------------------------------

def gen_extremes():
    """`Lattice.infimum`, `supremum`, `atoms`: which position / attribute they return."""
    tree = _src('lattices.py')
    pos = {}
    for name in ('infimum', 'supremum'):
        b = _nodoc(_method(tree, 'Lattice', name).body)
        if not (len(b) == 1 and isinstance(b[0], ast.Return) and isinstance(b[0].value, ast.Subscript)
                and ast.unparse(b[0].value.value) == 'self._concepts'):
            raise Decline('Lattice.%s changed' % name)
        try:
            pos[name] = int(ast.literal_eval(b[0].value.slice))
        except Exception:
            raise Decline('Lattice.%s: index %s' % (name, ast.unparse(b[0].value.slice)))
    b = [ast.unparse(s) for s in _nodoc(_method(tree, 'Lattice', 'atoms').body)]
    import re
    mt = re.fullmatch(r'return self\.(\w+)\.(\w+)', b[0]) if len(b) == 1 else None
    if not mt:
        raise Decline('Lattice.atoms changed: %r' % b)
    return '\n'.join([
        '/- GENERATED by harness/extract2.py from the properties of class Lattice in concepts/lattices.py — do not edit.',
        '   Python list positions (negative = from the end); atoms = (which extreme, which attribute of it). -/',
        'namespace FCA.Generated', '',
        'def infimum_pos : Int := %d' % pos['infimum'],
        'def supremum_pos : Int := %d' % pos['supremum'],
        'def atoms_cfg : String × String := ("%s", "%s")' % (mt.group(1), mt.group(2)), '', 'end FCA.Generated', ''])


GENERATORS = GENERATORS + (('Extremes', gen_extremes),)
