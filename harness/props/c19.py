"""C19 - ill-formed input raises ValueError; accepted input is represented faithfully."""
import copy
from core import guard
import gen

TRUTHY = [True, 1, 'X', 2, (0,), 'False']
FALSY = [False, 0, '', None, (), 0.0]


def names(l):
    return ','.join(l) if l else '-'


def outcome(f):
    """('ok', value) | ('ValueError', message) | (other exception class name,)"""
    try:
        return ('ok', f())
    except ValueError as e:
        return ('ValueError', str(e))
    except Exception as e:  # noqa: BLE001 - the class is the observable
        return (type(e).__name__,)


def corrupt_triple(rng, objs, props, rows):
    """One corruption from the list in the property."""
    objs, props, rows = list(objs), list(props), [list(r) for r in rows]
    k = rng.randrange(12)
    if k == 0 and objs:
        del objs[rng.randrange(len(objs))]
    elif k == 1 and props:
        del props[rng.randrange(len(props))]
    elif k == 2 and objs:
        objs.insert(rng.randrange(len(objs) + 1), rng.choice(objs))
    elif k == 3 and props:
        props.insert(rng.randrange(len(props) + 1), rng.choice(props))
    elif k == 4 and objs:
        props.append(rng.choice(objs))
    elif k == 5 and props:
        objs.append(props.pop(rng.randrange(len(props))))
    elif k == 6 and rows:
        del rows[rng.randrange(len(rows))]
    elif k == 7:
        rows.insert(rng.randrange(len(rows) + 1), [rng.random() < .5 for _ in props])
    elif k == 8 and rows:
        r = rows[rng.randrange(len(rows))]
        if r:
            del r[rng.randrange(len(r))]
    elif k == 9 and rows:
        rows[rng.randrange(len(rows))].append(True)
    elif k == 10 and len(rows) > 1:
        a, b = rng.sample(range(len(rows)), 2)
        if rows[a]:
            rows[a].pop()
            rows[b].append(False)
    else:
        objs, props = [], props
    return objs, props, rows


def check_ctor(run, objs, props, rows, tag):
    import concepts
    d = run.driver
    cells = [tuple((run.rng.choice(TRUTHY) if b else run.rng.choice(FALSY)) for b in r) for r in rows]
    req = 'ctor %s %s %s' % (names(objs), names(props), ','.join(str(len(r)) for r in rows) if rows else '-')
    want = d.ask(req)
    res = outcome(lambda: concepts.Context(objs, props, cells))
    run.case(req, True, {'call': 'Context(%r, %r, <rows of lengths %r>)' % (objs, props, [len(r) for r in rows]), 'corruption': tag,
                         'outcome': res[0]})
    run.count('ctor ' + res[0])
    if res[0] != want:
        run.fail('Context(%r, %r, %r) [%s]' % (objs, props, cells, tag), res[0], want, [req])
    if res[0] == 'ValueError' and res[1].startswith('objects and properties overlap:'):
        import ast
        listed = ast.literal_eval(res[1].split(':', 1)[1].strip())
        rq = 'overlap %s %s' % (names(objs), names(props))
        wanted = d.ask(rq)
        if names(list(listed)) != wanted:
            run.fail('names listed in the overlap error of Context(%r, %r, ...)' % (objs, props), list(listed), wanted, [rq])
        run.count('overlap messages')
    if res[0] == 'ok':
        ctx = res[1]
        with guard(run, 'objects/properties/bools of an accepted context', [req]):
            got_rows = ctx.bools
            if isinstance(got_rows, list):
                got_rows.reverse()
                got_rows.append(('junk',))
            if (ctx.objects != tuple(objs) or ctx.properties != tuple(props)
                    or ctx.bools != [tuple(bool(c) for c in r) for r in cells]):
                run.fail('accepted input is not reproduced', [ctx.objects, ctx.properties, ctx.bools],
                         [tuple(objs), tuple(props), [tuple(bool(c) for c in r) for r in cells]], [req])


def corrupt_dict(rng, d):
    d = copy.deepcopy(d)
    k = rng.randrange(17)
    m = len(d.get('properties', ()))
    ctxrows = d.get('context')
    if k == 0:
        d.pop(rng.choice(['objects', 'properties', 'context']), None)
    elif k == 1 and d.get('objects'):
        l = list(d['objects']); l[rng.randrange(len(l))] = rng.choice([1, None, 2.5, ('a',), ['a'], {'a': 1}]); d['objects'] = l
    elif k == 2 and d.get('properties'):
        l = list(d['properties']); l[rng.randrange(len(l))] = rng.choice([0, None, b'p', ['p'], set()]); d['properties'] = l
    elif k == 3 and ctxrows:
        l = list(ctxrows); del l[rng.randrange(len(l))]; d['context'] = l
    elif k == 4 and ctxrows is not None:
        d['context'] = list(ctxrows) + [()]
    elif k == 5 and ctxrows:
        l = [list(r) for r in ctxrows]; l[rng.randrange(len(l))].append(m); d['context'] = l
    elif k == 6 and ctxrows:
        l = [list(r) for r in ctxrows]; l[rng.randrange(len(l))].append(-1); d['context'] = l
    elif k == 7 and ctxrows:
        l = [list(r) for r in ctxrows]; r = l[rng.randrange(len(l))]
        r.append(r[0] if r else m + 3); d['context'] = l
    elif k == 8:
        d['lattice'] = []
    elif k == 9:
        d['lattice'] = None
    elif k == 10:
        d.pop('lattice', None)
    elif k == 11 and d.get('objects'):
        l = list(d['objects']); l.append(l[0]); d['objects'] = l
        if ctxrows is not None:
            d['context'] = list(ctxrows) + [()]
    elif k == 12 and 'properties' in d and d.get('objects'):
        d['properties'] = list(d['properties']) + [d['objects'][0]]
    elif k == 13 and ctxrows:
        l = [list(r) for r in ctxrows]; r = l[rng.randrange(len(l))]; r.append(m + rng.randint(1, 3)); d['context'] = l
    elif k == 14 and ctxrows:
        l = [list(r) for r in ctxrows]
        r = l[rng.randrange(len(l))]
        ints = [k_ for k_, x in enumerate(r) if isinstance(x, int)]
        if ints:
            r[rng.choice(ints)] += rng.choice([1, -1, m])
        d['context'] = l
    elif k == 16 and ctxrows:
        # an index of the wrong type among (or instead of) the column numbers
        l = [list(r) for r in ctxrows]
        r = l[rng.randrange(len(l))]
        bad = rng.choice(['0', '1', None, 'x', (0,)])
        if r and rng.random() < .5:
            r[rng.randrange(len(r))] = bad
        else:
            r.insert(rng.randrange(len(r) + 1), bad)
        d['context'] = l
    else:
        d['objects'] = []
        d['context'] = []
    return d


def dict_request(d, require):
    def sn(l):
        if l is None:
            return 'MISSING'
        return ','.join(v if isinstance(v, str) else '#' for v in l) if l else '-'
    rows = d.get('context')
    if rows is None:
        rs = 'MISSING'
    elif not rows:
        rs = '-'
    else:
        # an index that is not an int is for the model an index that is out of range (both are rejected with ValueError)
        rs = '/'.join(','.join(str(x) if isinstance(x, int) and not isinstance(x, bool) else '999999' for x in r) if r else '.' for r in rows)
    if 'lattice' not in d:
        lat = 'absent'
    elif d['lattice'] is None:
        lat = 'none'
    elif not d['lattice']:
        lat = 'empty'
    else:
        lat = 'present'
    return 'fromdict %d %s %s %s %s' % (require, sn(d.get('objects')), sn(d.get('properties')), rs, lat)


def check_dict(run, dd, tag, stale_lattice=False):
    import concepts
    require = run.rng.random() < .3
    # a stored lattice that belongs to another table is outside the property: do not load it
    ignore = True if stale_lattice else run.rng.random() < .3
    req = dict_request(dd, require)
    want = run.driver.ask(req)
    raw = run.rng.random() < .3
    res = outcome(lambda: concepts.Context.fromdict(copy.deepcopy(dd), require_lattice=require, ignore_lattice=ignore, raw=raw))
    run.case(req, True, {'call': 'Context.fromdict(%r, require_lattice=%r)' % ({k: v for k, v in dd.items() if k != 'lattice'}, require),
                         'corruption': tag, 'outcome': res[0]})
    run.count('fromdict ' + res[0])
    if res[0] != want.split(' ')[0]:
        run.fail('Context.fromdict(%r, require_lattice=%r, ignore_lattice=%r) [%s]' % (dd, require, ignore, tag),
                 res[0], want, [req])
    if res[0] == 'ok':
        ctx = res[1]
        got = '%s|%s|%s' % (','.join(ctx.objects), ','.join(ctx.properties),
                            '/'.join(''.join('1' if b else '0' for b in r) for r in ctx.bools))
        if 'ok ' + got != want:
            run.fail('accepted dict is not reproduced by objects/properties/bools', got, want, [req])


def run(run):
    run.rule = ('valid triples / serialized dicts from random small tables, each subjected to 0, 1 or 2 corruptions (drop / duplicate / '
                'move a name, drop / add / shorten / extend a row, ragged rows with the right total, shift or repeat an index, negative '
                'index, index = column count, non-string name, missing key, empty / None / absent lattice); cells of accepted inputs '
                'use assorted truthy / falsy values; a case = one constructor or fromdict call')
    import concepts
    rng = run.rng
    rounds = 2500 if run.tier == 'quick' else 40000
    for it in range(rounds):
        if not run.time_left():
            run.notes.append('stopped at the deadline after %d rounds' % it)
            break
        n, m = rng.randint(1, 4), rng.randint(1, 4)
        if it % 250 == 7:
            # sizes beyond the small-integer range of the interpreter (counts above 256), tall or wide
            n, m = rng.choice([(rng.randint(257, 300), 1), (1, rng.randint(257, 300)), (260, 2)])
        _, _, rows = gen.random_table(rng, n, m, rng.choice((.2, .5, .8)))
        objs = ['o%d' % i for i in range(n)]
        props = ['p%d' % j for j in range(m)]
        brows = [[bool((r >> j) & 1) for j in range(m)] for r in rows]
        check_ctor(run, objs, props, brows, 'valid')
        t = (objs, props, brows)
        for depth in (1, 2):
            t = corrupt_triple(rng, *t)
            check_ctor(run, *t, tag='%d corruption(s)' % depth)
        with guard(run, 'todict of a valid context', []):
            ctx = concepts.Context(objs, props, [tuple(r) for r in brows])
            dd = ctx.todict(ignore_lattice=rng.random() < .5)
        check_dict(run, dd, 'valid')
        orig = {k: dd.get(k) for k in ('objects', 'properties', 'context')}
        for depth in (1, 2):
            dd = corrupt_dict(rng, dd)
            stale = any(dd.get(k) != orig[k] for k in orig)
            check_dict(run, dd, '%d corruption(s)' % depth, stale_lattice=stale)
