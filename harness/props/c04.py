"""C04 - all concept generators agree on the set of concepts."""
from core import guard, ApiBroken
from props import lat
import gen


def run(run):
    run.rule = ('contexts as C03; observables: multisets of (extent, intent) from fast_generate_from, fcbo_dual, iterconcepts, '
                'get_concepts compared with the model generators and with context.lattice; emission order is a diagnostic only')
    d = run.driver
    from concepts import algorithms
    for name in ('fast_generate_from', 'fcbo_dual', 'iterconcepts', 'get_concepts'):
        if not hasattr(algorithms, name):
            raise ApiBroken('concepts.algorithms.%s is gone' % name)
    chains = [1100] if run.tier == 'quick' else [1100, 1600]
    for N in chains:
        # object i has the properties i..N-1: the concepts are ({0..j}, {j..N-1}) for j < N, nested; the enumeration tree is
        # as deep as the table is long
        with guard(run, 'generators on a chain of %d nested concepts' % N, ['chain %d' % N]):
            from concepts import Context
            objs = ['g%d' % i for i in range(N)]
            props = ['m%d' % j for j in range(N)]
            ctx = Context(objs, props, [tuple(j >= i for j in range(N)) for i in range(N)])
            want = sorted((j + 1, N - j) for j in range(N))      # (|extent|, |intent|) of the j-th concept
            for name in ('fast_generate_from', 'fcbo_dual'):
                got = sorted((len(tuple(e.members())), len(tuple(i.members()))) for e, i in getattr(algorithms, name)(ctx))
                if got != want:
                    run.fail('%s on the chain context with %d objects' % (name, N), got[:5], want[:5], ['chain %d' % N])
            run.case('chain %d' % N, True, {'context': 'chain', 'objects': N})
            run.count('long chains')
    for tab, pc in lat.contexts(run, exh_quick=10, rand_quick=600, wide_quick=40, exh_thorough=14, nmax=10, mmax=10):
        if min(pc.n, pc.m) > 12:
            continue
        extra = {'objects': pc.objects, 'properties': pc.properties, 'bools': pc.bools}
        got = {}
        with guard(run, 'concept generators', [pc.line, 'fcbo', 'fcbodual']):
            if run.evaluations % 2:
                # partly consumed and abandoned iterators first: later calls must be unaffected
                for name in ('iterconcepts', 'fast_generate_from', 'fcbo_dual'):
                    it = iter(getattr(algorithms, name)(pc.ctx))
                    next(it, None)
                    del it
            for name in ('fast_generate_from', 'fcbo_dual', 'iterconcepts', 'get_concepts'):
                out = list(getattr(algorithms, name)(pc.ctx))
                got[name] = [(pc.omask(e.members()), pc.pmask(i.members())) for e, i in out]
            lattice_pairs = sorted((pc.omask(c.extent), pc.pmask(c.intent)) for c in pc.ctx.lattice)
        for req, name in (('iterconcepts', 'iterconcepts'), ('getconcepts', 'get_concepts')):
            mw = [tuple(map(int, p.split(':'))) for p in d.ask(req).split()]
            if sorted(mw) != sorted(got[name]):
                run.fail('multiset of pairs from %s (wrapper model)' % name, sorted(got[name]), sorted(mw), [pc.line, req], extra)
        m1 = [tuple(map(int, p.split(':'))) for p in d.ask('fcbo').split()]
        m2 = [tuple(map(int, p.split(':'))) for p in d.ask('fcbodual').split()]
        run.case(pc.line, gen.nontrivial(tab), {'context': pc.line, 'concepts': len(m1)})
        want = sorted(m1)
        if sorted(m2) != want:
            run.fail('model: fcbo and fcbo_dual differ', sorted(m2), want, [pc.line, 'fcbo', 'fcbodual'], extra)
        for name, pairs in got.items():
            if sorted(pairs) != want:
                run.fail('multiset of pairs from %s' % name, sorted(pairs), want, [pc.line, 'fcbo'], extra)
        if lattice_pairs != want:
            run.fail('generators disagree with context.lattice', lattice_pairs, want, [pc.line, 'fcbo', 'lattice'], extra)
        # diagnostics
        if got['fast_generate_from'] != m1:
            run.count('order differs: fast_generate_from')
        if got['fcbo_dual'] != m2:
            run.count('order differs: fcbo_dual')
        # the explicit stack / shared-list machine (Model/FcboStack.lean; proved equal to the recursive model)
        if pc.m <= 14 and pc.n <= 14:
            s1 = [tuple(map(int, p.split(':'))) for p in d.ask('fcbostack').split()]
            s2 = [tuple(map(int, p.split(':'))) for p in d.ask('fcbodualstack').split()]
            if s1 != m1 or s2 != m2:
                run.fail('model: stack machine and recursive model differ', [s1, s2], [m1, m2], [pc.line, 'fcbostack', 'fcbodualstack'], extra)
            run.count('stack machine runs')
        run.count('contexts')
        run.count('concepts', len(want))
