import FCA.Proofs.FormatsCsv
/-
`loadCsvE` (with sniffing of the symbol set) inverts `dumpCsv` for both symbol sets, and more
generally loads every RFC 4180 rendering of the table of a context.
-/
namespace FCA

/-- cell text of a flag for the two csv symbol sets -/
def csym (asInt b : Bool) : Str :=
  if asInt then (if b then ['1'] else ['0']) else (if b then ['X'] else [])

/-- the csv table of a context: header (empty corner field, properties), one record per object -/
def csvTable (asInt : Bool) (objects properties : List Str) (bools : List (List Bool)) :
    List (List Str) :=
  ([] :: properties) :: (objects.zip bools).map fun x => x.1 :: x.2.map (csym asInt)

theorem dumpCsv_eq (asInt : Bool) (objects properties : List Str) (bools : List (List Bool)) :
    dumpCsv asInt objects properties bools =
      (csvTable asInt objects properties bools).flatMap csvRow := by
  rw [csvTable, List.flatMap_cons, List.flatMap_map]
  rfl

theorem csvValue_csym (a b : Bool) : csvValue a (csym a b) = some b := by
  cases a <;> cases b <;> decide

theorem csvValue_row (a : Bool) (row : List Bool) :
    (row.map (csym a)).map (csvValue a) = row.map some := by
  rw [List.map_map]
  apply List.map_congr_left
  intro b _
  exact csvValue_csym a b

/-- what the sniffing of the first data row yields -/
theorem csv_sniff (asInt : Bool) (r1 : List Bool) :
    ∃ a', (if ((r1.map (csym asInt)).all fun s => s == [] || s == ['X']) = true then some false
        else if ((r1.map (csym asInt)).all fun s => s == ['0'] || s == ['1']) = true then some true
        else none) = some a' ∧ (a' = asInt ∨ r1 = []) := by
  cases asInt
  · refine ⟨false, ?_, Or.inl rfl⟩
    rw [if_pos]
    rw [List.all_eq_true]
    intro s hs
    simp only [List.mem_map] at hs
    obtain ⟨b, _, rfl⟩ := hs
    cases b <;> decide
  · cases r1 with
    | nil => exact ⟨false, by simp, Or.inr rfl⟩
    | cons b bs =>
      refine ⟨true, ?_, Or.inl rfl⟩
      rw [if_neg, if_pos]
      · rw [List.all_eq_true]
        intro s hs
        simp only [List.mem_map] at hs
        obtain ⟨b, _, rfl⟩ := hs
        cases b <;> decide
      · rw [List.map_cons, List.all_cons]
        cases b <;> simp [csym]

/-- the row loop of the loader on the data records of a csv table -/
theorem csvLoop_table (asInt a' : Bool) (objects : List Str) (bools : List (List Bool))
    (hlen : bools.length = objects.length)
    (hval : ∀ row ∈ bools, (row.map (csym asInt)).map (csvValue a') = row.map some) :
    csvLoop a' false ((objects.zip bools).map fun x => x.1 :: x.2.map (csym asInt)) =
      .ok (objects, bools) := by
  induction objects generalizing bools with
  | nil =>
    cases bools with
    | nil => rfl
    | cons => simp at hlen
  | cons o os ih =>
    cases bools with
    | nil => simp at hlen
    | cons r rs =>
      have hr := hval r (by simp)
      have h1 : (List.map (csvValue a') (r.map (csym asInt))).all Option.isSome = true := by
        rw [hr]; simp
      have h2 : ((r.map (csym asInt)).map fun s => (csvValue a' s).getD false) = r := by
        have : ((r.map (csym asInt)).map fun s => (csvValue a' s).getD false) =
            ((r.map (csym asInt)).map (csvValue a')).map (·.getD false) := by
          simp [List.map_map, Function.comp_def]
        rw [this, hr]; simp
      rw [List.zip_cons_cons, List.map_cons, csvLoop, if_pos h1,
        ih rs (by simpa using hlen) (fun row hrow => hval row (by simp [hrow])), h2]

/-- the loader on any text whose records are the csv table of a context -/
theorem loadCsvE_of_read (asInt : Bool) {objects properties : List Str} {bools : List (List Bool)}
    (hone : objects ≠ []) (hlen : bools.length = objects.length)
    (hrow : ∀ r ∈ bools, r.length = properties.length) {text : Str}
    (hread : csvRead text = (csvTable asInt objects properties bools, false)) :
    loadCsvE text = .ok (objects, properties, bools) := by
  cases objects with
  | nil => contradiction
  | cons o1 os =>
  cases bools with
  | nil => simp at hlen
  | cons r1 rs =>
  obtain ⟨a', hsn, ha'⟩ := csv_sniff asInt r1
  have hval : ∀ row ∈ r1 :: rs, (row.map (csym asInt)).map (csvValue a') = row.map some := by
    intro row hr
    rcases ha' with rfl | rfl
    · exact csvValue_row _ row
    · have h0 : properties.length = 0 := by simpa using (hrow [] (by simp)).symm
      have : row = [] := List.eq_nil_of_length_eq_zero (by rw [hrow row hr, h0])
      subst this; rfl
  have hloop := csvLoop_table asInt a' (o1 :: os) (r1 :: rs) hlen hval
  rw [List.zip_cons_cons, List.map_cons] at hloop
  unfold loadCsvE
  rw [hread, csvTable, List.zip_cons_cons, List.map_cons]
  simp only []
  rw [hsn]
  simp only []
  rw [hloop]

/-- csv round trip for both symbol sets, any labels (empty ones, commas, quotes, line breaks)
up to the reader's field size limit -/
theorem loadCsvE_dumpCsv (asInt : Bool) {objects properties : List Str} {bools : List (List Bool)}
    (hone : objects ≠ []) (hlen : bools.length = objects.length)
    (hrow : ∀ r ∈ bools, r.length = properties.length)
    (hol : ∀ o ∈ objects, o.length ≤ csvFieldLimit)
    (hpl : ∀ p ∈ properties, p.length ≤ csvFieldLimit) :
    loadCsvE (dumpCsv asInt objects properties bools) = .ok (objects, properties, bools) := by
  apply loadCsvE_of_read asInt hone hlen hrow
  rw [dumpCsv_eq, csvRead_rows]
  · intro r hr
    simp only [csvTable, List.mem_cons, List.mem_map] at hr
    rcases hr with rfl | ⟨x, _, rfl⟩ <;> simp
  · intro r hr f hf
    simp only [csvTable, List.mem_cons, List.mem_map] at hr
    rcases hr with rfl | ⟨x, hx, rfl⟩
    · rcases List.mem_cons.1 hf with rfl | hf
      · simp
      · exact hpl f hf
    · rcases List.mem_cons.1 hf with rfl | hf
      · exact hol _ (List.of_mem_zip hx).1
      · simp only [List.mem_map] at hf
        obtain ⟨b, _, rfl⟩ := hf
        cases asInt <;> cases b <;> simp [csym, csvFieldLimit]

/-! ### an empty record after (part of) a table -/

theorem csvLoop_table_blank (asInt a' bad : Bool) (objects : List Str) (bools : List (List Bool))
    (hlen : bools.length = objects.length)
    (hval : ∀ row ∈ bools, (row.map (csym asInt)).map (csvValue a') = row.map some)
    (more : List (List Str)) :
    csvLoop a' bad (((objects.zip bools).map fun x => x.1 :: x.2.map (csym asInt)) ++ [] :: more) =
      .error "ValueError" := by
  induction objects generalizing bools with
  | nil =>
    cases bools with
    | nil => rfl
    | cons => simp at hlen
  | cons o os ih =>
    cases bools with
    | nil => simp at hlen
    | cons r rs =>
      have hr := hval r (by simp)
      have h1 : (List.map (csvValue a') (r.map (csym asInt))).all Option.isSome = true := by
        rw [hr]; simp
      rw [List.zip_cons_cons, List.map_cons, List.cons_append, csvLoop, if_pos h1,
        ih rs (by simpa using hlen) (fun row hrow => hval row (by simp [hrow]))]

/-- the loader on a text whose records are the csv table of a context (possibly without any object)
followed by an empty record: unpacking the empty record raises `ValueError`, whatever follows -/
theorem loadCsvE_blank_of_read (asInt : Bool) {objects properties : List Str}
    {bools : List (List Bool)} (hlen : bools.length = objects.length)
    (hrow : ∀ r ∈ bools, r.length = properties.length) {text : Str} {more : List (List Str)}
    {bad : Bool}
    (hread : csvRead text = (csvTable asInt objects properties bools ++ [] :: more, bad)) :
    loadCsvE text = .error "ValueError" := by
  cases objects with
  | nil =>
    cases bools with
    | cons => simp at hlen
    | nil =>
      unfold loadCsvE
      rw [hread]
      rfl
  | cons o1 os =>
  cases bools with
  | nil => simp at hlen
  | cons r1 rs =>
  obtain ⟨a', hsn, ha'⟩ := csv_sniff asInt r1
  have hval : ∀ row ∈ r1 :: rs, (row.map (csym asInt)).map (csvValue a') = row.map some := by
    intro row hr
    rcases ha' with rfl | rfl
    · exact csvValue_row _ row
    · have h0 : properties.length = 0 := by simpa using (hrow [] (by simp)).symm
      have : row = [] := List.eq_nil_of_length_eq_zero (by rw [hrow row hr, h0])
      subst this; rfl
  have hloop := csvLoop_table_blank asInt a' bad (o1 :: os) (r1 :: rs) hlen hval more
  rw [List.zip_cons_cons, List.map_cons, List.cons_append] at hloop
  unfold loadCsvE
  rw [hread, csvTable, List.zip_cons_cons, List.map_cons, List.cons_append, List.cons_append]
  simp only []
  rw [hsn]
  simp only []
  rw [hloop]

/-! ### renderings of the table of a context by any RFC 4180 writer -/

/-- the fields of the csv table of a context respect the reader's field size limit -/
theorem csvTable_limit (asInt : Bool) {objects properties : List Str} {bools : List (List Bool)}
    (hol : ∀ o ∈ objects, o.length ≤ csvFieldLimit)
    (hpl : ∀ p ∈ properties, p.length ≤ csvFieldLimit) :
    ∀ r ∈ csvTable asInt objects properties bools, ∀ f ∈ r, f.length ≤ csvFieldLimit := by
  intro r hr f hf
  simp only [csvTable, List.mem_cons, List.mem_map] at hr
  rcases hr with rfl | ⟨x, hx, rfl⟩
  · rcases List.mem_cons.1 hf with rfl | hf
    · simp
    · exact hpl f hf
  · rcases List.mem_cons.1 hf with rfl | hf
    · exact hol _ (List.of_mem_zip hx).1
    · simp only [List.mem_map] at hf
      obtain ⟨b, _, rfl⟩ := hf
      cases asInt <;> cases b <;> simp [csym, csvFieldLimit]

/-- `marked` is the csv table of the context with a quoting choice for every field and a
terminator choice for every record, such that every record can be written -/
def CsvRendering (asInt : Bool) (objects properties : List Str) (bools : List (List Bool))
    (marked : List (Bool × List (Bool × Str))) : Prop :=
  (marked.map fun r => r.2.map (·.2)) = csvTable asInt objects properties bools ∧
    ∀ r ∈ marked, CsvRowOk r.2

instance (asInt : Bool) (o p : List Str) (b : List (List Bool))
    (marked : List (Bool × List (Bool × Str))) : Decidable (CsvRendering asInt o p b marked) := by
  unfold CsvRendering; infer_instance

theorem CsvRendering.limit {asInt : Bool} {objects properties : List Str} {bools : List (List Bool)}
    {marked : List (Bool × List (Bool × Str))} (h : CsvRendering asInt objects properties bools marked)
    (hol : ∀ o ∈ objects, o.length ≤ csvFieldLimit)
    (hpl : ∀ p ∈ properties, p.length ≤ csvFieldLimit) :
    ∀ r ∈ marked, CsvRowOk r.2 ∧ ∀ f ∈ r.2, f.2.length ≤ csvFieldLimit := by
  intro r hr
  refine ⟨h.2 r hr, ?_⟩
  intro f hf
  apply csvTable_limit asInt hol hpl (r.2.map (·.2))
  · rw [← h.1]; exact List.mem_map_of_mem (f := fun r : Bool × List (Bool × Str) => r.2.map (·.2)) hr
  · exact List.mem_map_of_mem (f := fun f : Bool × Str => f.2) hf

/-- the library's own writer is such a rendering -/
theorem csvRendering_dump (asInt : Bool) (objects properties : List Str) (bools : List (List Bool)) :
    CsvRendering asInt objects properties bools
      ((csvTable asInt objects properties bools).map fun r => (true, csvMarks r)) ∧
    dumpCsv asInt objects properties bools =
      csvTextQ ((csvTable asInt objects properties bools).map fun r => (true, csvMarks r)) := by
  refine ⟨⟨?_, ?_⟩, ?_⟩
  · simp [List.map_map, Function.comp_def, csvMarks_snd]
  · intro r hr
    simp only [List.mem_map] at hr
    obtain ⟨x, hx, rfl⟩ := hr
    apply csvMarks_ok
    simp only [csvTable, List.mem_cons, List.mem_map] at hx
    rcases hx with rfl | ⟨y, _, rfl⟩ <;> simp
  · rw [dumpCsv_eq, csvText_eq]

/-- the loader returns the context from every rendering of its table -/
theorem loadCsvE_rendering (asInt : Bool) {objects properties : List Str} {bools : List (List Bool)}
    (hone : objects ≠ []) (hlen : bools.length = objects.length)
    (hrow : ∀ r ∈ bools, r.length = properties.length)
    (hol : ∀ o ∈ objects, o.length ≤ csvFieldLimit)
    (hpl : ∀ p ∈ properties, p.length ≤ csvFieldLimit)
    {marked : List (Bool × List (Bool × Str))}
    (hm : CsvRendering asInt objects properties bools marked) :
    loadCsvE (csvTextQ marked) = .ok (objects, properties, bools) := by
  apply loadCsvE_of_read asInt hone hlen hrow
  rw [csvRead_textQ marked (hm.limit hol hpl), hm.1]

/-- … and refuses it with `ValueError` when a blank line follows (anything may come after it) -/
theorem loadCsvE_rendering_blank (asInt : Bool) {objects properties : List Str}
    {bools : List (List Bool)} (hlen : bools.length = objects.length)
    (hrow : ∀ r ∈ bools, r.length = properties.length)
    (hol : ∀ o ∈ objects, o.length ≤ csvFieldLimit)
    (hpl : ∀ p ∈ properties, p.length ≤ csvFieldLimit)
    {marked : List (Bool × List (Bool × Str))}
    (hm : CsvRendering asInt objects properties bools marked) (crlf : Bool) (rest : Str) :
    loadCsvE (csvTextQ marked ++ (csvTerm crlf ++ rest)) = .error "ValueError" := by
  apply loadCsvE_blank_of_read asInt hlen hrow (more := (csvRead rest).1) (bad := (csvRead rest).2)
  rw [csvRead_textQ_append marked (hm.limit hol hpl), hm.1, csvRead_blank]

/-- … also when the last record has no terminator -/
theorem loadCsvE_rendering_open (asInt : Bool) {objects properties : List Str}
    {bools : List (List Bool)} (hone : objects ≠ []) (hlen : bools.length = objects.length)
    (hrow : ∀ r ∈ bools, r.length = properties.length)
    (hol : ∀ o ∈ objects, o.length ≤ csvFieldLimit)
    (hpl : ∀ p ∈ properties, p.length ≤ csvFieldLimit)
    {init : List (Bool × List (Bool × Str))} {t : Bool} {last : List (Bool × Str)}
    (hm : CsvRendering asInt objects properties bools (init ++ [(t, last)])) :
    loadCsvE (csvTextQ init ++ csvBodyQ last) = .ok (objects, properties, bools) := by
  apply loadCsvE_of_read asInt hone hlen hrow
  have hlim := hm.limit hol hpl
  rw [csvRead_textQ_open init last (fun r hr => hlim r (by simp [hr]))
    (hlim (t, last) (by simp)).1 (hlim (t, last) (by simp)).2, ← hm.1]
  simp

/-! ### the field size limit is needed -/

theorem csvRow_cons_ne {o : Str} (h : o ≠ []) (l : List Str) :
    ∃ tail, csvRow (o :: l) = csvFieldQ false o ++ tail := by
  have hne : ¬ (o :: l) = [[]] := by simp [h]
  rw [csvRow_eq, csvMarks, if_neg hne, csvRowQ_eq]
  cases l with
  | nil => exact ⟨csvTerm true, rfl⟩
  | cons x xs =>
    refine ⟨',' :: csvBodyQ ((x :: xs).map fun f => (false, f)) ++ csvTerm true, ?_⟩
    rw [List.map_cons, List.map_cons, csvBodyQ_cons_cons]
    simp

/-- an object label longer than `csv.field_size_limit()` makes `Csv.loads(Csv.dumps(…))` fail with
`_csv.Error` -/
theorem loadCsvE_object_too_long (asInt : Bool) {o1 : Str} {os properties : List Str}
    {r1 : List Bool} {rs : List (List Bool)} (hpl : ∀ p ∈ properties, p.length ≤ csvFieldLimit)
    (ho : csvFieldLimit < o1.length) :
    loadCsvE (dumpCsv asInt (o1 :: os) properties (r1 :: rs)) = .error "Error" := by
  have hne : o1 ≠ [] := by intro h; subst h; simp at ho
  obtain ⟨tail, htail⟩ := csvRow_cons_ne hne (r1.map (csym asInt))
  have hread : csvRead (dumpCsv asInt (o1 :: os) properties (r1 :: rs)) =
      ([[] :: properties], true) := by
    rw [dumpCsv_eq, csvTable, List.zip_cons_cons, List.map_cons, List.flatMap_cons,
      List.flatMap_cons, htail, List.append_assoc]
    have e : csvRow ([] :: properties) = csvTextQ [(true, csvMarks ([] :: properties))] := by
      rw [csvRow_eq]; simp [csvTextQ]
    rw [e, csvRead_textQ_append, csvRead_eq, csvFlat_init_field_too_long false o1 ho]
    · simp [csvMarks_snd]
    · intro r hr
      simp only [List.mem_singleton] at hr
      subst hr
      refine ⟨csvMarks_ok (by simp), ?_⟩
      intro f hf
      have : f.2 ∈ (csvMarks ([] :: properties)).map (·.2) := List.mem_map_of_mem hf
      rw [csvMarks_snd] at this
      rcases List.mem_cons.1 this with h | h
      · rw [h]; simp
      · exact hpl _ h
  unfold loadCsvE
  rw [hread]
  rfl

end FCA
