import FCA.Model.Defn
/-
`tools.Unique` with its two fields made explicit: `_seen` (a `set`, here a duplicate-free list used through membership only)
and `_items` (a `list`). Primitives of the statement-by-statement translation in `FCA/Generated/Unique.lean`. A method that
raises half-way returns the state *as it is at that moment* (`Except (Err × UState) UState`): atomicity of a rejected call is a
theorem about the translated code, not an assumption of the model.
-/
namespace FCA

structure UState where
  seen : List Name
  items : List Name
deriving Repr, BEq, DecidableEq

/-- `set.add` -/
def sAdd (s : List Name) (x : Name) : List Name := if s.contains x then s else s ++ [x]
/-- `set.remove`: `none` stands for `KeyError` -/
def sRemove (s : List Name) (x : Name) : Option (List Name) := if s.contains x then some (s.filter (· != x)) else none
/-- `list.index`: `none` stands for `ValueError` -/
def lIndex (l : List Name) (x : Name) : Option Nat := l.findIdx? (· == x)
/-- `list.remove` (first occurrence): `none` stands for `ValueError` -/
def lRemove (l : List Name) (x : Name) : Option (List Name) := if l.contains x then some (l.erase x) else none
/-- `l[idx] = y` for an index obtained from `list.index` -/
def lSet (l : List Name) (idx : Nat) (y : Name) : List Name := l.set idx y
/-- `list.pop(idx)` for an index obtained from `list.index`: (popped item, rest) -/
def lPop (l : List Name) (idx : Nat) : Name × List Name := (l.getD idx "", l.eraseIdx idx)

/-- the class invariant: `_seen` holds exactly the items, `_items` has no repeats -/
def UState.Inv (u : UState) : Prop := u.items.Nodup ∧ ∀ x, x ∈ u.seen ↔ x ∈ u.items

end FCA
