"""Context generators: every table is (n, m, rows) with rows[i] the property mask of object i."""
import itertools
import random


ONLY = None


def exhaustive(maxcells, mincells=1):
    """Every boolean table of every shape with mincells <= n*m <= maxcells."""
    for n in range(1, maxcells + 1):
        for m in range(1, maxcells // n + 1):
            if n * m < mincells:
                continue
            for rows in itertools.product(range(1 << m), repeat=n):
                yield n, m, list(rows)


def nominal(k):
    return k, k, [1 << i for i in range(k)]


def contranominal(k):
    full = (1 << k) - 1
    return k, k, [full ^ (1 << i) for i in range(k)]


def ordinal(k):
    return k, k, [(1 << (i + 1)) - 1 for i in range(k)]


def chain_desc(k):
    return k, k, [((1 << k) - 1) >> i for i in range(k)]


def interordinal(k):
    # object i has "<= j" for j >= i and ">= j" for j <= i
    rows = []
    for i in range(k):
        le = sum(1 << j for j in range(k) if i <= j)
        ge = sum(1 << (k + j) for j in range(k) if i >= j)
        rows.append(le | ge)
    return k, 2 * k, rows


def subsets_scale(m, k):
    """Objects = all k-subsets of m properties (many incomparable rows: concepts with more upper neighbors
    than properties in their intent)."""
    rows = [sum(1 << j for j in c) for c in itertools.combinations(range(m), k)]
    return len(rows), m, rows


def with_extras(tab, rng):
    """Inject duplicated / empty / full rows and columns."""
    n, m, rows = tab
    rows = list(rows)
    kind = rng.randrange(7)
    full = (1 << m) - 1
    if kind == 0:
        rows.insert(rng.randrange(n + 1), rows[rng.randrange(n)])
    elif kind == 1:
        rows.insert(rng.randrange(n + 1), 0)
    elif kind == 2:
        rows.insert(rng.randrange(n + 1), full)
    elif kind == 3:  # duplicate a column
        j = rng.randrange(m)
        rows = [r | (((r >> j) & 1) << m) for r in rows]
        m += 1
    elif kind == 4:  # empty column
        m += 1
    elif kind == 5:  # full column at position 0
        rows = [(r << 1) | 1 for r in rows]
        m += 1
    else:
        rng.shuffle(rows)
    return len(rows), m, rows


def structured(rng, maxk=6):
    for m in range(3, min(maxk, 6) + 1):
        for k in range(2, m - 1):
            t = subsets_scale(m, k)
            yield t
            yield with_extras(t, rng)
            yield transpose(t)
    for k in range(1, maxk + 1):
        for f in (nominal, contranominal, ordinal, chain_desc, interordinal):
            t = f(k)
            yield t
            for _ in range(3):
                yield with_extras(t, rng)
                yield with_extras(with_extras(t, rng), rng)


def random_table(rng, n, m, density):
    rows = []
    for _ in range(n):
        r = 0
        for j in range(m):
            if rng.random() < density:
                r |= 1 << j
        rows.append(r)
    return n, m, rows


def stratified(rng, count, nmax=10, mmax=10):
    dens = (.1, .3, .5, .7, .9)
    for k in range(count):
        n = rng.randint(1, nmax)
        m = rng.randint(1, mmax)
        t = random_table(rng, n, m, dens[k % len(dens)])
        if k % 3 == 0:
            t = with_extras(t, rng)
        yield t


def wide(rng, count, small=5, lo=58, hi=130):
    """Tables crossing the 30/60/64-bit boundaries in one dimension."""
    for k in range(count):
        a = rng.randint(1, small)
        b = rng.choice([29, 30, 31, 32, 33, 59, 60, 61, 62, 63, 64, 65, 66, rng.randint(lo, hi)])
        d = rng.choice((.05, .3, .6, .9, .97))
        if k % 2:
            yield random_table(rng, a, b, d)
        else:
            yield random_table(rng, b, a, d)


def transpose(tab):
    n, m, rows = tab
    cols = [sum(((rows[i] >> j) & 1) << i for i in range(n)) for j in range(m)]
    return m, n, cols


def nontrivial(tab):
    """Not 1x1 and not an all-equal table."""
    n, m, rows = tab
    if n * m <= 1:
        return False
    full = (1 << m) - 1
    return not (all(r == 0 for r in rows) or all(r == full for r in rows))


def mostly_trivial(rng, count):
    """Few objects, 9..40 properties of which only 2..4 (at random positions, also high ones) are neither full nor empty;
    likewise transposed: the interesting members sit at high bit positions among many constant ones."""
    for _ in range(count):
        n, m = rng.randint(2, 5), rng.randint(9, 40)
        cols = [rng.choice((0, (1 << n) - 1)) for _ in range(m)]
        for j in rng.sample(range(m), rng.randint(2, 4)) + [m - 1][:rng.randint(0, 1)]:
            cols[j] = rng.randint(1, (1 << n) - 2)
        rows = [sum(((cols[j] >> i) & 1) << j for j in range(m)) for i in range(n)]
        if rng.random() < .3:
            yield (m, n, cols)          # transposed: many constant rows, few objects' worth of columns
        else:
            yield (n, m, rows)


def suite(rng, tier, *, exh_quick=10, exh_thorough=14, rand_quick=400, rand_thorough=15000,
          wide_quick=40, wide_thorough=1000, nmax=9, mmax=9):
    """The shared stream of contexts for lattice-level properties."""
    if ONLY is not None:      # replay / shrinking: exactly these tables
        yield from ONLY
        return
    exh = exh_quick if tier == 'quick' else exh_thorough
    yield from exhaustive(exh)
    yield from structured(rng, 5 if tier == 'quick' else 7)
    yield from stratified(rng, rand_quick if tier == 'quick' else rand_thorough, nmax, mmax)
    yield from mostly_trivial(rng, 40 if tier == 'quick' else 600)
    yield from wide(rng, wide_quick if tier == 'quick' else wide_thorough)
