"""C03 - the lattice contains exactly the formal concepts of the context, once each."""
from core import guard
from props import lat
import gen


def pairs_of(pc, L):
    return sorted((pc.omask(c.extent), pc.pmask(c.intent)) for c in L)


def run(run):
    run.rule = ('contexts: exhaustive small tables, structured families (scales, chains, duplicates, empty/full rows and '
                'columns), stratified random, wide/tall; observable: multiset of (extent, intent) over iter(lattice), len(lattice); '
                'a case = one context; non-trivial = not 1x1 and not constant')
    d = run.driver
    for tab, pc in lat.contexts(run, exh_quick=10, rand_quick=600, wide_quick=40, exh_thorough=14, nmax=10, mmax=10):
        if min(pc.n, pc.m) > 12:
            continue
        if run.evaluations % 5 == 0 and not getattr(pc, 'reloaded', False):
            # a partial lattice built directly above some objects (it may be refused) must leave the context's own lattice alone
            try:
                from concepts.lattices import Lattice
                Lattice(pc.ctx, infimum=pc.objects[:1])
            except Exception:
                pass
        with guard(run, 'iter(Context.lattice)', [pc.line, 'lattice']):
            L = pc.ctx.lattice
            got = pairs_of(pc, L)
            n_len = len(L)
        model = lat.parse_lattice(d.ask('lattice'))
        want = sorted((c['extent'], c['intent']) for c in model)
        run.case(pc.line, gen.nontrivial(tab), {'context': pc.line, 'concepts': len(want)})
        extra = {'objects': pc.objects, 'properties': pc.properties, 'bools': pc.bools}
        if got != want:
            missing = [p for p in want if p not in got]
            spurious = [p for p in got if p not in want]
            dup = [p for p in set(got) if got.count(p) > 1]
            run.fail('set of (extent, intent) pairs of the lattice', got, want, [pc.line, 'lattice'],
                     dict(extra, missing=missing, spurious=spurious, repeated=dup))
        if n_len != len(want):
            run.fail('len(lattice)', n_len, len(want), [pc.line, 'lattice'], extra)
        bottom = tuple(int(x) for x in d.ask('dpo 0').split())
        if bottom not in got or ((1 << pc.n) - 1) not in [e for e, _ in got]:
            run.fail('bottom / top concept missing', got, bottom, [pc.line, 'dpo 0'], extra)
        run.count('contexts')
        run.count('concepts', len(want))
        if len(want) == 1:
            run.count('one-concept lattices')
