#!/bin/sh
# usage: dev/try_mutant.sh <worktree> <mutant dir> <property id> [tier]  -- development aid (not a registered check)
WT=$1; M=$2; P=$3; TIER=${4:-quick}
git -C $WT checkout -q -- . || exit 9
(cd $WT && PYTHONPATH=$WT /venv/bin/python $M/demo.py >/dev/null 2>&1); CLEAN=$?
git -C $WT apply $M/patch.diff || { echo "patch does not apply"; exit 9; }
SUITE=$(cd $WT && /venv/bin/python -m pytest -q -p no:cacheprovider 2>&1 | tail -1)
(cd $WT && PYTHONPATH=$WT /venv/bin/python $M/demo.py >/dev/null 2>&1); MUT=$?
OUT=$(cd /verif && VERIF_REPO=$WT timeout 1200 ./check $P --tier $TIER  2>/dev/null | grep -E "VIOLATION|PASS|INTERNAL|KNOWN" | tr '\n' ' ')
git -C $WT checkout -q -- .
echo "$P $(basename $M): demo clean=$CLEAN mutated=$MUT suite=[$SUITE] check=[$OUT]"
