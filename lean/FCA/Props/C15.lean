import FCA.Proofs.InvarianceCtx
import FCA.Props.C03
/-
C15 — Lattice structure is invariant under relabelling, duplication and transposition.

Specification level: a concept is a pair of masks `(A, B)` with `isConcept K A B`; concepts are
ordered by inclusion of extents; `Covers`, `IsJoin`, `IsMeet` (FCA/Proofs/Invariance.lean) are the
covering relation, least upper bound and greatest lower bound in that order; `conceptSet K` is the
finite set of all concepts.  `Relabel`, `DupRow`, `DupCol`, `FullCol` (FCA/Proofs/InvarianceCtx.lean)
bundle the explicit hypotheses "K' is K with permuted rows/columns", "... with a copied row", ...
-/
namespace FCA

/-! ## the textbook definition -/

/-- `isConcept` of the model is the textbook definition over the incidence relation `K.has` -/
theorem C15_isConcept_spec {K : Ctx} (h : K.WF) {A B : Nat} :
    isConcept K A B ↔ Bounded K.n A ∧ Bounded K.m B ∧
      (∀ j, j ∈ᵇ B ↔ j < K.m ∧ ∀ i, i ∈ᵇ A → K.has i j) ∧
      (∀ i, i ∈ᵇ A ↔ i < K.n ∧ ∀ j, j ∈ᵇ B → K.has i j) := isConcept_spec h

/-! ## concrete 2×2 contexts used for the non-vacuity examples

`ex1`: object 0 has property 0, object 1 has properties 0 and 1 (a chain of two concepts).
`ex2`: object 0 has property 0, object 1 has property 1 (the four-element Boolean lattice). -/

def ex1 : Ctx := mkCtx 2 2 #[1, 3]
def ex2 : Ctx := mkCtx 2 2 #[1, 2]

theorem ex1_WF : ex1.WF := mkCtx_WF 2 2 #[1, 3] rfl (by decide)
theorem ex2_WF : ex2.WF := mkCtx_WF 2 2 #[1, 2] rfl (by decide)

/-- a concept given by its textbook description (used to exhibit concrete concepts) -/
theorem isConcept_of_has {K : Ctx} (h : K.WF) {A B : Nat} (hA : A < 2 ^ K.n) (hB : B < 2 ^ K.m)
    (h1 : ∀ j, j < K.m → (j ∈ᵇ B ↔ ∀ i, i < K.n → i ∈ᵇ A → K.has i j))
    (h2 : ∀ i, i < K.n → (i ∈ᵇ A ↔ ∀ j, j < K.m → j ∈ᵇ B → K.has i j)) : isConcept K A B := by
  have bA := bounded_iff_lt.mpr hA
  have bB := bounded_iff_lt.mpr hB
  rw [isConcept_spec h]
  refine ⟨bA, bB, fun j => ?_, fun i => ?_⟩
  · constructor
    · intro hj; exact ⟨bB j hj, fun i hi => (h1 j (bB j hj)).mp hj i (bA i hi) hi⟩
    · rintro ⟨hj, hall⟩; exact (h1 j hj).mpr fun i _ hi => hall i hi
  · constructor
    · intro hi; exact ⟨bA i hi, fun j hj => (h2 i (bA i hi)).mp hi j (bB j hj) hj⟩
    · rintro ⟨hi, hall⟩; exact (h2 i hi).mpr fun j _ hj => hall j hj

/-- `({0,1}, {0})` is a concept of `ex1` -/
theorem ex1_top : isConcept ex1 3 1 := isConcept_of_has ex1_WF (by decide) (by decide) (by decide) (by decide)
/-- `({1}, {0,1})` is a concept of `ex1` -/
theorem ex1_bot : isConcept ex1 2 3 := isConcept_of_has ex1_WF (by decide) (by decide) (by decide) (by decide)
/-- `({0}, {0})` and `({1}, {1})` are concepts of `ex2` -/
theorem ex2_left : isConcept ex2 1 1 := isConcept_of_has ex2_WF (by decide) (by decide) (by decide) (by decide)
theorem ex2_right : isConcept ex2 2 2 := isConcept_of_has ex2_WF (by decide) (by decide) (by decide) (by decide)

/-! ## transposition: exactly the dual lattice -/

/-- The concepts of the transposed table are the concepts of the table with extent and intent swapped. -/
theorem C15_transpose {K : Ctx} (h : K.WF) {A B : Nat} :
    isConcept K.transpose B A ↔ isConcept K A B := isConcept_transpose h

example : ex1.WF := ex1_WF
example : isConcept ex1.transpose 1 3 := (C15_transpose ex1_WF).mpr ex1_top

/-- The order is reversed: `(A₁,B₁) ≤ (A₂,B₂)` in `K` (extent inclusion `A₁ ⊆ A₂`) iff
`(B₂,A₂) ≤ (B₁,A₁)` in `Kᵀ` (extent inclusion there: `B₂ ⊆ B₁`). -/
theorem C15_transpose_order {K : Ctx} (h : K.WF) {A₁ B₁ A₂ B₂ : Nat}
    (h1 : isConcept K A₁ B₁) (h2 : isConcept K A₂ B₂) : A₁ ⊆ᵇ A₂ ↔ B₂ ⊆ᵇ B₁ :=
  concept_order_dual h h1 h2

example : (2 ⊆ᵇ 3) ↔ (1 ⊆ᵇ 3) := C15_transpose_order ex1_WF ex1_bot ex1_top

/-- Covers are reversed. -/
theorem C15_transpose_covers {K : Ctx} (h : K.WF) {A₁ B₁ A₂ B₂ : Nat} :
    Covers K.transpose B₂ A₂ B₁ A₁ ↔ Covers K A₁ B₁ A₂ B₂ :=
  ⟨fun hc => covers_transpose_imp (transpose_WF h) hc, covers_transpose_imp h⟩

/-- Join and meet are exchanged. -/
theorem C15_transpose_join_meet {K : Ctx} (h : K.WF) {A₁ B₁ A₂ B₂ A B : Nat} :
    IsJoin K.transpose B₁ A₁ B₂ A₂ B A ↔ IsMeet K A₁ B₁ A₂ B₂ A B :=
  ⟨fun hj => join_transpose_imp (transpose_WF h) hj, meet_transpose_imp h⟩

theorem C15_transpose_meet_join {K : Ctx} (h : K.WF) {A₁ B₁ A₂ B₂ A B : Nat} :
    IsMeet K.transpose B₁ A₁ B₂ A₂ B A ↔ IsJoin K A₁ B₁ A₂ B₂ A B :=
  ⟨fun hj => meet_transpose_imp (transpose_WF h) hj, join_transpose_imp h⟩

/-- Transposition does not change the number of concepts. -/
theorem C15_transpose_card {K : Ctx} (h : K.WF) :
    (conceptSet K.transpose).card = (conceptSet K).card := transpose_card h

/-! ## relabelling: permuting rows and columns -/

/-- the transposition of `0` and `1` -/
def swap01 (i : Nat) : Nat := 1 - i

/-- `ex1` with both the rows and the columns exchanged -/
def ex1' : Ctx := mkCtx 2 2 #[3, 2]
theorem ex1'_WF : ex1'.WF := mkCtx_WF 2 2 #[3, 2] rfl (by decide)

theorem ex1_relabel : Relabel ex1 ex1' swap01 swap01 swap01 swap01 :=
  ⟨ex1_WF, ex1'_WF, rfl, rfl, by decide, by decide, by decide⟩

/-- Concepts correspond: if `A'` is the image of `A` under the row permutation and `B'` the image of
`B` under the column permutation, `(A,B)` is a concept of `K` iff `(A',B')` is one of `K'`. -/
theorem C15_perm {K K' : Ctx} {σ σi τ τi : Nat → Nat} (r : Relabel K K' σ σi τ τi)
    {A B A' B' : Nat} (hA : Image σ K.n A A') (hB : Image τ K.m B B') :
    isConcept K A B ↔ isConcept K' A' B' := r.concept_iff hA hB

example : Image swap01 ex1.n 2 1 := by decide
example : Image swap01 ex1.m 3 3 := by decide
example : isConcept ex1' 1 3 :=
  (C15_perm ex1_relabel (A := 2) (B := 3) (by decide) (by decide)).mp ex1_bot

/-- the same with the computed image masks -/
theorem C15_perm_mapMask {K K' : Ctx} {σ σi τ τi : Nat → Nat} (r : Relabel K K' σ σi τ τi)
    {A B : Nat} (h : isConcept K A B) : isConcept K' (mapMask σ K.n A) (mapMask τ K.m B) :=
  (r.concept_iff (image_mapMask r.hσ h.1) (image_mapMask r.hτ h.2.1)).mp h

/-- ... and every concept of `K'` arises that way (from a unique concept of `K`, see `Image.unique`) -/
theorem C15_perm_surj {K K' : Ctx} {σ σi τ τi : Nat → Nat} (r : Relabel K K' σ σi τ τi)
    {A' B' : Nat} (h : isConcept K' A' B') :
    ∃ A B, isConcept K A B ∧ Image σ K.n A A' ∧ Image τ K.m B B' :=
  ⟨_, _, (r.concept_preimage h).2.2, (r.concept_preimage h).1, (r.concept_preimage h).2.1⟩

/-- The order is preserved. -/
theorem C15_perm_order {σ σi : Nat → Nat} {n A₁ A₁' A₂ A₂' : Nat} (hσ : PermOn σ σi n)
    (h1 : Image σ n A₁ A₁') (h2 : Image σ n A₂ A₂') : A₁ ⊆ᵇ A₂ ↔ A₁' ⊆ᵇ A₂' :=
  Image.sub_iff hσ h1 h2

example : PermOn swap01 swap01 2 := by decide

/-- The covering relation is preserved. -/
theorem C15_perm_covers {K K' : Ctx} {σ σi τ τi : Nat → Nat} (r : Relabel K K' σ σi τ τi)
    {A₁ B₁ A₂ B₂ A₁' B₁' A₂' B₂' : Nat}
    (hA₁ : Image σ K.n A₁ A₁') (hB₁ : Image τ K.m B₁ B₁')
    (hA₂ : Image σ K.n A₂ A₂') (hB₂ : Image τ K.m B₂ B₂') :
    Covers K A₁ B₁ A₂ B₂ ↔ Covers K' A₁' B₁' A₂' B₂' :=
  ⟨r.covers_imp hA₁ hB₁ hA₂ hB₂,
   r.symm.covers_imp (r.image_symm hA₁) (r.image_symm' hB₁) (r.image_symm hA₂) (r.image_symm' hB₂)⟩

/-- Joins are preserved. -/
theorem C15_perm_join {K K' : Ctx} {σ σi τ τi : Nat → Nat} (r : Relabel K K' σ σi τ τi)
    {A₁ B₁ A₂ B₂ A B A₁' B₁' A₂' B₂' A' B' : Nat}
    (hA₁ : Image σ K.n A₁ A₁') (hB₁ : Image τ K.m B₁ B₁')
    (hA₂ : Image σ K.n A₂ A₂') (hB₂ : Image τ K.m B₂ B₂')
    (hA : Image σ K.n A A') (hB : Image τ K.m B B') :
    IsJoin K A₁ B₁ A₂ B₂ A B ↔ IsJoin K' A₁' B₁' A₂' B₂' A' B' :=
  ⟨r.join_imp hA₁ hB₁ hA₂ hB₂ hA hB,
   r.symm.join_imp (r.image_symm hA₁) (r.image_symm' hB₁) (r.image_symm hA₂) (r.image_symm' hB₂)
     (r.image_symm hA) (r.image_symm' hB)⟩

/-- Meets are preserved. -/
theorem C15_perm_meet {K K' : Ctx} {σ σi τ τi : Nat → Nat} (r : Relabel K K' σ σi τ τi)
    {A₁ B₁ A₂ B₂ A B A₁' B₁' A₂' B₂' A' B' : Nat}
    (hA₁ : Image σ K.n A₁ A₁') (hB₁ : Image τ K.m B₁ B₁')
    (hA₂ : Image σ K.n A₂ A₂') (hB₂ : Image τ K.m B₂ B₂')
    (hA : Image σ K.n A A') (hB : Image τ K.m B B') :
    IsMeet K A₁ B₁ A₂ B₂ A B ↔ IsMeet K' A₁' B₁' A₂' B₂' A' B' :=
  ⟨r.meet_imp hA₁ hB₁ hA₂ hB₂ hA hB,
   r.symm.meet_imp (r.image_symm hA₁) (r.image_symm' hB₁) (r.image_symm hA₂) (r.image_symm' hB₂)
     (r.image_symm hA) (r.image_symm' hB)⟩

/-- The number of concepts is preserved. -/
theorem C15_perm_card {K K' : Ctx} {σ σi τ τi : Nat → Nat} (r : Relabel K K' σ σi τ τi) :
    (conceptSet K').card = (conceptSet K).card := r.card

/-- Property relations (`junctors.py`) are preserved: the truth-value pattern code of a pair of
columns, and of a single column, is the same for the relabelled columns of the relabelled context. -/
theorem C15_perm_binaryCode {K K' : Ctx} {σ σi τ τi : Nat → Nat} (r : Relabel K K' σ σi τ τi)
    {j₁ j₂ : Nat} (h1 : j₁ < K.m) (h2 : j₂ < K.m) :
    binaryCode K'.n (K'.cols[τ j₁]!) (K'.cols[τ j₂]!) = binaryCode K.n (K.cols[j₁]!) (K.cols[j₂]!) := by
  rw [r.hn]; exact (binaryCode_image r.hσ (r.image_col h1) (r.image_col h2)).symm

theorem C15_perm_unaryCode {K K' : Ctx} {σ σi τ τi : Nat → Nat} (r : Relabel K K' σ σi τ τi)
    {j : Nat} (h : j < K.m) :
    unaryCode K'.n (K'.cols[τ j]!) = unaryCode K.n (K.cols[j]!) := by
  rw [r.hn]; exact (unaryCode_image r.hσ (r.image_col h)).symm

/-! ## a copy of an existing row -/

/-- `ex1` plus a copy of object 1 -/
def ex1r : Ctx := mkCtx 3 2 #[1, 3, 3]
theorem ex1r_WF : ex1r.WF := mkCtx_WF 3 2 #[1, 3, 3] rfl (by decide)
theorem ex1_dupRow : DupRow ex1 ex1r 1 := ⟨ex1_WF, ex1r_WF, rfl, rfl, by decide, by decide, by decide⟩

/-- Every concept survives with the same intent; the copy joins the extent iff the original is in it. -/
theorem C15_dup_row_fwd {K K' : Ctx} {i₀ : Nat} (d : DupRow K K' i₀) {A B : Nat}
    (h : isConcept K A B) : isConcept K' (if i₀ ∈ᵇ A then A ||| 2 ^ K.n else A) B :=
  (isConcept_transpose d.wf').mp (d.transpose.fwd ((isConcept_transpose d.wf).mpr h))

/-- Every concept of the enlarged context restricts to a concept with the same intent. -/
theorem C15_dup_row_bwd {K K' : Ctx} {i₀ : Nat} (d : DupRow K K' i₀) {A' B : Nat}
    (h : isConcept K' A' B) : isConcept K (A' &&& full K.n) B :=
  (isConcept_transpose d.wf).mp (d.transpose.addCol.bwd ((isConcept_transpose d.wf').mpr h))

/-- The family of intents is unchanged. -/
theorem C15_dup_row {K K' : Ctx} {i₀ : Nat} (d : DupRow K K' i₀) {B : Nat} :
    (∃ A, isConcept K A B) ↔ (∃ A', isConcept K' A' B) :=
  ⟨fun ⟨_, h⟩ => ⟨_, C15_dup_row_fwd d h⟩, fun ⟨_, h⟩ => ⟨_, C15_dup_row_bwd d h⟩⟩

/-- `C15_dup_row_fwd` and `C15_dup_row_bwd` are mutually inverse on concepts: restricting the enlarged
extent gives back the extent, ... -/
theorem C15_dup_row_bwd_fwd {K : Ctx} {i₀ A B : Nat} (h : isConcept K A B) :
    (if i₀ ∈ᵇ A then A ||| 2 ^ K.n else A) &&& full K.n = A := by
  apply ext; intro i
  have hA := h.1
  by_cases hi : i₀ ∈ᵇ A
  · simp only [hi, if_true, mem_and, mem_or, mem_pow, mem_full]
    constructor
    · rintro ⟨h1 | rfl, h2⟩
      · exact h1
      · omega
    · intro h1; exact ⟨Or.inl h1, hA i h1⟩
  · simp only [hi, if_false, mem_and, mem_full]
    exact ⟨fun h1 => h1.1, fun h1 => ⟨h1, hA i h1⟩⟩

/-- ... and enlarging the restricted extent of a concept of `K'` gives back that extent (the copy is in
an extent of `K'` iff the original is). -/
theorem C15_dup_row_fwd_bwd {K K' : Ctx} {i₀ : Nat} (d : DupRow K K' i₀) {A' B : Nat}
    (h : isConcept K' A' B) :
    (if i₀ ∈ᵇ (A' &&& full K.n) then (A' &&& full K.n) ||| 2 ^ K.n else A' &&& full K.n) = A' := by
  have hb : Bounded (K.n + 1) A' := by rw [← d.hn]; exact h.1
  have hT := (isConcept_transpose d.wf').mpr h
  have hnew : K.n ∈ᵇ A' ↔ i₀ ∈ᵇ (A' &&& full K.n) :=
    (d.transpose.addCol.new_mem hT).trans (d.transpose.sub_iff (d.transpose.addCol.bwd hT))
  apply ext; intro i
  by_cases hi : i₀ ∈ᵇ (A' &&& full K.n)
  · simp only [hi, if_true, mem_and, mem_or, mem_pow, mem_full]
    constructor
    · rintro (h1 | rfl)
      · exact h1.1
      · exact hnew.mpr hi
    · intro h1
      by_cases hin : i < K.n
      · exact Or.inl ⟨h1, hin⟩
      · right; have := hb i h1; omega
  · simp only [hi, if_false, mem_and, mem_full]
    constructor
    · exact fun h1 => h1.1
    · intro h1
      refine ⟨h1, ?_⟩
      by_contra hin
      have : i = K.n := by have := hb i h1; omega
      subst this
      exact hi (hnew.mp h1)

/-- The number of concepts is unchanged (`C15_dup_row_fwd` / `C15_dup_row_bwd` are inverse bijections). -/
theorem C15_dup_row_card {K K' : Ctx} {i₀ : Nat} (d : DupRow K K' i₀) :
    (conceptSet K').card = (conceptSet K).card := by
  rw [← transpose_card d.wf', ← transpose_card d.wf]
  exact d.transpose.addCol.card

example : isConcept ex1r 6 3 := C15_dup_row_fwd ex1_dupRow ex1_bot
example : (conceptSet ex1r).card = (conceptSet ex1).card := C15_dup_row_card ex1_dupRow

/-! ## a copy of an existing column -/

/-- `ex1` plus a copy of property 1 -/
def ex1c : Ctx := mkCtx 2 3 #[1, 7]
theorem ex1c_WF : ex1c.WF := mkCtx_WF 2 3 #[1, 7] rfl (by decide)
theorem ex1_dupCol : DupCol ex1 ex1c 1 := ⟨ex1_WF, ex1c_WF, rfl, rfl, by decide, by decide, by decide⟩

/-- Every concept survives with the same extent; the copy joins the intent iff the original is in it. -/
theorem C15_dup_col_fwd {K K' : Ctx} {j₀ : Nat} (d : DupCol K K' j₀) {A B : Nat}
    (h : isConcept K A B) : isConcept K' A (if j₀ ∈ᵇ B then B ||| 2 ^ K.m else B) := d.fwd h

theorem C15_dup_col_bwd {K K' : Ctx} {j₀ : Nat} (d : DupCol K K' j₀) {A B' : Nat}
    (h : isConcept K' A B') : isConcept K A (B' &&& full K.m) := d.addCol.bwd h

/-- The family of extents is unchanged. -/
theorem C15_dup_col {K K' : Ctx} {j₀ : Nat} (d : DupCol K K' j₀) {A : Nat} :
    (∃ B, isConcept K A B) ↔ (∃ B', isConcept K' A B') := d.addCol.extents_iff

theorem C15_dup_col_card {K K' : Ctx} {j₀ : Nat} (d : DupCol K K' j₀) :
    (conceptSet K').card = (conceptSet K).card := d.addCol.card

example : isConcept ex1c 2 7 := C15_dup_col_fwd ex1_dupCol ex1_bot
example : isConcept ex1c 3 1 := C15_dup_col_fwd ex1_dupCol ex1_top

/-! ## a column that applies to every object -/

/-- `ex2` plus a property that both objects have -/
def ex2f : Ctx := mkCtx 2 3 #[5, 6]
theorem ex2f_WF : ex2f.WF := mkCtx_WF 2 3 #[5, 6] rfl (by decide)
theorem ex2_fullCol : FullCol ex2 ex2f := ⟨ex2_WF, ex2f_WF, rfl, rfl, by decide, by decide⟩

/-- Every concept survives with the same extent; the new property joins every intent. -/
theorem C15_full_col_fwd {K K' : Ctx} (d : FullCol K K') {A B : Nat}
    (h : isConcept K A B) : isConcept K' A (B ||| 2 ^ K.m) := d.fwd h

theorem C15_full_col_bwd {K K' : Ctx} (d : FullCol K K') {A B' : Nat}
    (h : isConcept K' A B') : isConcept K A (B' &&& full K.m) := d.addCol.bwd h

/-- The family of extents is unchanged. -/
theorem C15_full_col {K K' : Ctx} (d : FullCol K K') {A : Nat} :
    (∃ B, isConcept K A B) ↔ (∃ B', isConcept K' A B') := d.addCol.extents_iff

theorem C15_full_col_card {K K' : Ctx} (d : FullCol K K') :
    (conceptSet K').card = (conceptSet K).card := d.addCol.card

example : isConcept ex2f 1 5 := C15_full_col_fwd ex2_fullCol ex2_left

/-! More generally (`AddCol`): a new column whose object set is any extent of `K` (an intersection of
existing columns — a *reducible* property) leaves the family of extents and the number of concepts
unchanged; `C15_dup_col` and `C15_full_col` are the special cases `E = {j₀}'` and `E = G`. -/
theorem C15_reducible_col {K K' : Ctx} {E : Nat} (a : AddCol K K' E) {A : Nat} :
    ((∃ B, isConcept K A B) ↔ (∃ B', isConcept K' A B')) ∧
      (conceptSet K').card = (conceptSet K).card := ⟨a.extents_iff, a.card⟩

#print axioms C15_isConcept_spec
#print axioms C15_transpose
#print axioms C15_transpose_order
#print axioms C15_transpose_covers
#print axioms C15_transpose_join_meet
#print axioms C15_transpose_meet_join
#print axioms C15_transpose_card
#print axioms C15_perm
#print axioms C15_perm_mapMask
#print axioms C15_perm_surj
#print axioms C15_perm_order
#print axioms C15_perm_covers
#print axioms C15_perm_join
#print axioms C15_perm_meet
#print axioms C15_perm_card
#print axioms C15_perm_binaryCode
#print axioms C15_perm_unaryCode
#print axioms C15_dup_row_fwd
#print axioms C15_dup_row_bwd
#print axioms C15_dup_row
#print axioms C15_dup_row_bwd_fwd
#print axioms C15_dup_row_fwd_bwd
#print axioms C15_dup_row_card
#print axioms C15_dup_col_fwd
#print axioms C15_dup_col_bwd
#print axioms C15_dup_col
#print axioms C15_dup_col_card
#print axioms C15_full_col_fwd
#print axioms C15_full_col_bwd
#print axioms C15_full_col
#print axioms C15_full_col_card
#print axioms C15_reducible_col


/-! ## the same statements about the lattice objects the library builds (`mkLattice`) -/

/-- the concept set of `K` is what `iter(context.lattice)` lists, and `len(lattice)` is its size -/
theorem C15_lattice_is_conceptSet {K : Ctx} (h : K.WF) :
    (∀ p, p ∈ (mkLattice K).map (fun c => (c.extent, c.intent)) ↔ p ∈ conceptSet K) ∧
    (mkLattice K).length = (conceptSet K).card := by
  have hmem : ∀ p, p ∈ (mkLattice K).map (fun c => (c.extent, c.intent)) ↔ p ∈ conceptSet K := by
    intro p; rw [mem_conceptSet]; exact C03_lattice_iff K h p.1 p.2
  refine ⟨hmem, ?_⟩
  have hnd := C03_lattice_nodup K h
  rw [← List.length_map (f := fun c : LConcept => (c.extent, c.intent)), ← List.toFinset_card_of_nodup hnd]
  congr 1
  ext p
  rw [List.mem_toFinset]; exact hmem p

/-- relabelling: the lattice of the permuted context lists exactly the images of the concepts, and has
the same number of concepts -/
theorem C15_lattice_perm {K K' : Ctx} {σ σi τ τi : Nat → Nat} (r : Relabel K K' σ σi τ τi)
    {A B A' B' : Nat} (hA : Image σ K.n A A') (hB : Image τ K.m B B') :
    ((A, B) ∈ (mkLattice K).map (fun c => (c.extent, c.intent)) ↔
      (A', B') ∈ (mkLattice K').map (fun c => (c.extent, c.intent))) ∧
    (mkLattice K').length = (mkLattice K).length := by
  constructor
  · rw [C03_lattice_iff K r.wf, C03_lattice_iff K' r.wf']; exact C15_perm r hA hB
  · rw [(C15_lattice_is_conceptSet r.wf).2, (C15_lattice_is_conceptSet r.wf').2]; exact C15_perm_card r

/-- transposition: the lattice of the transposed context lists exactly the swapped pairs (the dual lattice) -/
theorem C15_lattice_transpose {K : Ctx} (h : K.WF) (A B : Nat) :
    ((B, A) ∈ (mkLattice K.transpose).map (fun c => (c.extent, c.intent)) ↔
      (A, B) ∈ (mkLattice K).map (fun c => (c.extent, c.intent))) ∧
    (mkLattice K.transpose).length = (mkLattice K).length := by
  constructor
  · rw [C03_lattice_iff K h, C03_lattice_iff K.transpose (transpose_WF h)]; exact C15_transpose h
  · rw [(C15_lattice_is_conceptSet h).2, (C15_lattice_is_conceptSet (transpose_WF h)).2]; exact C15_transpose_card h

/-- duplicated row / duplicated column / full column: the number of concepts of the lattice is unchanged -/
theorem C15_lattice_dup_card {K K' : Ctx} :
    (∀ i₀, DupRow K K' i₀ → (mkLattice K').length = (mkLattice K).length) ∧
    (∀ j₀, DupCol K K' j₀ → (mkLattice K').length = (mkLattice K).length) ∧
    (FullCol K K' → (mkLattice K').length = (mkLattice K).length) := by
  refine ⟨fun i₀ d => ?_, fun j₀ d => ?_, fun d => ?_⟩
  · rw [(C15_lattice_is_conceptSet d.wf).2, (C15_lattice_is_conceptSet d.wf').2]; exact C15_dup_row_card d
  · rw [(C15_lattice_is_conceptSet d.addCol.wf).2, (C15_lattice_is_conceptSet d.addCol.wf').2]; exact C15_dup_col_card d
  · rw [(C15_lattice_is_conceptSet d.addCol.wf).2, (C15_lattice_is_conceptSet d.addCol.wf').2]; exact C15_full_col_card d

end FCA
