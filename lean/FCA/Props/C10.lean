import FCA.Proofs.Labels
/-
C10 — Reduced labelling (`Lattice._annotate`, `Concept.objects` / `.properties` / `.atoms`):

For any (well-formed) context each object `o` appears in the `objects` label of exactly one concept of
`Context.lattice`, the object concept `(o'', o')`, and each property `p` in the `properties` label of
exactly one concept, the attribute concept `(p', p'')`; inside a label the members are in context order.
Consequently the extent of a concept is the union of the object labels in its downset, its intent the
union of the property labels in its upset, and `concept.atoms` lists exactly the lattice atoms below or
equal to the concept.

Objects and properties are numbers (their positions in the context), concepts are referred to by
membership in / position in `mkLattice K`; `i ∈ᵇ s` is membership in a bit mask.
-/
namespace FCA

/-! ### object labels -/

/-- `o` is in the `objects` label of `c` iff `c` is the object concept of `o`: extent `{o}''` -/
theorem C10_object_label {K : Ctx} (hK : K.WF) {c : LConcept} (hc : c ∈ mkLattice K) (o : Nat) :
    o ∈ c.objects ↔ o < K.n ∧ c.extent = K.doubleObj (2 ^ o) :=
  C10.mem_objects (mkLattice_spec hK) hc

/-- ... i.e. `c = (o'', o')` -/
theorem C10_object_label_concept {K : Ctx} (hK : K.WF) {c : LConcept} (hc : c ∈ mkLattice K) (o : Nat) :
    o ∈ c.objects ↔ o < K.n ∧ c.extent = K.extentOf (K.intentOf (2 ^ o)) ∧ c.intent = K.intentOf (2 ^ o) := by
  rw [C10_object_label hK hc]
  constructor
  · rintro ⟨ho, he⟩
    refine ⟨ho, he, ?_⟩
    rw [C10.intent_of_mem (mkLattice_spec hK) hc, he]
    exact intent_extent_intent hK (C10.bounded_pow ho)
  · rintro ⟨ho, he, _⟩; exact ⟨ho, he⟩

/-- a label lists its objects in context order (in particular without repetition) -/
theorem C10_object_sorted {K : Ctx} (hK : K.WF) {c : LConcept} (hc : c ∈ mkLattice K) :
    c.objects.Pairwise (· < ·) := by
  rw [C10.objects_of_mem (mkLattice_spec hK) hc]
  exact C10.objectLabels_sorted K _

/-- every object labels exactly one concept: there is one and any two are equal ... -/
theorem C10_object_unique {K : Ctx} (hK : K.WF) {o : Nat} (ho : o < K.n) :
    ∃! c, c ∈ mkLattice K ∧ o ∈ c.objects := by
  have S := mkLattice_spec hK
  obtain ⟨c, hc, he⟩ := C10.exists_of_closed S (C10.objConcept_closed hK ho)
  refine ⟨c, ⟨hc, (C10.mem_objects S hc).mpr ⟨ho, he⟩⟩, ?_⟩
  rintro d ⟨hd, hod⟩
  exact C10.eq_of_extent_eq S hd hc (((C10.mem_objects S hd).mp hod).2.trans he.symm)

/-- ... and it occurs once in the list of concepts -/
theorem C10_object_unique_count {K : Ctx} (hK : K.WF) {o : Nat} (ho : o < K.n) :
    (mkLattice K).countP (fun c => decide (o ∈ c.objects)) = 1 :=
  C10.countP_objects (mkLattice_spec hK) ho

/-- the object labels, concatenated in concept order, are a rearrangement of all objects -/
theorem C10_object_partition {K : Ctx} (hK : K.WF) :
    ((mkLattice K).flatMap (·.objects)).Perm (List.range K.n) :=
  C10.objects_partition (mkLattice_spec hK)

/-! ### property labels -/

/-- `p` is in the `properties` label of `c` iff `c` is the attribute concept of `p`: extent `{p}'` -/
theorem C10_property_label {K : Ctx} (hK : K.WF) {c : LConcept} (hc : c ∈ mkLattice K) (p : Nat) :
    p ∈ c.properties ↔ p < K.m ∧ c.extent = K.extentOf (2 ^ p) :=
  C10.mem_properties (mkLattice_spec hK) hc

/-- ... i.e. `c = (p', p'')` -/
theorem C10_property_label_concept {K : Ctx} (hK : K.WF) {c : LConcept} (hc : c ∈ mkLattice K) (p : Nat) :
    p ∈ c.properties ↔ p < K.m ∧ c.extent = K.extentOf (2 ^ p) ∧ c.intent = K.intentOf (K.extentOf (2 ^ p)) := by
  rw [C10_property_label hK hc]
  constructor
  · rintro ⟨hp, he⟩
    refine ⟨hp, he, ?_⟩
    rw [C10.intent_of_mem (mkLattice_spec hK) hc, he]
  · rintro ⟨hp, he, _⟩; exact ⟨hp, he⟩

theorem C10_property_sorted {K : Ctx} (hK : K.WF) {c : LConcept} (hc : c ∈ mkLattice K) :
    c.properties.Pairwise (· < ·) := by
  rw [C10.properties_of_mem (mkLattice_spec hK) hc]
  exact C10.propertyLabels_sorted K _

theorem C10_property_unique {K : Ctx} (hK : K.WF) {p : Nat} (hp : p < K.m) :
    ∃! c, c ∈ mkLattice K ∧ p ∈ c.properties := by
  have S := mkLattice_spec hK
  obtain ⟨c, hc, he⟩ := C10.exists_of_closed S (C10.attrConcept_closed hK hp)
  refine ⟨c, ⟨hc, (C10.mem_properties S hc).mpr ⟨hp, he⟩⟩, ?_⟩
  rintro d ⟨hd, hpd⟩
  exact C10.eq_of_extent_eq S hd hc (((C10.mem_properties S hd).mp hpd).2.trans he.symm)

theorem C10_property_unique_count {K : Ctx} (hK : K.WF) {p : Nat} (hp : p < K.m) :
    (mkLattice K).countP (fun c => decide (p ∈ c.properties)) = 1 :=
  C10.countP_properties (mkLattice_spec hK) hp

theorem C10_property_partition {K : Ctx} (hK : K.WF) :
    ((mkLattice K).flatMap (·.properties)).Perm (List.range K.m) :=
  C10.properties_partition (mkLattice_spec hK)

/-! ### extent / intent from the labels -/

/-- the extent of a concept is the union of the object labels in its downset -/
theorem C10_extent_from_labels {K : Ctx} (hK : K.WF) {c : LConcept} (hc : c ∈ mkLattice K) (i : Nat) :
    i ∈ᵇ c.extent ↔ ∃ d ∈ mkLattice K, d.extent ⊆ᵇ c.extent ∧ i ∈ d.objects :=
  C10.extent_from_labels (mkLattice_spec hK) hc i

/-- the intent of a concept is the union of the property labels in its upset -/
theorem C10_intent_from_labels {K : Ctx} (hK : K.WF) {c : LConcept} (hc : c ∈ mkLattice K) (j : Nat) :
    j ∈ᵇ c.intent ↔ ∃ d ∈ mkLattice K, c.extent ⊆ᵇ d.extent ∧ j ∈ d.properties :=
  C10.intent_from_labels (mkLattice_spec hK) hc j

/-! ### atoms -/

/-- `concept.atoms` (as positions): exactly the upper covers of the infimum (extent `∅''`, the first
concept) that are below or equal to the concept -/
theorem C10_atoms {K : Ctx} (hK : K.WF) {k : Nat} {c : LConcept} (hc : (mkLattice K)[k]? = some c) (a : Nat) :
    a ∈ c.atoms ↔ ∃ d, (mkLattice K)[a]? = some d ∧ covers K (K.doubleObj 0) d.extent ∧ d.extent ⊆ᵇ c.extent := by
  have S := mkLattice_spec hK
  rw [S.mem_atoms hc]
  constructor
  · rintro ⟨e, he, hcv, hs⟩
    obtain ⟨d, hd, rfl⟩ := S.get_of_extent he
    exact ⟨d, hd, hcv, hs⟩
  · rintro ⟨d, hd, hcv, hs⟩
    exact ⟨d.extent, S.extent_get hd, hcv, hs⟩

/-- ... where the infimum is the first concept -/
theorem C10_infimum {K : Ctx} (hK : K.WF) :
    ∃ c0, (mkLattice K)[0]? = some c0 ∧ c0.extent = K.doubleObj 0 ∧ ∀ d ∈ mkLattice K, c0.extent ⊆ᵇ d.extent := by
  have S := mkLattice_spec hK
  obtain ⟨c0, h0, he⟩ := S.get_zero
  refine ⟨c0, h0, he, fun d hd => ?_⟩
  rw [he]
  exact bot_least hK (C10.closed_of_mem S hd)

/-- atoms are listed in iteration order (strictly increasing index), hence once each -/
theorem C10_atoms_sorted {K : Ctx} (hK : K.WF) {k : Nat} {c : LConcept} (hc : (mkLattice K)[k]? = some c) :
    c.atoms.Pairwise (· < ·) :=
  C10.atoms_sorted (mkLattice_spec hK) hc

/-! ### the `touched` sets of `_annotate` -/

/-- the labels are order-preserving filters of the context's objects / properties: no enumeration
order of a `set` enters -/
theorem C10_touched_order_irrelevant {K : Ctx} (hK : K.WF) {c : LConcept} (hc : c ∈ mkLattice K) :
    c.objects = (List.range K.n).filter (fun o => K.doubleObj (2 ^ o) == c.extent) ∧
    c.properties = (List.range K.m).filter (fun p => K.extentOf (2 ^ p) == c.extent) :=
  ⟨C10.objects_of_mem (mkLattice_spec hK) hc, C10.properties_of_mem (mkLattice_spec hK) hc⟩

/-- the imperative loop of `_annotate` (`C10.annotateLoop`: append `o` to the label of
`mapping[extent]`, remember first-time concepts in `touched`; then `C10.tupleize`: convert the labels of
the `touched` concepts in *any* enumeration `order`) produces the model's label of every concept,
and `touched` holds exactly the concepts with a non-empty label -/
theorem C10_annotate_loop_objects {K : Ctx} (hK : K.WF) {k : Nat} {c : LConcept}
    (hc : (mkLattice K)[k]? = some c) :
    let st := C10.annotateLoop (fun o => (mkLattice K).find (K.doubleObj (2 ^ o))) (List.range K.n)
    (∀ order : List Nat, C10.tupleize order st.label k = c.objects) ∧ (k ∈ st.touched ↔ c.objects ≠ []) := by
  have S := mkLattice_spec hK
  have hl : (C10.annotateLoop (fun o => (mkLattice K).find (K.doubleObj (2 ^ o))) (List.range K.n)).label k
      = c.objects := by
    rw [C10.annotateLoop_label, S.objects hc]
    unfold objectLabels Ctx.doubleObj
    apply List.filter_congr
    intro o _
    have : (mkLattice K).find (K.extentOf (K.intentOf (2 ^ o))) = some k ↔ K.extentOf (K.intentOf (2 ^ o)) = c.extent := by
      rw [S.find_iff, S.extent_get hc, Option.some.injEq, eq_comm]
    rw [Bool.eq_iff_iff, beq_iff_eq, beq_iff_eq]
    exact this
  intro st
  refine ⟨fun order => ?_, ?_⟩
  · rw [C10.tupleize_eq]; exact hl
  · rw [C10.annotateLoop_touched, hl]

theorem C10_annotate_loop_properties {K : Ctx} (hK : K.WF) {k : Nat} {c : LConcept}
    (hc : (mkLattice K)[k]? = some c) :
    let st := C10.annotateLoop (fun p => (mkLattice K).find (K.extentOf (2 ^ p))) (List.range K.m)
    (∀ order : List Nat, C10.tupleize order st.label k = c.properties) ∧ (k ∈ st.touched ↔ c.properties ≠ []) := by
  have S := mkLattice_spec hK
  have hl : (C10.annotateLoop (fun p => (mkLattice K).find (K.extentOf (2 ^ p))) (List.range K.m)).label k
      = c.properties := by
    rw [C10.annotateLoop_label, S.properties hc]
    unfold propertyLabels
    apply List.filter_congr
    intro p _
    have : (mkLattice K).find (K.extentOf (2 ^ p)) = some k ↔ K.extentOf (2 ^ p) = c.extent := by
      rw [S.find_iff, S.extent_get hc, Option.some.injEq, eq_comm]
    rw [Bool.eq_iff_iff, beq_iff_eq, beq_iff_eq]
    exact this
  intro st
  refine ⟨fun order => ?_, ?_⟩
  · rw [C10.tupleize_eq]; exact hl
  · rw [C10.annotateLoop_touched, hl]

/-! ### non-vacuity: a diamond with duplicate rows, a full row and a full column

objects `0 ↦ {0,1}`, `1 ↦ {0,2}`, `2 ↦ {0,2}`, `3 ↦ {0,1,2,3}`: object 3 labels the infimum, property 0
the supremum, objects 1 and 2 share a concept. -/

/-- example context -/
def C10_exK : Ctx := mkCtx 4 4 #[0b0011, 0b0101, 0b0101, 0b1111]

example : C10_exK.WF := mkCtx_WF _ _ _ rfl (by decide)
/-- (extent, intent, objects, properties, atoms) of the four concepts -/
example : (mkLattice C10_exK).map (fun c => (c.extent, c.intent, c.objects, c.properties, c.atoms)) =
    [(0b1000, 0b1111, [3], [3], []), (0b1001, 0b0011, [0], [1], [1]),
     (0b1110, 0b0101, [1, 2], [2], [2]), (0b1111, 0b0001, [], [0], [1, 2])] := by decide +kernel
example : ∃ c ∈ mkLattice C10_exK, (1 : Nat) ∈ c.objects ∧ (2 : Nat) ∈ c.objects := by decide +kernel
example : (3 : Nat) < C10_exK.n ∧ (3 : Nat) < C10_exK.m := by decide

/-- a context with an empty column (property 2) and no full row: the infimum `(∅, M)` carries a
property label only; the supremum carries nothing -/
def C10_exK2 : Ctx := mkCtx 2 3 #[0b001, 0b010]

example : C10_exK2.WF := mkCtx_WF _ _ _ rfl (by decide)
example : (mkLattice C10_exK2).map (fun c => (c.extent, c.intent, c.objects, c.properties, c.atoms)) =
    [(0b00, 0b111, [], [2], []), (0b01, 0b001, [0], [0], [1]),
     (0b10, 0b010, [1], [1], [2]), (0b11, 0b000, [], [], [1, 2])] := by decide +kernel

end FCA

#print axioms FCA.C10_object_label
#print axioms FCA.C10_object_label_concept
#print axioms FCA.C10_object_sorted
#print axioms FCA.C10_object_unique
#print axioms FCA.C10_object_unique_count
#print axioms FCA.C10_object_partition
#print axioms FCA.C10_property_label
#print axioms FCA.C10_property_label_concept
#print axioms FCA.C10_property_sorted
#print axioms FCA.C10_property_unique
#print axioms FCA.C10_property_unique_count
#print axioms FCA.C10_property_partition
#print axioms FCA.C10_extent_from_labels
#print axioms FCA.C10_intent_from_labels
#print axioms FCA.C10_atoms
#print axioms FCA.C10_infimum
#print axioms FCA.C10_atoms_sorted
#print axioms FCA.C10_touched_order_irrelevant
#print axioms FCA.C10_annotate_loop_objects
#print axioms FCA.C10_annotate_loop_properties
