import FCA.Generated.Fcbo
import FCA.Model.Fcbo
/-
C04 over the regenerated source: the bodies of the inner `for j, j_x in reversed(j_atom[index:])` loops of
`fast_generate_from` and `fcbo_dual`, as translated from the current `fcbo.py` by harness/extract.py and folded
over the candidate indices, are the model's `fcboInner` for the two sides — so `C04_*` (proved about `fcboInner` /
`fcboNode`) speak about the loop bodies the source has now.
-/
namespace FCA

/-- pushed stack entry `((extent, intent), j + 1)` of `fast_generate_from` as a model child -/
def pushedByIntent (x : (Nat × Nat) × Nat) : Nat × FNode := (x.2 - 1, ⟨x.1.2, x.1.1⟩)
/-- pushed stack entry `((extent, intent), j + 1)` of `fcbo_dual` as a model child -/
def pushedByExtent (x : (Nat × Nat) × Nat) : Nat × FNode := (x.2 - 1, ⟨x.1.1, x.1.2⟩)

/-- one pass of the regenerated body of `fast_generate_from`, spelled out -/
theorem C04_generated_fcbo_body (col : Nat → Nat) (prime : Nat → Nat) (e i j : Nat) (sets : Array Nat)
    (out : List ((Nat × Nat) × Nat)) :
    Generated.fast_generate_from_body col prime e i j (2 ^ j) sets out =
      if 2 ^ j &&& i ≠ 0 then (sets, out)
      else if sets[j]! &&& (2 ^ j - 1) &&& i = sets[j]! &&& (2 ^ j - 1) then
        if prime (e &&& col j) &&& (2 ^ j - 1) &&& i = prime (e &&& col j) &&& (2 ^ j - 1) then
          (sets, ((e &&& col j, prime (e &&& col j)), j + 1) :: out)
        else (sets.set! j (prime (e &&& col j)), out)
      else (sets, out) := by
  rfl

/-- one pass of the regenerated body of `fcbo_dual`, spelled out -/
theorem C04_generated_fcbo_dual_body (col : Nat → Nat) (prime : Nat → Nat) (e i j : Nat) (sets : Array Nat)
    (out : List ((Nat × Nat) × Nat)) :
    Generated.fcbo_dual_body col prime e i j (2 ^ j) sets out =
      if e &&& 2 ^ j ≠ 0 then (sets, out)
      else if sets[j]! &&& (2 ^ j - 1) &&& e = sets[j]! &&& (2 ^ j - 1) then
        if prime (i &&& col j) &&& (2 ^ j - 1) &&& e = prime (i &&& col j) &&& (2 ^ j - 1) then
          (sets, ((prime (i &&& col j), i &&& col j), j + 1) :: out)
        else (sets.set! j (prime (i &&& col j)), out)
      else (sets, out) := by
  rfl

theorem C04_generated_fcbo_inner (S : Side) (nd : FNode) (js : List Nat) (sets : Array Nat)
    (out : List ((Nat × Nat) × Nat)) :
    fcboInner S nd js sets (out.map pushedByIntent) =
      (let r := js.foldl (fun s j => Generated.fast_generate_from_body S.col S.prime nd.other nd.own j (2 ^ j) s.1 s.2)
        (sets, out)
       ((r.2.map pushedByIntent).reverse, r.1)) := by
  induction js generalizing sets out with
  | nil => simp [fcboInner]
  | cons j js ih =>
    rw [fcboInner, List.foldl_cons]
    rw [C04_generated_fcbo_body]
    dsimp only
    by_cases h1 : 2 ^ j &&& nd.own ≠ 0
    · rw [if_pos h1, if_pos h1]; exact ih _ _
    · rw [if_neg h1, if_neg h1]
      by_cases h2 : sets[j]! &&& (2 ^ j - 1) &&& nd.own = sets[j]! &&& (2 ^ j - 1)
      · rw [if_pos h2, if_pos h2]
        by_cases h3 : S.prime (nd.other &&& S.col j) &&& (2 ^ j - 1) &&& nd.own
            = S.prime (nd.other &&& S.col j) &&& (2 ^ j - 1)
        · rw [if_pos h3, if_pos h3]
          have := ih sets (((nd.other &&& S.col j, S.prime (nd.other &&& S.col j)), j + 1) :: out)
          simpa [pushedByIntent] using this
        · rw [if_neg h3, if_neg h3]; exact ih _ _
      · rw [if_neg h2, if_neg h2]; exact ih _ _

theorem C04_generated_fcbo_dual_inner (S : Side) (nd : FNode) (js : List Nat) (sets : Array Nat)
    (out : List ((Nat × Nat) × Nat)) :
    fcboInner S nd js sets (out.map pushedByExtent) =
      (let r := js.foldl (fun s j => Generated.fcbo_dual_body S.col S.prime nd.own nd.other j (2 ^ j) s.1 s.2)
        (sets, out)
       ((r.2.map pushedByExtent).reverse, r.1)) := by
  induction js generalizing sets out with
  | nil => simp [fcboInner]
  | cons j js ih =>
    rw [fcboInner, List.foldl_cons]
    rw [C04_generated_fcbo_dual_body, Nat.and_comm nd.own (2 ^ j)]
    dsimp only
    by_cases h1 : 2 ^ j &&& nd.own ≠ 0
    · rw [if_pos h1, if_pos h1]; exact ih _ _
    · rw [if_neg h1, if_neg h1]
      by_cases h2 : sets[j]! &&& (2 ^ j - 1) &&& nd.own = sets[j]! &&& (2 ^ j - 1)
      · rw [if_pos h2, if_pos h2]
        by_cases h3 : S.prime (nd.other &&& S.col j) &&& (2 ^ j - 1) &&& nd.own
            = S.prime (nd.other &&& S.col j) &&& (2 ^ j - 1)
        · rw [if_pos h3, if_pos h3]
          have := ih sets (((S.prime (nd.other &&& S.col j), nd.other &&& S.col j), j + 1) :: out)
          simpa [pushedByExtent] using this
        · rw [if_neg h3, if_neg h3]; exact ih _ _
      · rw [if_neg h2, if_neg h2]; exact ih _ _

end FCA
#print axioms FCA.C04_generated_fcbo_body
#print axioms FCA.C04_generated_fcbo_dual_body
#print axioms FCA.C04_generated_fcbo_inner
#print axioms FCA.C04_generated_fcbo_dual_inner
