import FCA.Proofs.PyLiteralTuple
/-
The sections of a python-literal file and the whole document: flat form of the text written by
`dumpLiteral` and its read-back by `parseItem` / `loadLiteral`.
-/
namespace FCA

/-! ### flat form of the text -/

/-- a names tuple as written: `(⏎    'a', 'b',⏎  )` -/
def litNamesText (printable : Nat → Bool) (names : List Str) : Str :=
  '(' :: '\n' :: ([' ', ' ', ' ', ' '] ++ (joinWith [',', ' '] (names.map (pyReprStr printable)) ++
    (',' :: '\n' :: [' ', ' ', ')'])))

/-- a list of entries as written: `[⏎    e1,⏎    e2,⏎  ]` -/
def litListText (items : List Str) : Str :=
  '[' :: '\n' :: (items.flatMap (fun l => [' ', ' ', ' ', ' '] ++ (l ++ ',' :: ['\n'])) ++ [' ', ' ', ']'])

/-- a dict item as written (without the comma) -/
def litItemText (printable : Nat → Bool) : LitItem → Str
  | .objects v => litKeyObjects ++ [':', ' '] ++ litNamesText printable v
  | .properties v => litKeyProperties ++ [':', ' '] ++ litNamesText printable v
  | .context v => litKeyContext ++ [':', ' '] ++ litListText (v.map pyReprIntTuple)
  | .lattice v => litKeyLattice ++ [':', ' '] ++ litListText (v.map pyReprEntry)

/-- the items of the dict display of a document -/
def litItems (d : LitDoc) : List LitItem :=
  [.objects d.objects, .properties d.properties, .context d.context] ++
    (match d.lattice with
     | none => []
     | some l => [.lattice l])

theorem unlines_namesSection (printable : Nat → Bool) (key : Str) (names : List Str) :
    unlines (litNamesSection printable key names) =
      [' ', ' '] ++ (key ++ [':', ' '] ++ litNamesText printable names) ++ ',' :: ['\n'] := by
  simp [unlines, litNamesSection, litSection, litItemLines, litNamesText]

theorem unlines_listSection (key : Str) (items : List Str) :
    unlines (litListSection key items) =
      [' ', ' '] ++ (key ++ [':', ' '] ++ litListText items) ++ ',' :: ['\n'] := by
  simp [unlines, litListSection, litSection, litItemLines, litListText, List.flatMap_map]

theorem unlines_append (a b : List Str) : unlines (a ++ b) = unlines a ++ unlines b := by
  simp [unlines]

theorem dumpLiteral_flat (printable : Nat → Bool) (d : LitDoc) :
    dumpLiteral printable d =
      '{' :: ('\n' :: ((litItems d).flatMap
        (fun it => [' ', ' '] ++ (litItemText printable it ++ ',' :: ['\n'])) ++ ('}' :: ['\n']))) := by
  unfold dumpLiteral dumpLiteralLines litItems
  simp only [litItemText]
  rw [unlines_append, unlines_append, unlines_append, unlines_append, unlines_append,
    unlines_namesSection, unlines_namesSection, unlines_listSection]
  cases hl : d.lattice with
  | none => simp [unlines]
  | some l =>
    simp only [unlines_listSection]
    simp [unlines]

/-! ### read-back of the sections -/

theorem goodHead_reprStr (printable : Nat → Bool) (close : Char) (h1 : '\'' ≠ close) (h2 : '"' ≠ close)
    (s : Str) : GoodHead close (pyReprStr printable s) := by
  refine ⟨pyQuote s, _, rfl, ?_, ?_⟩
  · rcases pyQuote_cases s with h | h <;> rw [h] <;> decide
  · rcases pyQuote_cases s with h | h <;> rw [h] <;> assumption

theorem flatMap_comma_shift {α : Type} (pr : α → Str) (vs : List α) (x : Str) :
    vs.flatMap (fun u => ',' :: ' ' :: pr u) ++ ',' :: x =
      ',' :: (vs.flatMap (fun u => [' '] ++ (pr u ++ ',' :: [])) ++ x) := by
  induction vs with
  | nil => rfl
  | cons v vs ih =>
    simp only [List.flatMap_cons, List.append_assoc, List.cons_append, List.nil_append, ih]

theorem allWs_of_decide (w : Str) (h : w.all litIsWs = true) : AllWs w := by
  intro c hc
  exact List.all_eq_true.mp h c hc

/-- a written names tuple is read back (the tuple must not be empty: `(,)` is a syntax error) -/
theorem parseSeq_names (printable : Nat → Bool) (n : Nat) (names : List Str) (r : Str)
    (hne : names ≠ []) (hlen : (litNamesText printable names ++ r).length ≤ n) :
    parseSeq parseStrLit n (litNamesText printable names ++ r) = some (names, r) := by
  obtain ⟨v, vs, rfl⟩ := List.exists_cons_of_ne_nil hne
  unfold litNamesText at hlen ⊢
  rw [joinWith_comma_cons] at hlen ⊢
  simp only [List.cons_append, List.append_assoc, List.nil_append, flatMap_comma_shift] at hlen ⊢
  simp only [parseSeq, beq_self_eq_true, if_true]
  rw [show ∀ x : Str, '\n' :: ' ' :: ' ' :: ' ' :: ' ' :: x = ['\n', ' ', ' ', ' ', ' '] ++ x from
    fun _ => rfl, litSeqLoop_ws parseStrLit ')' _ _ (allWs_of_decide _ (by decide))]
  obtain ⟨c, t, hct, hws, hcl⟩ := goodHead_reprStr printable ')' (by decide) (by decide) v
  have hi := parseStrLit_repr printable v
    (',' :: (vs.flatMap (fun u => ' ' :: (pyReprStr printable u ++ [','])) ++
      ('\n' :: ' ' :: ' ' :: ')' :: r)))
  simp only [List.length_cons, List.length_append] at hlen
  obtain ⟨m, rfl⟩ : ∃ m, n = m + 1 := ⟨n - 1, by omega⟩
  have h2 : litSeqLoop parseStrLit ')' m (vs.flatMap (fun u => ' ' :: (pyReprStr printable u ++ [','])) ++
      '\n' :: ' ' :: ' ' :: ')' :: r) = some (vs, true, r) :=
    litSeqLoop_trailing parseStrLit ')' ws_rparen (pyReprStr printable) [' '] [] ['\n', ' ', ' ']
      (allWs_of_decide _ (by decide)) allWs_nil (allWs_of_decide _ (by decide)) m vs
      (fun u _ => goodHead_reprStr printable ')' (by decide) (by decide) u)
      (fun u _ r _ => parseStrLit_repr printable u (',' :: r)) m r (le_refl _)
      (by
        show (vs.flatMap (fun u => ' ' :: (pyReprStr printable u ++ [','])) ++
          '\n' :: ' ' :: ' ' :: ')' :: r).length ≤ m
        simp only [List.length_cons, List.length_append]
        omega)
  rw [hct, List.cons_append] at hi ⊢
  rw [litSeqLoop_step parseStrLit ')' m c _ _ v hws hcl hi, h2]
  simp [litSeqCons]

/-- a written list of entries is read back -/
theorem parseSeq_list {α : Type} (item : Str → Option (α × Str)) (pr : α → Str) (n : Nat)
    (vs : List α) (r : Str)
    (hpr : ∀ v ∈ vs, GoodHead ']' (pr v))
    (hitem : ∀ v ∈ vs, ∀ r, (pr v ++ ',' :: r).length ≤ n → item (pr v ++ ',' :: r) = some (v, ',' :: r))
    (hlen : (litListText (vs.map pr) ++ r).length ≤ n) :
    parseSeq item n (litListText (vs.map pr) ++ r) = some (vs, r) := by
  unfold litListText at hlen ⊢
  simp only [List.cons_append, List.append_assoc, List.nil_append, List.flatMap_map,
    List.length_cons] at hlen ⊢
  have h2 : litSeqLoop item ']' n ('\n' :: (vs.flatMap (fun a => ' ' :: ' ' :: ' ' :: ' ' ::
      (pr a ++ [',', '\n'])) ++ ' ' :: ' ' :: ']' :: r)) = some (vs, true, r) := by
    refine Eq.trans (litSeqLoop_ws item ']' ['\n'] _ (allWs_of_decide _ (by decide)) n) ?_
    exact litSeqLoop_trailing item ']' ws_rbracket pr [' ', ' ', ' ', ' '] ['\n'] [' ', ' ']
      (allWs_of_decide _ (by decide)) (allWs_of_decide _ (by decide)) (allWs_of_decide _ (by decide))
      n vs hpr hitem n r (le_refl _)
      (by
        show (vs.flatMap (fun a => ' ' :: ' ' :: ' ' :: ' ' :: (pr a ++ [',', '\n'])) ++
          ' ' :: ' ' :: ']' :: r).length ≤ n
        simp only [List.length_append, List.length_cons] at hlen ⊢
        omega)
  simp [parseSeq, h2]

/-! ### read-back of the dict items -/

theorem parseItem_unfold (p : Nat → Bool) (n : Nat) (key val rest : Str) (c : Char) (x : Str)
    (hv : val = c :: x) (hc : litIsWs c = false) :
    parseItem n (pyReprStr p key ++ [':', ' '] ++ val ++ rest) =
      if key == "objects".toList then litMapFst .objects (parseSeq parseStrLit n (val ++ rest))
      else if key == "properties".toList then litMapFst .properties (parseSeq parseStrLit n (val ++ rest))
      else if key == "context".toList then
        litMapFst .context (parseSeq (parseSeq parseNatLit n) n (val ++ rest))
      else if key == "lattice".toList then litMapFst .lattice (parseSeq (parseEntry4 n) n (val ++ rest))
      else none := by
  subst hv
  have h1 : litSkipWs (':' :: ' ' :: c :: (x ++ rest)) = ':' :: ' ' :: c :: (x ++ rest) :=
    litSkipWs_cons_of_not _ (by decide)
  have h2 : litSkipWs (' ' :: c :: (x ++ rest)) = c :: (x ++ rest) := by
    rw [litSkipWs, if_pos (by decide), litSkipWs_cons_of_not _ hc]
  simp only [List.append_assoc, List.cons_append, List.nil_append]
  rw [parseItem, parseStrLit_repr]
  simp only [h1, h2, bne_self_eq_false, Bool.false_eq_true, if_false]

theorem litKeyObjects_eq : litKeyObjects = pyReprStr (fun _ => false) "objects".toList := by decide
theorem litKeyProperties_eq : litKeyProperties = pyReprStr (fun _ => false) "properties".toList := by
  decide
theorem litKeyContext_eq : litKeyContext = pyReprStr (fun _ => false) "context".toList := by decide
theorem litKeyLattice_eq : litKeyLattice = pyReprStr (fun _ => false) "lattice".toList := by decide

/-- the names tuples of an item are not empty -/
def LitItem.Ok : LitItem → Prop
  | .objects v => v ≠ []
  | .properties v => v ≠ []
  | _ => True

theorem parseItem_text (printable : Nat → Bool) (n : Nat) (it : LitItem) (r : Str) (hok : it.Ok)
    (hlen : (litItemText printable it ++ ',' :: r).length ≤ n) :
    parseItem n (litItemText printable it ++ ',' :: r) = some (it, ',' :: r) := by
  cases it with
  | objects v =>
    have hl : (litNamesText printable v ++ ',' :: r).length ≤ n := by
      simp only [litItemText, List.length_append] at hlen ⊢; omega
    rw [litItemText, litKeyObjects_eq, parseItem_unfold _ n _ (litNamesText printable v) _ '(' _ rfl (by decide),
      if_pos (by decide), parseSeq_names printable n v (',' :: r) hok hl]
    rfl
  | properties v =>
    have hl : (litNamesText printable v ++ ',' :: r).length ≤ n := by
      simp only [litItemText, List.length_append] at hlen ⊢; omega
    rw [litItemText, litKeyProperties_eq, parseItem_unfold _ n _ (litNamesText printable v) _ '(' _ rfl (by decide),
      if_neg (by decide), if_pos (by decide), parseSeq_names printable n v (',' :: r) hok hl]
    rfl
  | context v =>
    have hl : (litListText (v.map pyReprIntTuple) ++ ',' :: r).length ≤ n := by
      simp only [litItemText, List.length_append] at hlen ⊢; omega
    rw [litItemText, litKeyContext_eq, parseItem_unfold _ n _ (litListText (v.map pyReprIntTuple)) _ '[' _ rfl (by decide),
      if_neg (by decide), if_neg (by decide), if_pos (by decide),
      parseSeq_list (parseSeq parseNatLit n) pyReprIntTuple n v (',' :: r)
        (fun u _ => goodHead_intTuple ']' (by decide) u)
        (fun u _ r h => parseSeq_intTuple n u (',' :: r) h) hl]
    rfl
  | lattice v =>
    have hl : (litListText (v.map pyReprEntry) ++ ',' :: r).length ≤ n := by
      simp only [litItemText, List.length_append] at hlen ⊢; omega
    rw [litItemText, litKeyLattice_eq, parseItem_unfold _ n _ (litListText (v.map pyReprEntry)) _ '[' _ rfl (by decide),
      if_neg (by decide), if_neg (by decide), if_neg (by decide), if_pos (by decide),
      parseSeq_list (parseEntry4 n) pyReprEntry n v (',' :: r)
        (fun u _ => by
          obtain ⟨t, ht⟩ := pyReprEntry_head u
          rw [ht]
          exact goodHead_lparen ']' (by decide) t)
        (fun u _ r h => parseEntry4_repr n u (',' :: r) h) hl]
    rfl

/-! ### an empty names tuple is written as `(⏎    ,⏎  )`, which is a syntax error -/

theorem litSeqLoop_fail {α : Type} (item : Str → Option (α × Str)) (close : Char) (f : Nat) (s : Str)
    (c : Char) (cs : Str) (hs : litSkipWs s = c :: cs) (hc : c ≠ close) (hi : item (c :: cs) = none) :
    litSeqLoop item close f s = none := by
  cases f with
  | zero => rfl
  | succ f => simp [litSeqLoop, hs, hc, hi]

theorem parseSeq_names_nil (printable : Nat → Bool) (n : Nat) (r : Str) :
    parseSeq parseStrLit n (litNamesText printable [] ++ r) = none := by
  have h : litSeqLoop parseStrLit ')' n ('\n' :: ' ' :: ' ' :: ' ' :: ' ' :: ',' :: '\n' :: ' ' :: ' ' ::
      ')' :: r) = none :=
    litSeqLoop_fail parseStrLit ')' n _ ',' _ rfl (by decide) rfl
  simp only [litNamesText, List.map_nil, joinWith, List.cons_append, List.nil_append,
    parseSeq, beq_self_eq_true, if_true, h]

theorem litItemText_head (printable : Nat → Bool) (it : LitItem) :
    ∃ t, litItemText printable it = '\'' :: t := by
  cases it <;> exact ⟨_, rfl⟩

theorem parseItem_objects_nil (printable : Nat → Bool) (n : Nat) (r : Str) :
    parseItem n (litItemText printable (.objects []) ++ r) = none := by
  rw [litItemText, litKeyObjects_eq, parseItem_unfold _ n _ (litNamesText printable []) _ '(' _ rfl
    (by decide), if_pos (by decide), parseSeq_names_nil]
  rfl

theorem parseItem_properties_nil (printable : Nat → Bool) (n : Nat) (r : Str) :
    parseItem n (litItemText printable (.properties []) ++ r) = none := by
  rw [litItemText, litKeyProperties_eq, parseItem_unfold _ n _ (litNamesText printable []) _ '(' _ rfl
    (by decide), if_neg (by decide), if_pos (by decide), parseSeq_names_nil]
  rfl

theorem litSeqLoop_first_fail {α : Type} (item : Str → Option (α × Str)) (n : Nat) (txt x t : Str)
    (ht : txt = '\'' :: t) (hi : ∀ r, item (txt ++ r) = none) :
    litSeqLoop item '}' n ('\n' :: ' ' :: ' ' :: (txt ++ x)) = none := by
  subst ht
  exact litSeqLoop_fail item '}' n _ '\'' (t ++ x) rfl (by decide) (hi x)

theorem litSeqLoop_second_fail {α : Type} (item : Str → Option (α × Str)) (n : Nat) (v : α)
    (txt1 txt2 x t1 t2 : Str) (ht1 : txt1 = '\'' :: t1) (ht2 : txt2 = '\'' :: t2)
    (h1 : ∀ r, (txt1 ++ ',' :: r).length ≤ n → item (txt1 ++ ',' :: r) = some (v, ',' :: r))
    (h2 : ∀ r, item (txt2 ++ r) = none)
    (hlen : (txt1 ++ ',' :: '\n' :: ' ' :: ' ' :: (txt2 ++ x)).length ≤ n) :
    litSeqLoop item '}' n ('\n' :: ' ' :: ' ' :: (txt1 ++ ',' :: '\n' :: ' ' :: ' ' :: (txt2 ++ x))) =
      none := by
  cases n with
  | zero => rfl
  | succ m =>
    have h1' := h1 _ hlen
    subst ht1
    rw [List.cons_append] at h1'
    rw [show ∀ y : Str, '\n' :: ' ' :: ' ' :: y = ['\n', ' ', ' '] ++ y from fun _ => rfl,
      litSeqLoop_ws item '}' _ _ (allWs_of_decide _ (by decide)), List.cons_append,
      litSeqLoop_step item '}' m '\'' _ _ v (by decide) (by decide) h1',
      litSeqLoop_first_fail item m txt2 x t2 ht2 h2]
    rfl

end FCA
