"""C02 - concept lookup returns the least formal concept containing the query."""
from core import guard
from props import lat
import gen


def run(run):
    run.rule = ('contexts as C01 (lattices up to a size cap); per context all non-empty subsets of objects / properties '
                '(<=6 members) or a sample; observables: context[items], lattice[items], lattice(properties), lattice[i], '
                'lattice[()]; a case = (context, query); non-trivial = context not 1x1 and not constant')
    d = run.driver
    for tab, pc in lat.contexts(run, exh_quick=8, rand_quick=250, wide_quick=30, exh_thorough=12, nmax=8, mmax=8):
        ctx = pc.ctx
        nt = gen.nontrivial(tab)
        small = min(pc.n, pc.m) <= 9 and max(pc.n, pc.m) <= 70
        with guard(run, 'Context.lattice', [pc.line, 'lattice']):
            L = ctx.lattice if small else None
            concepts = list(L) if small else []
        ids = {id(c) for c in concepts}
        reqs, cases = [], []
        for A in lat.subsets(run, pc.n, sample=12):
            if A == 0:
                continue
            items = lat.noisy_args(run, pc.olabels(A))
            r = 'dpo %d' % A
            with guard(run, 'context[%r]' % (items,), [pc.line, r]):
                arg = lat.as_iterable(run, items)
                e, i = ctx[arg]
                got = '%d %d' % (pc.omask(e), pc.pmask(i))
                if small:
                    c = L[tuple(items)]
                    if id(c) not in ids:
                        run.fail('lattice[%r] is not a member of the lattice' % (items,), repr(c), None, [pc.line, r])
                    got2 = '%d %d' % (pc.omask(c.extent), pc.pmask(c.intent))
                else:
                    got2 = got
            reqs.append(r)
            cases.append(('context[%r]' % (items,), got, got2))
        for B in lat.subsets(run, pc.m, sample=12):
            items = lat.noisy_args(run, pc.plabels(B))
            r = 'dpp %d' % B
            with guard(run, 'context[%r] / lattice(%r)' % (items, items), [pc.line, r]):
                if B:
                    arg = lat.as_iterable(run, items)
                    e, i = ctx[arg]
                    got = '%d %d' % (pc.omask(e), pc.pmask(i))
                else:
                    got = None
                if small:
                    c = L(items)
                    if id(c) not in ids:
                        run.fail('lattice(%r) is not a member of the lattice' % (items,), repr(c), None, [pc.line, r])
                    got2 = '%d %d' % (pc.omask(c.extent), pc.pmask(c.intent))
                    if B:
                        c2 = L[tuple(items)]
                        if c2 is not c:
                            run.fail('lattice[%r] and lattice(%r) differ' % (items, items), repr(c2), repr(c), [pc.line, r])
                    if got is None:
                        got = got2
                else:
                    if got is None:
                        continue
                    got2 = got
            reqs.append(r)
            cases.append(('properties %r' % (items,), got, got2))
        answers = d.ask_many(reqs)
        for (what, got, got2), req, ans in zip(cases, reqs, answers):
            run.case('%s|%s' % (pc.line, req), nt, {'context': pc.line, 'query': what, 'closure (extent intent)': got})
            if got != ans:
                run.fail(what + ' (context lookup)', got, ans, [pc.line, req], {'objects': pc.objects, 'properties': pc.properties})
            if got2 != ans:
                run.fail(what + ' (lattice lookup)', got2, ans, [pc.line, req], {'objects': pc.objects, 'properties': pc.properties})
        # label dispatch: objects first, properties on KeyError, anything else KeyError
        osn, psn = ','.join(pc.objects), ','.join(pc.properties)
        mixes = []
        for _ in range(4):
            k = run.rng.randrange(4)
            if k == 0:
                items = [run.rng.choice(pc.objects), run.rng.choice(pc.properties)]
            elif k == 1:
                items = [run.rng.choice(pc.objects), 'nosuch']
            elif k == 2:
                items = ['nosuch']
            else:
                items = run.rng.sample(pc.properties, run.rng.randint(1, pc.m))
            run.rng.shuffle(items)
            mixes.append(items)
        for items in mixes:
            r = 'getitem %s %s %s' % (osn, psn, ','.join(items))
            ans = d.ask(r)
            with guard(run, 'context[%r]' % (items,), [pc.line, r], ans):
                try:
                    e, i = ctx[items]
                    got = '%d %d' % (pc.omask(e), pc.pmask(i))
                except KeyError:
                    got = 'KeyError'
            run.case(pc.line + '|' + r, nt)
            if got != ans:
                run.fail('context[%r] (label dispatch)' % (items,), got, ans, [pc.line, r], {'objects': pc.objects, 'properties': pc.properties})
            if small:
                r2 = 'lgetitem %s %s %s' % (osn, psn, ','.join(items))
                ans2 = d.ask(r2)
                with guard(run, 'lattice[%r]' % (items,), [pc.line, r2], ans2):
                    try:
                        c = L[tuple(items)]
                        got2 = str(next((k for k, x in enumerate(concepts) if x is c), 'not-a-member'))
                    except KeyError:
                        got2 = 'KeyError'
                if got2 != ans2:
                    run.fail('lattice[%r] (label dispatch)' % (items,), got2, ans2, [pc.line, r2], {'objects': pc.objects, 'properties': pc.properties})
        if small:
            with guard(run, 'lattice[i] / lattice[()]', [pc.line]):
                for k, c in enumerate(concepts):
                    if L[k] is not c:
                        run.fail('lattice[%d] is not the %d-th member in iteration order' % (k, k), repr(L[k]), repr(c), [pc.line])
                top = L[()]
                if id(top) not in ids or pc.omask(top.extent) != (1 << pc.n) - 1:
                    run.fail('lattice[()] is not the top concept', repr(top), None, [pc.line])
                run.case(pc.line + '|index', nt)
        if pc.n >= 3 and pc.m >= 3 and pc.n * pc.m <= 16 and not getattr(pc, 'reloaded', False):
            # a str key is an iterable of one-character labels, also when their concatenation is a label itself
            import concepts
            with guard(run, 'context[str] with one-character labels', [pc.line]):
                o1 = ['a', 'b', 'ab'] + ['x%d' % i for i in range(pc.n - 3)]
                p1 = ['p', 'q', 'pq'] + ['y%d' % j for j in range(pc.m - 3)]
                c1 = concepts.Context(o1, p1, pc.bools)
                if c1['ab'] != c1[('a', 'b')] or c1['pq'] != c1[('p', 'q')] or c1['ba'] != c1[('a', 'b')]:
                    run.fail("context['ab'] is not context[('a', 'b')]", [c1['ab'], c1['pq']], [c1[('a', 'b')], c1[('p', 'q')]], [pc.line],
                             {'objects': o1, 'properties': p1})
                if c1[('ab',)] != c1[['ab']] or c1.lattice['ab'] is not c1.lattice[('a', 'b')]:
                    run.fail("lattice['ab'] is not lattice[('a', 'b')]", None, None, [pc.line], {'objects': o1, 'properties': p1})
            run.count('str keys')
        run.count('contexts')
