import FCA.Proofs.Iterunion
/-
Helpers for C09, lattice part: reachability along `upper_neighbors` / `lower_neighbors` in a lattice
satisfying `LatticeSpec` is the order of the extents; the hypotheses of `iterunion` hold for
(`index`, `upper_neighbors`) and (`dindex`, `lower_neighbors`); characterisation of
`upsetUnion` / `downsetUnion`.
-/
namespace FCA.C09
open FCA LatSpecAux

variable {K : Ctx} {L : Lattice}

/-! ### accessors -/

theorem get_of_lt {k : Nat} (h : k < L.length) : L[k]? = some L[k] := List.getElem?_eq_getElem h

theorem upperAt_get {k : Nat} {c : LConcept} (h : L[k]? = some c) : L.upperAt k = c.upper := by
  unfold Lattice.upperAt; rw [h]; rfl
theorem lowerAt_get {k : Nat} {c : LConcept} (h : L[k]? = some c) : L.lowerAt k = c.lower := by
  unfold Lattice.lowerAt; rw [h]; rfl
theorem dindexAt_get {k : Nat} {c : LConcept} (h : L[k]? = some c) : L.dindexAt k = c.dindex := by
  unfold Lattice.dindexAt; rw [h]; rfl
theorem extentAt_get {k : Nat} {c : LConcept} (h : L[k]? = some c) : L.extentAt k = c.extent := by
  unfold Lattice.extentAt; rw [h]; rfl

/-! ### the comparisons handed to `tools.maximal` -/

/-- `Concept.properly_subsumes` on positions: the extent of `x` properly contains that of `y` -/
def properlySubsumes (L : Lattice) (x y : Nat) : Bool :=
  (L.extentAt x ||| L.extentAt y == L.extentAt x) && (L.extentAt x != L.extentAt y)

/-- `Concept.properly_implies` on positions: the extent of `x` is properly contained in that of `y` -/
def properlyImplies (L : Lattice) (x y : Nat) : Bool :=
  (L.extentAt x &&& L.extentAt y == L.extentAt x) && (L.extentAt x != L.extentAt y)

theorem upsetUnion_eq (L : Lattice) (cs : List Nat) :
    upsetUnion L cs = iterunion id L.upperAt (L.travFuel (maximalBy (properlySubsumes L) cs))
      (maximalBy (properlySubsumes L) cs) := rfl

theorem downsetUnion_eq (L : Lattice) (cs : List Nat) :
    downsetUnion L cs = iterunion L.dindexAt L.lowerAt (L.travFuel (maximalBy (properlyImplies L) cs))
      (maximalBy (properlyImplies L) cs) := rfl

theorem properlySubsumes_iff (L : Lattice) (x y : Nat) :
    properlySubsumes L x y = true ↔ L.extentAt y ⊆ᵇ L.extentAt x ∧ L.extentAt y ≠ L.extentAt x := by
  unfold properlySubsumes
  rw [Bool.and_eq_true, beq_iff_eq, bne_iff_ne, FCA.or_eq_left_iff]
  exact ⟨fun ⟨a, b⟩ => ⟨a, fun e => b e.symm⟩, fun ⟨a, b⟩ => ⟨a, fun e => b e.symm⟩⟩

theorem properlyImplies_iff (L : Lattice) (x y : Nat) :
    properlyImplies L x y = true ↔ L.extentAt x ⊆ᵇ L.extentAt y ∧ L.extentAt x ≠ L.extentAt y := by
  unfold properlyImplies
  rw [Bool.and_eq_true, beq_iff_eq, bne_iff_ne, FCA.and_eq_left_iff]

theorem properlySubsumes_irrefl (L : Lattice) (x : Nat) : properlySubsumes L x x = false := by
  rw [← Bool.not_eq_true, properlySubsumes_iff]; simp

theorem properlyImplies_irrefl (L : Lattice) (x : Nat) : properlyImplies L x x = false := by
  rw [← Bool.not_eq_true, properlyImplies_iff]; simp

theorem properlySubsumes_trans (L : Lattice) {x y z : Nat} (h1 : properlySubsumes L x y = true)
    (h2 : properlySubsumes L y z = true) : properlySubsumes L x z = true := by
  rw [properlySubsumes_iff] at *
  refine ⟨sub_trans h2.1 h1.1, fun e => ?_⟩
  rw [e] at h2
  exact h2.2 (sub_antisymm h2.1 h1.1)

theorem properlyImplies_trans (L : Lattice) {x y z : Nat} (h1 : properlyImplies L x y = true)
    (h2 : properlyImplies L y z = true) : properlyImplies L x z = true := by
  rw [properlyImplies_iff] at *
  refine ⟨sub_trans h1.1 h2.1, fun e => ?_⟩
  rw [e] at h1
  exact h2.2 (sub_antisymm h2.1 h1.1)

/-- the minimal seeds: members -/
theorem mem_minSeeds (L : Lattice) (cs : List Nat) (x : Nat) :
    x ∈ maximalBy (properlySubsumes L) cs ↔
      x ∈ cs ∧ ∀ y ∈ cs, ¬ (L.extentAt y ⊆ᵇ L.extentAt x ∧ L.extentAt y ≠ L.extentAt x) := by
  rw [mem_maximalBy]
  constructor
  · rintro ⟨hx, h⟩
    refine ⟨hx, fun y hy => ?_⟩
    rw [← properlySubsumes_iff, Bool.not_eq_true]
    by_cases hyx : y = x
    · rw [hyx]; exact properlySubsumes_irrefl L x
    · exact h y hy hyx
  · rintro ⟨hx, h⟩
    refine ⟨hx, fun y hy _ => ?_⟩
    rw [← Bool.not_eq_true, properlySubsumes_iff]
    exact h y hy

/-- the maximal seeds: members -/
theorem mem_maxSeeds (L : Lattice) (cs : List Nat) (x : Nat) :
    x ∈ maximalBy (properlyImplies L) cs ↔
      x ∈ cs ∧ ∀ y ∈ cs, ¬ (L.extentAt x ⊆ᵇ L.extentAt y ∧ L.extentAt x ≠ L.extentAt y) := by
  rw [mem_maximalBy]
  constructor
  · rintro ⟨hx, h⟩
    refine ⟨hx, fun y hy => ?_⟩
    rw [← properlyImplies_iff, Bool.not_eq_true]
    by_cases hyx : y = x
    · rw [hyx]; exact properlyImplies_irrefl L x
    · exact h y hy hyx
  · rintro ⟨hx, h⟩
    refine ⟨hx, fun y hy _ => ?_⟩
    rw [← Bool.not_eq_true, properlyImplies_iff]
    exact h y hy

/-- every given concept lies above one of the minimal seeds -/
theorem minSeeds_below (L : Lattice) (cs : List Nat) :
    ∀ c ∈ cs, ∃ m ∈ maximalBy (properlySubsumes L) cs, L.extentAt m ⊆ᵇ L.extentAt c := by
  intro c hc
  obtain ⟨m, hm, h⟩ := maximalBy_dominates (properlySubsumes L)
    (fun x _ => properlySubsumes_irrefl L x)
    (fun x _ y _ z _ h1 h2 => properlySubsumes_trans L h1 h2) c hc
  refine ⟨m, hm, ?_⟩
  rcases h with rfl | h
  · exact sub_refl _
  · exact ((properlySubsumes_iff L c m).mp h).1

/-- every given concept lies below one of the maximal seeds -/
theorem maxSeeds_above (L : Lattice) (cs : List Nat) :
    ∀ c ∈ cs, ∃ m ∈ maximalBy (properlyImplies L) cs, L.extentAt c ⊆ᵇ L.extentAt m := by
  intro c hc
  obtain ⟨m, hm, h⟩ := maximalBy_dominates (properlyImplies L)
    (fun x _ => properlyImplies_irrefl L x)
    (fun x _ y _ z _ h1 h2 => properlyImplies_trans L h1 h2) c hc
  refine ⟨m, hm, ?_⟩
  rcases h with rfl | h
  · exact sub_refl _
  · exact ((properlyImplies_iff L c m).mp h).1

theorem minSeeds_union (L : Lattice) (cs : List Nat) (e : Nat) :
    (∃ m ∈ maximalBy (properlySubsumes L) cs, L.extentAt m ⊆ᵇ e) ↔ ∃ c ∈ cs, L.extentAt c ⊆ᵇ e := by
  constructor
  · rintro ⟨m, hm, h⟩; exact ⟨m, maximalBy_sub _ hm, h⟩
  · rintro ⟨c, hc, h⟩
    obtain ⟨m, hm, hmc⟩ := minSeeds_below L cs c hc
    exact ⟨m, hm, sub_trans hmc h⟩

theorem maxSeeds_union (L : Lattice) (cs : List Nat) (e : Nat) :
    (∃ m ∈ maximalBy (properlyImplies L) cs, e ⊆ᵇ L.extentAt m) ↔ ∃ c ∈ cs, e ⊆ᵇ L.extentAt c := by
  constructor
  · rintro ⟨m, hm, h⟩; exact ⟨m, maximalBy_sub _ hm, h⟩
  · rintro ⟨c, hc, h⟩
    obtain ⟨m, hm, hmc⟩ := maxSeeds_above L cs c hc
    exact ⟨m, hm, sub_trans h hmc⟩

/-! ### reachability along the neighbor links -/

theorem reach_upper_sound (S : LatticeSpec K L) {c d : Nat} (hr : Reach L.upperAt c d) :
    ∀ {cc : LConcept}, L[c]? = some cc → ∃ dd, L[d]? = some dd ∧ cc.extent ⊆ᵇ dd.extent := by
  induction hr with
  | refl a => intro cc hcc; exact ⟨cc, hcc, sub_refl _⟩
  | step hd _ ih =>
    intro cc hcc
    rw [upperAt_get hcc] at hd
    obtain ⟨dd, hdd, hcv⟩ := S.upper_get hcc hd
    obtain ⟨xx, hxx, hs⟩ := ih hdd
    exact ⟨xx, hxx, sub_trans hcv.2.1 hs⟩

theorem reach_lower_sound (S : LatticeSpec K L) {c d : Nat} (hr : Reach L.lowerAt c d) :
    ∀ {cc : LConcept}, L[c]? = some cc → ∃ dd, L[d]? = some dd ∧ dd.extent ⊆ᵇ cc.extent := by
  induction hr with
  | refl a => intro cc hcc; exact ⟨cc, hcc, sub_refl _⟩
  | step hd _ ih =>
    intro cc hcc
    rw [lowerAt_get hcc] at hd
    obtain ⟨dd, hdd, hcv⟩ := S.lower_get hcc hd
    obtain ⟨xx, hxx, hs⟩ := ih hdd
    exact ⟨xx, hxx, sub_trans hs hcv.2.1⟩

theorem reach_upper_complete_aux (S : LatticeSpec K L) {c : Nat} {cc : LConcept} (hc : L[c]? = some cc)
    {G x : Nat} (hr : LindigAbs.Reach (nbExt K) G x) :
    G = cc.extent → ∃ j dd, L[j]? = some dd ∧ dd.extent = x ∧ Reach L.upperAt c j := by
  induction hr with
  | refl => intro h; exact ⟨c, cc, hc, h.symm, Reach.refl _⟩
  | step _ hx ih =>
    intro h
    obtain ⟨i, dd, hdd, rfl, hri⟩ := ih h
    have hcv := (mem_nbExt S.wf (S.closed hdd) _).mp hx
    obtain ⟨j, hj⟩ := List.getElem?_of_mem ((S.mem _).mpr hcv.1)
    obtain ⟨xx, hxx, hxe⟩ := S.get_of_extent hj
    have hju : j ∈ dd.upper := (S.mem_upper hdd j).mpr ⟨_, hj, hcv⟩
    exact ⟨j, xx, hxx, hxe, Reach.snoc hri (by rw [upperAt_get hdd]; exact hju)⟩

/-- a chain of upper covers leads from `c` exactly to the concepts above `c` -/
theorem reach_upper_iff (S : LatticeSpec K L) {c : Nat} {cc : LConcept} (hc : L[c]? = some cc) (d : Nat) :
    Reach L.upperAt c d ↔ ∃ dd, L[d]? = some dd ∧ cc.extent ⊆ᵇ dd.extent := by
  constructor
  · exact fun hr => reach_upper_sound S hr hc
  · rintro ⟨dd, hdd, hs⟩
    have hr := closed_reach_from S.wf (S.closed hc) dd.extent dd.extent rfl (S.closed hdd) hs
    obtain ⟨j, dd', hj, he, hrj⟩ := reach_upper_complete_aux S hc hr rfl
    have : j = d := S.pos_inj hj hdd he
    rwa [this] at hrj

theorem reach_lower_of_upper (S : LatticeSpec K L) {d c : Nat} (hr : Reach L.upperAt d c) :
    ∀ {dd : LConcept}, L[d]? = some dd → Reach L.lowerAt c d := by
  induction hr with
  | refl a => intro _ _; exact Reach.refl _
  | step hj _ ih =>
    intro aa haa
    rw [upperAt_get haa] at hj
    obtain ⟨jj, hjj, _⟩ := S.upper_get haa hj
    have h1 := ih hjj
    have h2 := (S.mem_upper_iff_mem_lower haa hjj).mp hj
    exact Reach.snoc h1 (by rw [lowerAt_get hjj]; exact h2)

/-- a chain of lower covers leads from `c` exactly to the concepts below `c` -/
theorem reach_lower_iff (S : LatticeSpec K L) {c : Nat} {cc : LConcept} (hc : L[c]? = some cc) (d : Nat) :
    Reach L.lowerAt c d ↔ ∃ dd, L[d]? = some dd ∧ dd.extent ⊆ᵇ cc.extent := by
  constructor
  · exact fun hr => reach_lower_sound S hr hc
  · rintro ⟨dd, hdd, hs⟩
    exact reach_lower_of_upper S ((reach_upper_iff S hdd c).mpr ⟨cc, hc, hs⟩) hdd

/-! ### the hypotheses of `iterunion` -/

theorem R_upper_valid (S : LatticeSpec K L) {seeds : List Nat} (hv : ∀ s ∈ seeds, s < L.length) {x : Nat}
    (hx : R L.upperAt seeds x) : ∃ xx, L[x]? = some xx := by
  obtain ⟨s, hs, hr⟩ := hx
  obtain ⟨xx, hxx, _⟩ := reach_upper_sound S hr (get_of_lt (hv s hs))
  exact ⟨xx, hxx⟩

theorem R_lower_valid (S : LatticeSpec K L) {seeds : List Nat} (hv : ∀ s ∈ seeds, s < L.length) {x : Nat}
    (hx : R L.lowerAt seeds x) : ∃ xx, L[x]? = some xx := by
  obtain ⟨s, hs, hr⟩ := hx
  obtain ⟨xx, hxx, _⟩ := reach_lower_sound S hr (get_of_lt (hv s hs))
  exact ⟨xx, hxx⟩

theorem hyp_upper (S : LatticeSpec K L) {seeds : List Nat} (hv : ∀ s ∈ seeds, s < L.length) :
    Hyp id L.upperAt seeds L.length L.length where
  inj := fun _ _ _ _ h => h
  mono := fun x hx d hd => by
    obtain ⟨xx, hxx⟩ := R_upper_valid S hv hx
    rw [upperAt_get hxx] at hd
    exact (S.upper_gt hxx hd).1
  bound := fun x hx => by
    obtain ⟨xx, hxx⟩ := R_upper_valid S hv hx
    exact S.lt_length hxx
  deg := fun x hx => by
    obtain ⟨xx, hxx⟩ := R_upper_valid S hv hx
    rw [upperAt_get hxx]
    exact LindigAbs.length_le_of_nodup_bound _ (S.upper_nodup hxx) (fun j hj => (S.upper_gt hxx hj).2)

theorem hyp_lower (S : LatticeSpec K L) {seeds : List Nat} (hv : ∀ s ∈ seeds, s < L.length) :
    Hyp L.dindexAt L.lowerAt seeds L.length L.length where
  inj := fun x y hx hy h => by
    obtain ⟨xx, hxx⟩ := R_lower_valid S hv hx
    obtain ⟨yy, hyy⟩ := R_lower_valid S hv hy
    rw [dindexAt_get hxx, dindexAt_get hyy] at h
    exact S.dindex_inj hxx hyy h
  mono := fun x hx d hd => by
    obtain ⟨xx, hxx⟩ := R_lower_valid S hv hx
    rw [lowerAt_get hxx] at hd
    obtain ⟨dd, hdd, hcv⟩ := S.lower_get hxx hd
    rw [dindexAt_get hxx, dindexAt_get hdd]
    exact S.dindex_lt_of_ssub hdd hxx hcv.2.1 hcv.2.2.1
  bound := fun x hx => by
    obtain ⟨xx, hxx⟩ := R_lower_valid S hv hx
    rw [dindexAt_get hxx]
    exact S.dindex_lt hxx
  deg := fun x hx => by
    obtain ⟨xx, hxx⟩ := R_lower_valid S hv hx
    rw [lowerAt_get hxx]
    exact LindigAbs.length_le_of_nodup_bound _ (S.lower_nodup hxx)
      (fun j hj => lt_trans (S.lower_lt hxx hj) (S.lt_length hxx))

theorem travFuel_ok (L : Lattice) (seeds : List Nat) : seeds.length + L.length * L.length < L.travFuel seeds := by
  unfold Lattice.travFuel; omega

/-! ### the traversals -/

theorem upsetUnion_spec (S : LatticeSpec K L) {cs : List Nat} (hv : ∀ c ∈ cs, c < L.length) :
    (upsetUnion L cs).Pairwise (· < ·) ∧
    ∀ d, d ∈ upsetUnion L cs ↔ d < L.length ∧ ∃ c ∈ cs, L.extentAt c ⊆ᵇ L.extentAt d := by
  have hv' : ∀ s ∈ maximalBy (properlySubsumes L) cs, s < L.length := fun s hs => hv s (maximalBy_sub _ hs)
  obtain ⟨h1, h2⟩ := iterunion_correct id L.upperAt _ (hyp_upper S hv') _ (travFuel_ok L _)
  rw [upsetUnion_eq]
  refine ⟨h1, fun d => ?_⟩
  rw [h2, ← minSeeds_union]
  constructor
  · rintro ⟨s, hs, hr⟩
    have hss := get_of_lt (hv' s hs)
    obtain ⟨dd, hdd, hsub⟩ := (reach_upper_iff S hss d).mp hr
    exact ⟨S.lt_length hdd, s, hs, by rw [extentAt_get hss, extentAt_get hdd]; exact hsub⟩
  · rintro ⟨hd, s, hs, hsub⟩
    have hss := get_of_lt (hv' s hs)
    have hdd := get_of_lt hd
    rw [extentAt_get hss, extentAt_get hdd] at hsub
    exact ⟨s, hs, (reach_upper_iff S hss d).mpr ⟨_, hdd, hsub⟩⟩

theorem downsetUnion_spec (S : LatticeSpec K L) {cs : List Nat} (hv : ∀ c ∈ cs, c < L.length) :
    (downsetUnion L cs).Pairwise (fun a b => L.dindexAt a < L.dindexAt b) ∧
    ∀ d, d ∈ downsetUnion L cs ↔ d < L.length ∧ ∃ c ∈ cs, L.extentAt d ⊆ᵇ L.extentAt c := by
  have hv' : ∀ s ∈ maximalBy (properlyImplies L) cs, s < L.length := fun s hs => hv s (maximalBy_sub _ hs)
  obtain ⟨h1, h2⟩ := iterunion_correct L.dindexAt L.lowerAt _ (hyp_lower S hv') _ (travFuel_ok L _)
  rw [downsetUnion_eq]
  refine ⟨h1, fun d => ?_⟩
  rw [h2, ← maxSeeds_union]
  constructor
  · rintro ⟨s, hs, hr⟩
    have hss := get_of_lt (hv' s hs)
    obtain ⟨dd, hdd, hsub⟩ := (reach_lower_iff S hss d).mp hr
    exact ⟨S.lt_length hdd, s, hs, by rw [extentAt_get hss, extentAt_get hdd]; exact hsub⟩
  · rintro ⟨hd, s, hs, hsub⟩
    have hss := get_of_lt (hv' s hs)
    have hdd := get_of_lt hd
    rw [extentAt_get hss, extentAt_get hdd] at hsub
    exact ⟨s, hs, (reach_lower_iff S hss d).mpr ⟨_, hdd, hsub⟩⟩

end FCA.C09
