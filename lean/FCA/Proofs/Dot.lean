import FCA.Proofs.Labels
import FCA.Model.Misc
/-
`visualize.lattice` of the model (`dotItems`): the statements emitted for one concept (`block`), membership,
distinctness and counting lemmas.  Everything lives in `FCA.C20`.
-/
namespace FCA.C20

theorem list_beq_iff (a b : List Nat) : a.beq b = true ↔ a = b := beq_iff_eq (a := a) (b := b)

/-- the derived `==` of `DotItem` is equality -/
instance : LawfulBEq DotItem where
  eq_of_beq {a b} h := by
    cases a <;> cases b <;> first
      | (simp only [BEq.beq] at h; done)
      | (simp only [BEq.beq, instBEqDotItem.beq, Bool.and_eq_true, list_beq_iff, decide_eq_true_eq] at h; grind)
  rfl {a} := by
    cases a <;> simp [BEq.beq, instBEqDotItem.beq, list_beq_iff]

/-- the statements `visualize.lattice` emits for one concept -/
def block (c : LConcept) : List DotItem :=
  [DotItem.node c.index] ++
  (if c.objects.isEmpty then [] else [DotItem.objectLabel c.index c.objects]) ++
  (if c.properties.isEmpty then [] else [DotItem.propertyLabel c.index c.properties]) ++
  (sortBy id c.lower).map (DotItem.edge c.index)

theorem dotItems_eq (L : Lattice) : dotItems L = L.flatMap block := rfl

/-- the node a statement is attached to (tail node of an edge) -/
def src : DotItem → Nat
  | .node k => k
  | .objectLabel k _ => k
  | .propertyLabel k _ => k
  | .edge k _ => k

/-- the (tail, head) pair of a proper edge statement -/
def edgeOf : DotItem → Option (Nat × Nat)
  | .edge k j => some (k, j)
  | .node _ => none
  | .objectLabel _ _ => none
  | .propertyLabel _ _ => none

def isEdge : DotItem → Bool
  | .edge _ _ => true
  | .node _ => false
  | .objectLabel _ _ => false
  | .propertyLabel _ _ => false

def isNode : DotItem → Bool
  | .node _ => true
  | .edge _ _ => false
  | .objectLabel _ _ => false
  | .propertyLabel _ _ => false

/-! ### one block -/

theorem mem_block_node {c : LConcept} {k : Nat} : DotItem.node k ∈ block c ↔ k = c.index := by
  unfold block
  by_cases h1 : c.objects.isEmpty <;> by_cases h2 : c.properties.isEmpty <;> simp [h1, h2]

theorem mem_block_edge {c : LConcept} {k j : Nat} : DotItem.edge k j ∈ block c ↔ k = c.index ∧ j ∈ c.lower := by
  unfold block
  by_cases h1 : c.objects.isEmpty <;> by_cases h2 : c.properties.isEmpty <;>
    simp [h1, h2, mem_sortBy] <;> tauto

theorem mem_block_olabel {c : LConcept} {k : Nat} {os : List Nat} :
    DotItem.objectLabel k os ∈ block c ↔ k = c.index ∧ c.objects ≠ [] ∧ os = c.objects := by
  unfold block
  by_cases h1 : c.objects.isEmpty <;> by_cases h2 : c.properties.isEmpty <;>
    simp [h1, h2] <;> simp_all [List.isEmpty_iff]

theorem mem_block_plabel {c : LConcept} {k : Nat} {ps : List Nat} :
    DotItem.propertyLabel k ps ∈ block c ↔ k = c.index ∧ c.properties ≠ [] ∧ ps = c.properties := by
  unfold block
  by_cases h1 : c.objects.isEmpty <;> by_cases h2 : c.properties.isEmpty <;>
    simp [h1, h2] <;> simp_all [List.isEmpty_iff]

theorem src_of_mem_block {c : LConcept} {x : DotItem} (h : x ∈ block c) : src x = c.index := by
  cases x with
  | node k => exact mem_block_node.mp h
  | objectLabel k os => exact (mem_block_olabel.mp h).1
  | propertyLabel k ps => exact (mem_block_plabel.mp h).1
  | edge k j => exact (mem_block_edge.mp h).1

theorem block_nodup {c : LConcept} (h : c.lower.Nodup) : (block c).Nodup := by
  have he : ((sortBy id c.lower).map (DotItem.edge c.index)).Nodup :=
    (sortBy_nodup id h).map (fun a b hab => by injection hab)
  unfold block
  by_cases h1 : c.objects.isEmpty <;> by_cases h2 : c.properties.isEmpty <;>
    simp [h1, h2, he]

theorem edgePairs_block (c : LConcept) :
    (block c).filterMap edgeOf = (sortBy id c.lower).map (fun j => (c.index, j)) := by
  unfold block
  by_cases h1 : c.objects.isEmpty <;> by_cases h2 : c.properties.isEmpty <;>
    simp [h1, h2, List.filterMap_cons, List.filterMap_map, edgeOf, Function.comp_def]

theorem length_filterMap_edgeOf (l : List DotItem) : (l.filterMap edgeOf).length = l.countP isEdge := by
  induction l with
  | nil => rfl
  | cons a l ih => cases a <;> simp [List.filterMap_cons, List.countP_cons, edgeOf, isEdge, ih]

theorem countP_isEdge_block (c : LConcept) : (block c).countP isEdge = c.lower.length := by
  rw [← length_filterMap_edgeOf, edgePairs_block, List.length_map, (sortBy_perm id c.lower).length_eq]

theorem countP_isNode_block (c : LConcept) : (block c).countP isNode = 1 := by
  unfold block
  have : ((sortBy id c.lower).map (DotItem.edge c.index)).countP isNode = 0 := by
    rw [List.countP_eq_zero]
    intro x hx
    obtain ⟨j, _, rfl⟩ := List.mem_map.mp hx
    simp [isNode]
  by_cases h1 : c.objects.isEmpty <;> by_cases h2 : c.properties.isEmpty <;>
    simp [h1, h2, List.countP_cons, isNode, this]

theorem mem_edgePairs {l : List DotItem} {k j : Nat} : (k, j) ∈ l.filterMap edgeOf ↔ DotItem.edge k j ∈ l := by
  rw [List.mem_filterMap]
  constructor
  · rintro ⟨x, hx, he⟩
    cases x <;> simp [edgeOf] at he
    obtain ⟨rfl, rfl⟩ := he
    exact hx
  · intro h; exact ⟨_, h, rfl⟩

theorem edgePairs_nodup {l : List DotItem} (h : l.Nodup) : (l.filterMap edgeOf).Nodup := by
  refine List.Nodup.filterMap ?_ h
  intro a a' b hb hb'
  cases a <;> cases a' <;> simp [edgeOf] at hb hb'
  obtain ⟨rfl, rfl⟩ := hb
  obtain ⟨rfl, rfl⟩ := hb'
  rfl

/-! ### the whole list -/

theorem mem_dot {L : Lattice} {x : DotItem} : x ∈ dotItems L ↔ ∃ (k : Nat) (c : LConcept), L[k]? = some c ∧ x ∈ block c := by
  rw [dotItems_eq, List.mem_flatMap]
  constructor
  · rintro ⟨c, hc, hx⟩
    obtain ⟨k, hk⟩ := C10.mem_iff_get.mp hc
    exact ⟨k, c, hk, hx⟩
  · rintro ⟨k, c, hk, hx⟩
    exact ⟨c, List.mem_of_getElem? hk, hx⟩

theorem flatMap_block_nodup {L : Lattice} (h1 : ∀ c ∈ L, c.lower.Nodup)
    (h2 : L.Pairwise (fun c d => c.index ≠ d.index)) : (L.flatMap block).Nodup := by
  rw [List.nodup_flatMap]
  refine ⟨fun c hc => block_nodup (h1 c hc), h2.imp ?_⟩
  intro c d hne
  show List.Disjoint (block c) (block d)
  intro x hx hy
  exact hne ((src_of_mem_block hx).symm.trans (src_of_mem_block hy))

theorem countP_flatMap_block (p : DotItem → Bool) (L : Lattice) :
    (L.flatMap block).countP p = (L.map (fun c => (block c).countP p)).sum := by
  rw [List.countP_flatMap]
  rfl

theorem count_eq_one {l : List DotItem} (hnd : l.Nodup) {x : DotItem} (hx : x ∈ l) : l.count x = 1 :=
  List.count_eq_one_of_mem hnd hx

section spec
variable {K : Ctx} {L : Lattice}

theorem dot_nodup (S : LatticeSpec K L) : (dotItems L).Nodup := by
  rw [dotItems_eq]
  apply flatMap_block_nodup
  · intro c hc
    obtain ⟨k, hk⟩ := C10.mem_iff_get.mp hc
    exact S.lower_nodup hk
  · exact C10.index_pairwise_ne S

theorem mem_node (S : LatticeSpec K L) (k : Nat) : DotItem.node k ∈ dotItems L ↔ k < L.length := by
  rw [mem_dot]
  constructor
  · rintro ⟨k', c, hc, hx⟩
    rw [mem_block_node.mp hx, S.index hc]
    exact S.lt_length hc
  · intro hk
    have hc : L[k]? = some L[k] := List.getElem?_eq_getElem hk
    exact ⟨k, L[k], hc, mem_block_node.mpr (S.index hc).symm⟩

/-- an item attached to node `k` comes from the concept at position `k` -/
theorem mem_dot_src (S : LatticeSpec K L) {x : DotItem} :
    x ∈ dotItems L ↔ ∃ c, L[src x]? = some c ∧ x ∈ block c := by
  rw [mem_dot]
  constructor
  · rintro ⟨k, c, hc, hx⟩
    rw [src_of_mem_block hx, S.index hc]
    exact ⟨c, hc, hx⟩
  · rintro ⟨c, hc, hx⟩
    exact ⟨_, c, hc, hx⟩

theorem mem_edge (S : LatticeSpec K L) (k j : Nat) :
    DotItem.edge k j ∈ dotItems L ↔ ∃ c, L[k]? = some c ∧ j ∈ c.lower := by
  rw [mem_dot_src S]
  show (∃ c, L[k]? = some c ∧ _) ↔ _
  constructor
  · rintro ⟨c, hc, hx⟩; exact ⟨c, hc, (mem_block_edge.mp hx).2⟩
  · rintro ⟨c, hc, hj⟩; exact ⟨c, hc, mem_block_edge.mpr ⟨(S.index hc).symm, hj⟩⟩

theorem mem_olabel (S : LatticeSpec K L) (k : Nat) (os : List Nat) :
    DotItem.objectLabel k os ∈ dotItems L ↔ ∃ c, L[k]? = some c ∧ c.objects ≠ [] ∧ os = c.objects := by
  rw [mem_dot_src S]
  show (∃ c, L[k]? = some c ∧ _) ↔ _
  constructor
  · rintro ⟨c, hc, hx⟩; exact ⟨c, hc, (mem_block_olabel.mp hx).2⟩
  · rintro ⟨c, hc, hj⟩; exact ⟨c, hc, mem_block_olabel.mpr ⟨(S.index hc).symm, hj⟩⟩

theorem mem_plabel (S : LatticeSpec K L) (k : Nat) (ps : List Nat) :
    DotItem.propertyLabel k ps ∈ dotItems L ↔ ∃ c, L[k]? = some c ∧ c.properties ≠ [] ∧ ps = c.properties := by
  rw [mem_dot_src S]
  show (∃ c, L[k]? = some c ∧ _) ↔ _
  constructor
  · rintro ⟨c, hc, hx⟩; exact ⟨c, hc, (mem_block_plabel.mp hx).2⟩
  · rintro ⟨c, hc, hj⟩; exact ⟨c, hc, mem_block_plabel.mpr ⟨(S.index hc).symm, hj⟩⟩

/-- `j` is a lower neighbor of `k`: positions of a covering pair -/
theorem lower_iff_covers (S : LatticeSpec K L) (k j : Nat) :
    (∃ c, L[k]? = some c ∧ j ∈ c.lower) ↔
      ∃ c d, L[k]? = some c ∧ L[j]? = some d ∧ covers K d.extent c.extent := by
  constructor
  · rintro ⟨c, hc, hj⟩
    obtain ⟨d, hd, hcv⟩ := S.lower_get hc hj
    exact ⟨c, d, hc, hd, hcv⟩
  · rintro ⟨c, d, hc, hd, hcv⟩
    exact ⟨c, hc, (S.mem_lower hc j).mpr ⟨d.extent, S.extent_get hd, S.closed hd, hcv⟩⟩

theorem countP_isEdge (_S : LatticeSpec K L) : (dotItems L).countP isEdge = (L.map (·.lower.length)).sum := by
  rw [dotItems_eq, countP_flatMap_block]
  congr 1
  apply List.map_congr_left
  intro c _
  exact countP_isEdge_block c

theorem countP_isNode (_S : LatticeSpec K L) : (dotItems L).countP isNode = L.length := by
  rw [dotItems_eq, countP_flatMap_block]
  have : L.map (fun c => (block c).countP isNode) = L.map (fun _ => 1) :=
    List.map_congr_left (fun c _ => countP_isNode_block c)
  rw [this]
  simp

end spec

/-! ### the list of proper edges -/

/-- the (tail, head) pairs of the proper edge statements, in emission order -/
def edgePairs (L : Lattice) : List (Nat × Nat) := (dotItems L).filterMap edgeOf

theorem edgePairs_eq (L : Lattice) :
    edgePairs L = L.flatMap (fun c => (sortBy id c.lower).map (fun j => (c.index, j))) := by
  unfold edgePairs
  rw [dotItems_eq, List.filterMap_flatMap]
  congr 1
  funext c
  exact edgePairs_block c

theorem extentAt_get {L : Lattice} {k : Nat} {c : LConcept} (h : L[k]? = some c) : L.extentAt k = c.extent := by
  unfold Lattice.extentAt
  rw [h]; rfl

section spec2
variable {K : Ctx} {L : Lattice}

theorem mem_edgePairs_iff (S : LatticeSpec K L) (k j : Nat) :
    (k, j) ∈ edgePairs L ↔ ∃ c d, L[k]? = some c ∧ L[j]? = some d ∧ covers K d.extent c.extent := by
  unfold edgePairs
  rw [mem_edgePairs, mem_edge S, lower_iff_covers S]

theorem edgePairs_nodup' (S : LatticeSpec K L) : (edgePairs L).Nodup := edgePairs_nodup (dot_nodup S)

theorem edgePairs_length (L : Lattice) : (edgePairs L).length = (dotItems L).countP isEdge :=
  length_filterMap_edgeOf _

theorem index_pairwise_lt (S : LatticeSpec K L) : L.Pairwise (fun c d => c.index < d.index) := by
  have : (L.map (·.index)).Pairwise (· < ·) := by rw [C10.map_index S]; exact List.pairwise_lt_range
  rwa [List.pairwise_map] at this

/-- edges are emitted by ascending tail, then ascending head -/
theorem edgePairs_sorted (S : LatticeSpec K L) :
    (edgePairs L).Pairwise (fun p q => p.1 < q.1 ∨ (p.1 = q.1 ∧ p.2 < q.2)) := by
  rw [edgePairs_eq, List.pairwise_flatMap]
  refine ⟨fun c hc => ?_, (index_pairwise_lt S).imp ?_⟩
  · obtain ⟨k, hk⟩ := C10.mem_iff_get.mp hc
    rw [List.pairwise_map]
    have := sortBy_strict id (S.lower_nodup hk) (fun a _ b _ h => h)
    exact this.imp (fun h => Or.inr ⟨rfl, h⟩)
  · intro c d hlt x hx y hy
    obtain ⟨_, _, rfl⟩ := List.mem_map.mp hx
    obtain ⟨_, _, rfl⟩ := List.mem_map.mp hy
    exact Or.inl hlt

/-- the covering pairs of extents drawn by the edges -/
def coverPairs (L : Lattice) : List (Nat × Nat) := (edgePairs L).map (fun p => (L.extentAt p.2, L.extentAt p.1))

theorem mem_coverPairs (S : LatticeSpec K L) (G D : Nat) :
    (G, D) ∈ coverPairs L ↔ closedObj K G ∧ covers K G D := by
  unfold coverPairs
  rw [List.mem_map]
  constructor
  · rintro ⟨⟨k, j⟩, hm, he⟩
    obtain ⟨c, d, hc, hd, hcv⟩ := (mem_edgePairs_iff S k j).mp hm
    simp only [Prod.mk.injEq] at he
    rw [← he.1, ← he.2, extentAt_get hc, extentAt_get hd]
    exact ⟨S.closed hd, hcv⟩
  · rintro ⟨hG, hcv⟩
    obtain ⟨j, hj⟩ := S.find_of_closed hG
    obtain ⟨k, hk⟩ := S.find_of_closed hcv.1
    obtain ⟨d, hd, rfl⟩ := S.find_some hj
    obtain ⟨c, hc, rfl⟩ := S.find_some hk
    refine ⟨(k, j), (mem_edgePairs_iff S k j).mpr ⟨c, d, hc, hd, hcv⟩, ?_⟩
    simp only [extentAt_get hc, extentAt_get hd]

theorem coverPairs_nodup (S : LatticeSpec K L) : (coverPairs L).Nodup := by
  unfold coverPairs
  refine List.Nodup.map_on ?_ (edgePairs_nodup' S)
  rintro ⟨k, j⟩ hp ⟨k', j'⟩ hq he
  obtain ⟨c, d, hc, hd, _⟩ := (mem_edgePairs_iff S k j).mp hp
  obtain ⟨c', d', hc', hd', _⟩ := (mem_edgePairs_iff S k' j').mp hq
  simp only [Prod.mk.injEq, extentAt_get hc, extentAt_get hd, extentAt_get hc', extentAt_get hd'] at he
  rw [S.pos_inj hc hc' he.2, S.pos_inj hd hd' he.1]

end spec2

end FCA.C20
