import FCA.Proofs.Cbo
/-
The two sides of a context (`fcbo` grows intents, `fcboDual` grows extents) satisfy the abstract
requirements of `Cbo.SideOK`.
-/
namespace FCA
namespace Cbo

/-- side of `fast_generate_from`: own = intent, other = extent -/
def sideP (K : Ctx) : Side := ⟨K.m, fun j => K.cols[j]!, K.intentOf⟩
/-- side of `fcbo_dual`: own = extent, other = intent -/
def sideO (K : Ctx) : Side := ⟨K.n, fun j => K.rows[j]!, K.extentOf⟩

theorem mem_col {K : Ctx} (h : K.WF) (i j : Nat) : i ∈ᵇ K.cols[j]! ↔ j < K.m ∧ i < K.n ∧ K.has i j := by
  rw [h.2.2, mem_colsOf]; rfl

theorem extentOf_or_pow {K : Ctx} (h : K.WF) (B j : Nat) (hj : j < K.m) :
    K.extentOf B &&& K.cols[j]! = K.extentOf (B ||| 2 ^ j) := by
  apply ext; intro i
  simp only [mem_and, mem_extentOf h, mem_col h, mem_or, mem_pow]
  constructor
  · rintro ⟨⟨hi, hall⟩, _, _, hij⟩
    refine ⟨hi, ?_⟩
    rintro j' (hj' | rfl)
    · exact hall j' hj'
    · exact hij
  · rintro ⟨hi, hall⟩
    exact ⟨⟨hi, fun j' hj' => hall j' (Or.inl hj')⟩, hj, hi, hall j (Or.inr rfl)⟩

theorem intentOf_or_pow {K : Ctx} (A i : Nat) :
    K.intentOf A &&& K.rows[i]! = K.intentOf (A ||| 2 ^ i) := by
  apply ext; intro j
  simp only [mem_and, mem_intentOf, mem_or, mem_pow]
  constructor
  · rintro ⟨⟨hj, hall⟩, hij⟩
    refine ⟨hj, ?_⟩
    rintro i' (hi' | rfl)
    · exact hall i' hi'
    · exact hij
  · rintro ⟨hj, hall⟩
    exact ⟨⟨hj, fun i' hi' => hall i' (Or.inl hi')⟩, hall i (Or.inr rfl)⟩

theorem sideP_ok {K : Ctx} (h : K.WF) : SideOK (sideP K) K.extentOf where
  ext' := fun _ ha => sub_intent_extent h ha
  mono := fun _ _ hs => intentOf_anti (extentOf_anti h hs)
  idem := fun a => intent_extent_intent h (bounded_extentOf h a)
  bdd := fun a => bounded_intentOf _
  inter := fun B j hj => extentOf_or_pow h B j hj
  der_cl := fun _ ha => extent_intent_extent h ha
  empty := by
    intro B hB h0 j hj
    change K.intentOf (K.extentOf B) = B at hB
    rw [← hB, h0, mem_intentOf]
    exact ⟨hj, fun i hi => absurd hi not_mem_zero⟩

theorem sideO_ok {K : Ctx} (h : K.WF) : SideOK (sideO K) K.intentOf where
  ext' := fun _ ha => sub_extent_intent h ha
  mono := fun _ _ hs => extentOf_anti h (intentOf_anti hs)
  idem := fun a => extent_intent_extent h (bounded_intentOf a)
  bdd := fun a => bounded_extentOf h _
  inter := fun A i _ => intentOf_or_pow A i
  der_cl := fun _ ha => intent_extent_intent h ha
  empty := by
    intro A hA h0 i hi
    change K.extentOf (K.intentOf A) = A at hA
    rw [← hA, h0, mem_extentOf h]
    exact ⟨hi, fun j hj => absurd hj not_mem_zero⟩

theorem setsInv_init (S : Side) (der : Nat → Nat) (B k : Nat) :
    SetsInv S der B (Array.replicate k 0) := by
  intro j _
  have : (Array.replicate k 0)[j]! = 0 := by
    by_cases hj : j < k <;> simp [hj]
  rw [this]; exact zero_sub _

theorem fcbo_eq (K : Ctx) : fcbo K =
    (fcboNode (sideP K) (K.m + 1) ⟨K.intentOf (full K.n), K.extentOf (K.intentOf (full K.n))⟩ 0
      (Array.replicate K.m 0)).map fun nd => (nd.other, nd.own) := rfl

theorem fcboDual_eq (K : Ctx) : fcboDual K =
    (fcboNode (sideO K) (K.n + 1) ⟨K.extentOf (K.intentOf 0), K.intentOf 0⟩ 0
      (Array.replicate K.n 0)).map fun nd => (nd.own, nd.other) := rfl

/-- root node of `fcbo`: everything the generic spec gives -/
theorem fcbo_root_spec {K : Ctx} (h : K.WF) :
    let l := fcboNode (sideP K) (K.m + 1)
      ⟨K.intentOf (full K.n), K.extentOf (K.intentOf (full K.n))⟩ 0 (Array.replicate K.m 0)
    (l.map (·.own)).Nodup ∧ (∀ x ∈ l, x.other = K.extentOf x.own) ∧
    ∀ D, D ∈ l.map (·.own) ↔ K.intentOf (K.extentOf D) = D := by
  intro l
  have hroot : K.intentOf (K.extentOf (K.intentOf (full K.n))) = K.intentOf (full K.n) :=
    intent_extent_intent h (bounded_full _)
  obtain ⟨h1, h2, h3⟩ := fcboNode_spec (sideP_ok h) (K.m + 1)
    ⟨K.intentOf (full K.n), K.extentOf (K.intentOf (full K.n))⟩ 0 (Array.replicate K.m 0)
    (by show K.m - 0 ≤ K.m + 1; omega) hroot rfl (setsInv_init _ _ _ _)
  refine ⟨h1, h2, fun D => ?_⟩
  rw [h3 D]
  constructor
  · exact fun hS => hS.1
  · intro hD
    refine ⟨hD, ?_, fun i hi => absurd hi (Nat.not_lt_zero i)⟩
    show K.intentOf (full K.n) ⊆ᵇ D
    rw [← hD]
    exact intentOf_anti (bounded_iff_sub_full.mp (bounded_extentOf h D))

/-- root node of `fcboDual` -/
theorem fcboDual_root_spec {K : Ctx} (h : K.WF) :
    let l := fcboNode (sideO K) (K.n + 1) ⟨K.extentOf (K.intentOf 0), K.intentOf 0⟩ 0
      (Array.replicate K.n 0)
    (l.map (·.own)).Nodup ∧ (∀ x ∈ l, x.other = K.intentOf x.own) ∧
    ∀ D, D ∈ l.map (·.own) ↔ Bounded K.n D ∧ K.extentOf (K.intentOf D) = D := by
  intro l
  have hroot : K.extentOf (K.intentOf (K.extentOf (K.intentOf 0))) = K.extentOf (K.intentOf 0) :=
    extent_intent_extent h (bounded_intentOf 0)
  have hoth : K.intentOf 0 = K.intentOf (K.extentOf (K.intentOf 0)) :=
    (intent_extent_intent h (bounded_zero _)).symm
  obtain ⟨h1, h2, h3⟩ := fcboNode_spec (sideO_ok h) (K.n + 1)
    ⟨K.extentOf (K.intentOf 0), K.intentOf 0⟩ 0 (Array.replicate K.n 0)
    (by show K.n - 0 ≤ K.n + 1; omega) hroot hoth (setsInv_init _ _ _ _)
  refine ⟨h1, h2, fun D => ?_⟩
  rw [h3 D]
  constructor
  · intro hS
    refine ⟨?_, hS.1⟩
    have : K.extentOf (K.intentOf D) = D := hS.1
    rw [← this]; exact bounded_extentOf h _
  · rintro ⟨hb, hD⟩
    refine ⟨hD, ?_, fun i hi => absurd hi (Nat.not_lt_zero i)⟩
    show K.extentOf (K.intentOf 0) ⊆ᵇ D
    rw [← hD]
    exact extentOf_anti h (intentOf_anti (zero_sub _))

end Cbo
end FCA
