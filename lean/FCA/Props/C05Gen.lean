import FCA.Props.C03Gen
import FCA.Props.C05
import FCA.Props.C02Gen
/-
C05 over the regenerated source: the covers theorem restated for the loop body that the current `lindig.py` has.
-/
namespace FCA

/-- `lindig.neighbors(extent)` as the current source computes it -/
def generatedNeighbors (K : Ctx) (objects : Nat) : List (Nat × Nat) :=
  (((membersW K.n (andNot (full K.n) objects)).foldl
    (fun s g => Generated.neighbors_body K.dpObj objects (2 ^ g) s.1 s.2)
    (andNot (full K.n) objects, [])).2).reverse

/-- folding the regenerated loop body from a closed extent yields each upper cover exactly once, as a formal
concept: the last clause of C05 for the code as it is now -/
theorem C05_generated_neighbors_covers (K : Ctx) (h : K.WF) (A : Nat) (hA : Bounded K.n A) :
    ((generatedNeighbors K (K.doubleObj A)).map Prod.fst).Nodup ∧
    (∀ D, D ∈ (generatedNeighbors K (K.doubleObj A)).map Prod.fst ↔ covers K (K.doubleObj A) D) ∧
    (∀ p ∈ generatedNeighbors K (K.doubleObj A), isConcept K p.1 p.2) := by
  have e : generatedNeighbors K (K.doubleObj A) = contextNeighbors K A := by
    unfold generatedNeighbors contextNeighbors
    exact (C03_generated_neighbors K _).symm
  rw [e]
  exact C05_context_neighbors K h A hA

/-- `Context.neighbors(objects)` of the current source (labels resolved as objects, closed by `double`, then `lindig.neighbors`)
is the model's `contextNeighbors`, whose output `C05_context_neighbors` characterises as the upper covers -/
theorem C05_generated_context_neighbors (K : Ctx) (A : Nat) :
    (C02_deriveOfCfg K Generated.neighbors_cfg).map (fun cl => neighbors K (cl A)) = some (contextNeighbors K A) :=
  C02_generated_context_neighbors K A

end FCA
#print axioms FCA.C05_generated_neighbors_covers
#print axioms FCA.C05_generated_context_neighbors
