"""Shared machinery of the checks: the run context, recording of disagreements, the Python-side
canonical views of the real objects, replays and evidence."""
import hashlib
import json
import os
import random
import sys
import time

HERE = os.path.dirname(os.path.abspath(__file__))
VERIF = os.path.dirname(HERE)
REPO = os.environ.get('VERIF_REPO', '/repo')
if REPO not in sys.path:
    sys.path.insert(0, REPO)

from drive import Driver  # noqa: E402


class Disagreement(Exception):
    pass


class ApiBroken(Exception):
    """The harness can no longer drive a pinned observable of the public API."""


def olabel(i):
    return 'o%d' % ((i * 37 + 11) % 1009)


def plabel(j):
    return 'p%d' % ((j * 53 + 7) % 1013)


def show_list(l):
    l = list(l)
    return ','.join(map(str, l)) if l else '-'


def mask_of(idx):
    return sum(1 << i for i in idx)


def members_of(mask):
    out, i = [], 0
    while mask:
        if mask & 1:
            out.append(i)
        mask >>= 1
        i += 1
    return out


class PyCtx:
    """A real `concepts.Context` built from an index-level table, with label maps."""

    def __init__(self, tab, objects=None, properties=None):
        import concepts
        self.n, self.m, self.rows = tab
        self.objects = list(objects) if objects is not None else [olabel(i) for i in range(self.n)]
        self.properties = list(properties) if properties is not None else [plabel(j) for j in range(self.m)]
        self.opos = {o: i for i, o in enumerate(self.objects)}
        self.ppos = {p: j for j, p in enumerate(self.properties)}
        bools = [tuple(bool((r >> j) & 1) for j in range(self.m)) for r in self.rows]
        self.bools = bools
        cells = bools
        if (self.n * 31 + self.m * 17 + sum(self.rows)) % 3 == 0 and self.n * self.m <= 400:
            # the cells as assorted truthy / falsy values: a context represents its table by truthiness
            truthy, falsy = (True, 1, 2, 3.5, 'x', (0,)), (False, 0, None, '', (), 0.0)
            cells = [tuple((truthy if b else falsy)[(i * 7 + j * 5 + i * j) % 6] for j, b in enumerate(row)) for i, row in enumerate(bools)]
        self.ctx = concepts.Context(self.objects, self.properties, cells)

    @property
    def line(self):
        return 'ctx %d %d %s' % (self.n, self.m, ' '.join(map(str, self.rows)))

    def omask(self, labels, strict=True):
        """Mask of an objects tuple; insists on context order without repeats."""
        try:
            idx = [self.opos[o] for o in labels]
        except (KeyError, TypeError):
            raise Disagreement('%r is not a tuple of object labels of the context' % (labels,))
        if strict and idx != sorted(set(idx)):
            raise Disagreement('objects tuple %r not in context order / repeated' % (labels,))
        return mask_of(set(idx))

    def pmask(self, labels, strict=True):
        try:
            idx = [self.ppos[p] for p in labels]
        except (KeyError, TypeError):
            raise Disagreement('%r is not a tuple of property labels of the context' % (labels,))
        if strict and idx != sorted(set(idx)):
            raise Disagreement('properties tuple %r not in context order / repeated' % (labels,))
        return mask_of(set(idx))

    def olabels(self, mask):
        return [self.objects[i] for i in members_of(mask)]

    def plabels(self, mask):
        return [self.properties[j] for j in members_of(mask)]


def lattice_view(pc, lattice):
    """Canonical text of every public attribute of every concept (same format as the driver's
    `lattice` answer): extent intent upper lower dindex atoms objects properties, concepts in
    iteration order, neighbor references as positions in iteration order."""
    concepts = list(lattice)
    pos = {id(c): k for k, c in enumerate(concepts)}
    if len(pos) != len(concepts):
        raise Disagreement('a concept object is repeated in iter(lattice)')
    out = []
    for k, c in enumerate(concepts):
        if c.index != k:
            raise Disagreement('concept.index %r at position %d' % (c.index, k))
        if getattr(c, 'lattice', lattice) is not lattice:
            raise Disagreement('concept %d of the lattice reports another object as its lattice' % k)
        try:
            up = [pos[id(u)] for u in c.upper_neighbors]
            lo = [pos[id(l)] for l in c.lower_neighbors]
            at = [pos[id(a)] for a in c.atoms]
        except KeyError:
            raise Disagreement('neighbor/atom of concept %d is not a member of the lattice' % k)
        out.append('%d %d %s %s %d %s %s %s' % (
            pc.omask(c.extent), pc.pmask(c.intent), show_list(up), show_list(lo), c.dindex,
            show_list(at), show_list(pc.opos[o] for o in c.objects),
            show_list(pc.ppos[p] for p in c.properties)))
    return ';'.join(out)


class Run:
    """One check run: PRNG, model driver, counters, disagreement handling, evidence."""

    def __init__(self, pid, tier, seed):
        self.pid = pid
        self.tier = tier
        self.seed = seed
        self.rng = random.Random(seed * 1000003 + int(pid[1:]))
        self.driver = Driver()
        self.t0 = time.time()
        self.evaluations = 0
        self.distinct = set()
        self.samples = []
        self.counters = {}
        self.violation = None
        self.notes = []
        self.deadline = None

    # -- bookkeeping
    def count(self, key, k=1):
        self.counters[key] = self.counters.get(key, 0) + k

    def case(self, canon, nontrivial=True, sample=None):
        """Register one explored case (canonical text used for distinctness)."""
        self.evaluations += 1
        if nontrivial:
            self.distinct.add(hashlib.blake2b(canon.encode(), digest_size=8).digest())
        if sample is not None and len(self.samples) < 6 and (self.evaluations % 97 == 1 or len(self.samples) < 2):
            self.samples.append(sample)

    def time_left(self):
        return self.deadline is None or time.time() < self.deadline

    # -- comparisons
    def expect(self, what, impl, model, requests, extra=None):
        """Compare an implementation observable with the model's answer."""
        if impl != model:
            self.fail(what, impl, model, requests, extra)

    def fail(self, what, impl, model, requests, extra=None):
        self.violation = {'property': self.pid, 'what': what, 'implementation': impl, 'model': model,
                          'requests': list(requests), 'seed': self.seed, 'tier': self.tier,
                          'case_index': self.evaluations, 'extra': extra}
        raise Disagreement(what)

    def close(self):
        self.driver.close()


def write_replay(pid, record):
    os.makedirs(os.path.join(VERIF, 'replays'), exist_ok=True)
    text = json.dumps(record, indent=1, sort_keys=True, default=str)
    digest = hashlib.sha1(text.encode()).hexdigest()[:12]
    path = os.path.join('replays', '%s-%s.json' % (pid, digest))
    with open(os.path.join(VERIF, path), 'w') as f:
        f.write(text + '\n')
    return path


class guard:
    """Run implementation calls; an exception escaping the implementation is an observable
    (reported as a disagreement with the model, which answered); an AttributeError / TypeError /
    ImportError raised in the harness's own frame means the public API changed under us."""

    def __init__(self, run, what, requests, model=None, extra=None):
        self.run, self.what, self.requests, self.model, self.extra = run, what, requests, model, extra

    def __enter__(self):
        return self

    def __exit__(self, et, ev, tb):
        if et is not None and issubclass(et, Disagreement) and self.run.violation is None:
            # raised by a canonicalisation helper (label outside the domain, tuple out of order, …)
            what = self.what() if callable(self.what) else self.what
            reqs = self.requests() if callable(self.requests) else self.requests
            self.run.violation = {'property': self.run.pid, 'what': '%s: %s' % (what, ev), 'implementation': str(ev),
                                  'model': self.model, 'requests': list(reqs), 'seed': self.run.seed, 'tier': self.run.tier,
                                  'case_index': self.run.evaluations, 'extra': self.extra}
            return False
        if et is None or issubclass(et, (Disagreement, ApiBroken, KeyboardInterrupt, SystemExit)):
            return False
        import traceback as _tb
        frames = _tb.extract_tb(tb)
        inner = frames[-1].filename if frames else ''
        in_harness = os.path.abspath(inner).startswith(HERE)
        if in_harness and issubclass(et, (AttributeError, TypeError, ImportError, NameError)):
            raise ApiBroken('%s: %s: %s' % (self.what, et.__name__, ev))
        if in_harness and not issubclass(et, (AssertionError,)):
            # bug in the harness itself
            return False
        what = self.what() if callable(self.what) else self.what
        reqs = self.requests() if callable(self.requests) else self.requests
        self.run.violation = {'property': self.run.pid, 'what': what,
                              'implementation': 'raised %s: %s' % (et.__name__, ev), 'model': self.model,
                              'requests': list(reqs), 'seed': self.run.seed, 'tier': self.run.tier,
                              'case_index': self.run.evaluations, 'extra': self.extra,
                              'traceback': _tb.format_exception(et, ev, tb)[-6:]}
        raise Disagreement(what)
