import FCA.Proofs.DefnDerive
import FCA.Props.C13
import FCA.Proofs.DefnCtx
import FCA.Proofs.DefnHeap
import FCA.Proofs.Galois
import FCA.Model.Formats
/-
C14 — derived definitions are correct and unaliased; Context <-> Definition are inverse.

`union`, `intersection`, `take`, `transposed`, `inverted` return the mathematically expected table
as a new value; "shares no mutable state" is proved on the reference model `Model/DefnHeap.lean`
(`C14_heap_refines`, `C14_fresh`, `C14_no_alias*`, `C14_program_refines`); `Context(*definition)`
stores exactly the definition's table and vice versa, equal contexts = equal triples, shape / fill
count / table text agree.
-/
namespace FCA

/-! ### union / intersection -/

/-- `d.union(e)`: cell-wise or; names of `e` appended in order; invariant kept -/
theorem C14_union_cells {d e u : Defn} {ig : Bool} (hd : d.Inv) (he : e.Inv)
    (h : d.union e ig = .ok u) :
    (∀ o p, (o, p) ∈ u.pairs ↔ (o, p) ∈ d.pairs ∨ (o, p) ∈ e.pairs) ∧
    u.objs = uIor d.objs e.objs ∧ u.props = uIor d.props e.props ∧ u.Inv := by
  obtain ⟨r, hs⟩ := union_ok_iff.mp h
  have hi : u.Inv := inv_step (op := .unionUpdate e ig) hd he hs
  obtain ⟨_, rfl⟩ := step_unionUpdate_ok hs
  exact ⟨fun o p => mem_foldl_pAdd, rfl, rfl, hi⟩

/-- the same without the invariant (cells and names only) -/
theorem C14_union_cells' {d e u : Defn} {ig : Bool} (h : d.union e ig = .ok u) :
    (∀ o p, (o, p) ∈ u.pairs ↔ (o, p) ∈ d.pairs ∨ (o, p) ∈ e.pairs) ∧
    u.objs = d.objs ++ uniq (e.objs.filter (fun x => !d.objs.contains x)) ∧
    u.props = d.props ++ uniq (e.props.filter (fun x => !d.props.contains x)) := by
  obtain ⟨r, hs⟩ := union_ok_iff.mp h
  obtain ⟨_, rfl⟩ := step_unionUpdate_ok hs
  exact ⟨fun o p => mem_foldl_pAdd, uIor_eq _ _, uIor_eq _ _⟩

example : exD.Inv ∧ exE.Inv ∧ ∃ u, exD.union exE false = .ok u ∧
    u.objs = ["o1", "o2", "o3"] ∧ u.bools = [[true, false, false], [false, true, false], [false, false, true]] :=
  ⟨exD_inv, exE_inv, _, rfl, by decide, by decide⟩

/-- `union` is rejected exactly when conflicts are not ignored and the operands differ on a
shared cell; the exception is `ValueError` -/
theorem C14_union_rejects_iff {d e : Defn} {ig : Bool} :
    (∃ err, d.union e ig = .error err) ↔ ig = false ∧ Conflict d e := by
  simp only [union_error_iff, step_unionUpdate_error_iff]
  constructor
  · rintro ⟨_, _, h⟩; exact h
  · intro h; exact ⟨_, rfl, h⟩

theorem C14_union_error_class {d e : Defn} {ig : Bool} {err : Err} (h : d.union e ig = .error err) :
    err = .valueError := (step_unionUpdate_error_iff.mp (union_error_iff.mp h)).1

/-- with `ignore_conflicts` or without conflict the union exists -/
theorem C14_union_accepts_iff {d e : Defn} {ig : Bool} :
    (∃ u, d.union e ig = .ok u) ↔ ig = true ∨ ¬Conflict d e := by
  cases h : d.union e ig with
  | ok u =>
    simp only [Except.ok.injEq, exists_eq', true_iff]
    by_contra hc
    push Not at hc
    have := (C14_union_rejects_iff (d := d) (e := e) (ig := ig)).mpr ⟨by simpa using hc.1, hc.2⟩
    rw [h] at this
    obtain ⟨_, h'⟩ := this
    cases h'
  | error err =>
    have := (C14_union_rejects_iff (d := d) (e := e) (ig := ig)).mp ⟨err, h⟩
    simp [this.1, this.2]

example : exD.union exF false = .error .valueError := by decide
example : Conflict exD exF :=
  ⟨"o2", "p2", by decide, by decide, by decide, by decide, by decide⟩
example : ∃ u, exD.union exF true = .ok u ∧ u.getItem "o2" "p2" = .ok true := ⟨_, rfl, by decide⟩

/-- `d.intersection(e)`: cell-wise and on the common names, in the order of `d` -/
theorem C14_intersection_cells {d e u : Defn} {ig : Bool} (hd : d.Inv) (he : e.Inv)
    (h : d.intersection e ig = .ok u) :
    (∀ o p, (o, p) ∈ u.pairs ↔ (o, p) ∈ d.pairs ∧ (o, p) ∈ e.pairs) ∧
    u.objs = uIand d.objs e.objs ∧ u.props = uIand d.props e.props ∧ u.Inv := by
  obtain ⟨r, hs⟩ := intersection_ok_iff.mp h
  have hi : u.Inv := inv_step (op := .intersectionUpdate e ig) hd he hs
  obtain ⟨_, rfl⟩ := step_intersectionUpdate_ok hs
  refine ⟨fun o p => ?_, rfl, rfl, hi⟩
  simp [List.mem_filter]

/-- `uIand` keeps the names of the left operand that also occur on the right, in left order -/
theorem C14_uIand_spec (l xs : List Name) :
    (uIand l xs).Sublist l ∧ ∀ x, x ∈ uIand l xs ↔ x ∈ l ∧ x ∈ xs :=
  ⟨List.filter_sublist, fun _ => mem_uIand⟩

theorem C14_intersection_rejects_iff {d e : Defn} {ig : Bool} :
    (∃ err, d.intersection e ig = .error err) ↔ ig = false ∧ Conflict d e := by
  simp only [intersection_error_iff, step_intersectionUpdate_error_iff]
  constructor
  · rintro ⟨_, _, h⟩; exact h
  · intro h; exact ⟨_, rfl, h⟩

theorem C14_intersection_error_class {d e : Defn} {ig : Bool} {err : Err}
    (h : d.intersection e ig = .error err) : err = .valueError :=
  (step_intersectionUpdate_error_iff.mp (intersection_error_iff.mp h)).1

example : exD.Inv ∧ exE.Inv ∧ ∃ u, exD.intersection exE false = .ok u ∧
    u.objs = ["o2"] ∧ u.props = ["p2"] ∧ u.bools = [[true]] :=
  ⟨exD_inv, exE_inv, _, rfl, by decide, by decide, by decide⟩
example : exD.intersection exF false = .error .valueError := by decide

/-- the derived value and the in-place operation agree -/
theorem C14_union_eq_unionUpdate {d e u : Defn} {ig : Bool} :
    d.union e ig = .ok u ↔ d.step (.unionUpdate e ig) = .ok (u, []) := by
  rw [union_ok_iff]
  constructor
  · rintro ⟨r, hs⟩; rw [hs, (step_unionUpdate_ok hs).1]
  · intro hs; exact ⟨_, hs⟩

theorem C14_intersection_eq_intersectionUpdate {d e u : Defn} {ig : Bool} :
    d.intersection e ig = .ok u ↔ d.step (.intersectionUpdate e ig) = .ok (u, []) := by
  rw [intersection_ok_iff]
  constructor
  · rintro ⟨r, hs⟩; rw [hs, (step_intersectionUpdate_ok hs).1]
  · intro hs; exact ⟨_, hs⟩

/-! ### take -/

/-- the name list `take` keeps for one axis -/
def takeNames (l : List Name) (req : Option (List Name)) (reorder : Bool) : List Name :=
  match req with
  | none => l
  | some xs => if reorder then uniq xs else l.filter xs.contains

theorem take_eq (d : Defn) (objects properties : Option (List Name)) (reorder : Bool) :
    d.take objects properties reorder =
      if ((!(objects.getD []).isEmpty && !(objects.getD []).all d.objs.contains) ||
          (!(properties.getD []).isEmpty && !(properties.getD []).all d.props.contains)) = true then
        .error (.keyError, uIor (uRsub d.objs (objects.getD [])) (uRsub d.props (properties.getD [])))
      else
        .ok ⟨takeNames d.objs objects reorder, takeNames d.props properties reorder,
          (takeNames d.objs objects reorder).flatMap fun o =>
            (takeNames d.props properties reorder).filterMap fun p =>
              if d.pairs.contains (o, p) then some (o, p) else none⟩ := by
  cases objects <;> cases properties <;> cases reorder <;> rfl

/-- `take`: the result is the sub-table on the kept names: names in the original order (or in the
requested order, first occurrences, with `reorder`), cells as in `d` -/
theorem C14_take {d t : Defn} {objects properties : Option (List Name)} {reorder : Bool}
    (h : d.take objects properties reorder = .ok t) :
    t.objs = takeNames d.objs objects reorder ∧ t.props = takeNames d.props properties reorder ∧
    (∀ o p, (o, p) ∈ t.pairs ↔ o ∈ t.objs ∧ p ∈ t.props ∧ (o, p) ∈ d.pairs) ∧
    (∀ o ∈ t.objs, o ∈ d.objs) ∧ (∀ p ∈ t.props, p ∈ d.props) ∧
    (∀ o ∈ t.objs, ∀ p ∈ t.props, t.getItem o p = d.getItem o p) := by
  rw [take_eq] at h
  split at h
  · cases h
  · rename_i hg
    rw [take_guard_iff] at hg
    push Not at hg
    obtain ⟨hg1, hg2⟩ := hg
    cases h
    have s1 : ∀ o ∈ takeNames d.objs objects reorder, o ∈ d.objs := by
      intro o ho
      cases objects with
      | none => exact ho
      | some xs =>
        cases reorder
        · simp [takeNames] at ho; exact ho.1
        · simp [takeNames] at ho; exact hg1 o (by simpa using ho)
    have s2 : ∀ p ∈ takeNames d.props properties reorder, p ∈ d.props := by
      intro p hp
      cases properties with
      | none => exact hp
      | some xs =>
        cases reorder
        · simp [takeNames] at hp; exact hp.1
        · simp [takeNames] at hp; exact hg2 p (by simpa using hp)
    refine ⟨rfl, rfl, fun o p => mem_subtable, s1, s2, ?_⟩
    intro o ho p hp
    have ho' : o ∈ takeNames d.objs objects reorder := ho
    have hp' : p ∈ takeNames d.props properties reorder := hp
    have hcb : ((takeNames d.objs objects reorder).flatMap (fun o =>
        (takeNames d.props properties reorder).filterMap fun p =>
          if d.pairs.contains (o, p) then some (o, p) else none)).contains (o, p)
          = d.pairs.contains (o, p) := by
      rw [Bool.eq_iff_iff, List.contains_iff_mem, List.contains_iff_mem, mem_subtable]; tauto
    have c1 := List.contains_iff_mem.mpr ho'
    have c2 := List.contains_iff_mem.mpr hp'
    have c3 := List.contains_iff_mem.mpr (s1 o ho')
    have c4 := List.contains_iff_mem.mpr (s2 p hp')
    simp only [Defn.getItem, c1, c2, c3, c4, hcb, Bool.and_self, if_true]

/-- `take` keeps the invariant; without `reorder` the kept names are a sublist of the original -/
theorem C14_take_inv {d t : Defn} {objects properties : Option (List Name)} {reorder : Bool}
    (hd : d.Inv) (h : d.take objects properties reorder = .ok t) : t.Inv := by
  obtain ⟨h1, h2, h3, _, _, _⟩ := C14_take h
  have n1 : (takeNames d.objs objects reorder).Nodup := by
    cases objects with
    | none => exact hd.1
    | some xs => cases reorder <;> simp only [takeNames, if_true, Bool.false_eq_true, if_false]
                 · exact hd.1.filter _
                 · exact nodup_uniq _
  have n2 : (takeNames d.props properties reorder).Nodup := by
    cases properties with
    | none => exact hd.2.1
    | some xs => cases reorder <;> simp only [takeNames, if_true, Bool.false_eq_true, if_false]
                 · exact hd.2.1.filter _
                 · exact nodup_uniq _
  refine ⟨h1 ▸ n1, h2 ▸ n2, ?_, fun o p hop => ⟨((h3 o p).mp hop).1, ((h3 o p).mp hop).2.1⟩⟩
  rw [take_eq] at h
  split at h
  · cases h
  · cases h
    exact nodup_subtable n1 n2

theorem C14_take_order (l xs : List Name) :
    (takeNames l (some xs) false).Sublist l ∧ takeNames l (some xs) true = uniq xs ∧
    takeNames l none false = l ∧ takeNames l none true = l :=
  ⟨List.filter_sublist, rfl, rfl, rfl⟩

example : ∃ t, exD.take (some ["o2", "o1", "o2"]) (some ["p2"]) true = .ok t ∧
    t.objs = ["o2", "o1"] ∧ t.props = ["p2"] ∧ t.bools = [[true], [false]] :=
  ⟨_, rfl, by decide, by decide, by decide⟩
example : ∃ t, exD.take (some ["o2", "o1", "o2"]) none false = .ok t ∧
    t.objs = ["o1", "o2"] ∧ t.props = ["p1", "p2"] := ⟨_, rfl, by decide, by decide⟩
/-- the truthiness quirk: an empty (but given) list is not validated and selects nothing -/
example : ∃ t, exD.take (some []) none false = .ok t ∧ t.objs = [] ∧ t.props = ["p1", "p2"] :=
  ⟨_, rfl, by decide, by decide⟩

/-- `take` raises exactly when some requested name is unknown (an empty or missing list requests
nothing) -/
theorem C14_take_keyerror {d : Defn} {objects properties : Option (List Name)} {reorder : Bool} :
    (∃ e, d.take objects properties reorder = .error e) ↔
      (∃ x ∈ objects.getD [], x ∉ d.objs) ∨ (∃ x ∈ properties.getD [], x ∉ d.props) := by
  unfold Defn.take
  simp only
  split
  · rename_i hg
    rw [take_guard_iff] at hg
    simp [hg]
  · rename_i hg
    rw [take_guard_iff] at hg
    simp only [reduceCtorEq, exists_false, false_iff]
    exact hg

/-- the `KeyError` carries exactly the unknown names: unknown objects first, then unknown
properties, each in the given order, without repeats -/
theorem C14_take_keyerror_names {d : Defn} {objects properties : Option (List Name)} {reorder : Bool}
    {e : Err × List Name} (h : d.take objects properties reorder = .error e) :
    e.1 = .keyError ∧
    e.2 = uniq ((objects.getD []).filter (fun x => !d.objs.contains x)) ++
      (uniq ((properties.getD []).filter (fun x => !d.props.contains x))).filter
        (fun x => !(uniq ((objects.getD []).filter (fun x => !d.objs.contains x))).contains x) ∧
    e.2.Nodup ∧
    ∀ x, x ∈ e.2 ↔ (x ∈ objects.getD [] ∧ x ∉ d.objs) ∨ (x ∈ properties.getD [] ∧ x ∉ d.props) := by
  unfold Defn.take at h
  simp only at h
  split at h
  · cases h
    refine ⟨rfl, take_notfound_eq d _ _, nodup_uIor (nodup_uniq _), ?_⟩
    intro x
    simp only [mem_uIor, uRsub, mem_uniq, List.mem_filter, List.contains_eq_mem, Bool.not_eq_true',
      decide_eq_false_iff_not]
  · cases h

example : exD.take (some ["zz", "o1", "aa", "zz"]) (some ["p1", "qq", "aa"]) false
    = .error (.keyError, ["zz", "aa", "qq"]) := by decide

/-! ### transposed -/

theorem C14_transposed_involutive (d : Defn) : d.transposed.transposed = d := by
  cases d with
  | mk objs props pairs =>
    simp only [Defn.transposed, List.map_map, Defn.mk.injEq, true_and]
    conv_rhs => rw [← List.map_id pairs]
    apply List.map_congr_left
    rintro ⟨o, p⟩ _
    rfl

theorem C14_transposed_cells (d : Defn) :
    d.transposed.objs = d.props ∧ d.transposed.props = d.objs ∧
    (∀ o p, (p, o) ∈ d.transposed.pairs ↔ (o, p) ∈ d.pairs) ∧
    (∀ o p, d.transposed.getItem p o = d.getItem o p) := by
  have hc : ∀ o p, (p, o) ∈ d.transposed.pairs ↔ (o, p) ∈ d.pairs := by
    intro o p
    simp only [Defn.transposed, List.mem_map, Prod.exists, Prod.mk.injEq]
    constructor
    · rintro ⟨a, b, hab, rfl, rfl⟩; exact hab
    · intro h; exact ⟨o, p, h, rfl, rfl⟩
  refine ⟨rfl, rfl, hc, ?_⟩
  intro o p
  have e : d.transposed.pairs.contains (p, o) = d.pairs.contains (o, p) := by
    rw [Bool.eq_iff_iff, List.contains_iff_mem, List.contains_iff_mem]; exact hc o p
  unfold Defn.getItem
  rw [e]
  show (if (d.props.contains p && d.objs.contains o) = true then _ else _) = _
  rw [Bool.and_comm]

theorem C14_transposed_inv {d : Defn} (h : d.Inv) : d.transposed.Inv := by
  obtain ⟨h1, h2, h3, h4⟩ := h
  refine ⟨h2, h1, ?_, ?_⟩
  · apply List.Nodup.map_on _ h3
    rintro ⟨a, b⟩ _ ⟨a', b'⟩ _ heq
    simp only [Prod.mk.injEq] at heq
    rw [heq.1, heq.2]
  · intro o p hop
    have := ((C14_transposed_cells d).2.2.1 p o).mp hop
    exact ⟨(h4 _ _ this).2, (h4 _ _ this).1⟩

example : exD.transposed.bools = [[true, false], [false, true]] ∧
    (exD.step (.setItem "o1" "p2" true)).toOption.map (·.1.transposed.bools)
      = some [[true, false], [true, true]] := ⟨by decide, by decide⟩

/-! ### inverted -/

/-- `inverted`: complement of the cells inside `objs × props`, same names -/
theorem C14_inverted_cells (d : Defn) :
    d.inverted.objs = d.objs ∧ d.inverted.props = d.props ∧
    (∀ o p, (o, p) ∈ d.inverted.pairs ↔ o ∈ d.objs ∧ p ∈ d.props ∧ (o, p) ∉ d.pairs) ∧
    (∀ o p, d.inverted.getItem o p = (d.getItem o p).map (!·)) := by
  have hc : ∀ o p, (o, p) ∈ d.inverted.pairs ↔ o ∈ d.objs ∧ p ∈ d.props ∧ (o, p) ∉ d.pairs :=
    fun o p => mem_invtable
  refine ⟨rfl, rfl, hc, ?_⟩
  intro o p
  simp only [Defn.getItem, List.contains_eq_mem, hc]
  simp only [Defn.inverted]
  by_cases ho : o ∈ d.objs <;> by_cases hp : p ∈ d.props <;> simp [ho, hp, Except.map]

theorem C14_inverted_inv {d : Defn} (h : d.Inv) : d.inverted.Inv := by
  refine ⟨h.1, h.2.1, nodup_invtable h.1 h.2.1, ?_⟩
  intro o p hop
  have := ((C14_inverted_cells d).2.2.1 o p).mp hop
  exact ⟨this.1, this.2.1⟩

/-- `inverted` is an involution on proper definitions: same names in the same order, same table,
equal as definitions (the internal cell list is a set, its order is not observable) -/
theorem C14_inverted_involutive {d : Defn} (h : d.Inv) :
    d.inverted.inverted.objs = d.objs ∧ d.inverted.inverted.props = d.props ∧
    d.inverted.inverted.bools = d.bools ∧ d.inverted.inverted.eqv d = true ∧
    (∀ o p, (o, p) ∈ d.inverted.inverted.pairs ↔ (o, p) ∈ d.pairs) := by
  have hc : ∀ o p, (o, p) ∈ d.inverted.inverted.pairs ↔ (o, p) ∈ d.pairs := by
    intro o p
    rw [(C14_inverted_cells d.inverted).2.2.1, (C14_inverted_cells d).2.2.1]
    simp only [(C14_inverted_cells d).1, (C14_inverted_cells d).2.1]
    constructor
    · rintro ⟨ho, hp, hn⟩
      by_contra hne
      exact hn ⟨ho, hp, hne⟩
    · intro hop
      exact ⟨(h.2.2.2 o p hop).1, (h.2.2.2 o p hop).2, fun hn => hn.2.2 hop⟩
  refine ⟨rfl, rfl, ?_, ?_, hc⟩
  · refine (bools_eq_iff (d := d.inverted.inverted) (e := d) rfl rfl).mpr ?_
    intro o _ p _
    exact hc o p
  · rw [eqv_iff]
    exact ⟨fun _ => Iff.rfl, fun _ => Iff.rfl, fun ⟨o, p⟩ => hc o p⟩

/-- without the invariant the table is still restored (residue cells are invisible in `bools`) -/
theorem C14_inverted_involutive_bools (d : Defn) : d.inverted.inverted.bools = d.bools := by
  refine (bools_eq_iff (d := d.inverted.inverted) (e := d) rfl rfl).mpr ?_
  intro o ho p hp
  rw [(C14_inverted_cells d.inverted).2.2.1, (C14_inverted_cells d).2.2.1]
  simp only [(C14_inverted_cells d).1, (C14_inverted_cells d).2.1] at ho hp ⊢
  constructor
  · rintro ⟨_, _, hn⟩
    by_contra hne
    exact hn ⟨ho, hp, hne⟩
  · intro hop
    exact ⟨ho, hp, fun hn => hn.2.2 hop⟩

example : exD.Inv ∧ exD.inverted.bools = [[false, true], [true, false]] ∧
    exD.inverted.inverted.eqv exD = true := ⟨exD_inv, by decide, by decide⟩

/-! ### Context(*definition) -/

/-- what `Context.bools` / `Context.definition()` read back from the index-level context -/
def ctxBools (K : Ctx) : List (List Bool) :=
  (List.range K.n).map fun i => (List.range K.m).map fun j => (K.rows[i]!).testBit j

/-- the guard chain of `Context.__init__` accepts exactly: names non-empty, duplicate free,
disjoint, and a rectangular table -/
theorem C14_ctorAccepts_iff {os ps : List Name} {lens : List Nat} :
    ctorAccepts os ps lens = true ↔
      os ≠ [] ∧ os.Nodup ∧ ps ≠ [] ∧ ps.Nodup ∧ (∀ x ∈ os, x ∉ ps) ∧
      lens.length = os.length ∧ ∀ n ∈ lens, n = ps.length := defn_ctorAccepts_iff

/-- for a proper definition the shape clause always holds -/
theorem C14_ctorAccepts_defn {d : Defn} (h : d.Inv) :
    ctorAccepts d.objs d.props (d.bools.map (·.length)) = true ↔
      d.objs ≠ [] ∧ d.props ≠ [] ∧ ∀ x ∈ d.objs, x ∉ d.props := by
  rw [defn_ctorAccepts_iff]
  have h1 : (d.bools.map (·.length)).length = d.objs.length := by simp [bools_length]
  have h2 : ∀ n ∈ d.bools.map (·.length), n = d.props.length := by
    intro n hn
    simp only [List.mem_map] at hn
    obtain ⟨row, hrow, rfl⟩ := hn
    exact bools_row_length d row hrow
  have := h.1
  have := h.2.1
  tauto

/-- an accepted triple gives a well-formed context that stores exactly the given table -/
theorem C14_ctxOfTriple_ok {os ps : List Name} {bs : List (List Bool)} {K : Ctx}
    (h : ctxOfTriple os ps bs = .ok K) :
    K.n = os.length ∧ K.m = ps.length ∧ K.WF ∧
    ∀ i j, (K.rows[i]!).testBit j = (bs.getD i []).getD j false := by
  unfold ctxOfTriple at h
  split at h
  · rename_i hacc
    rw [defn_ctorAccepts_iff] at hacc
    obtain ⟨_, _, _, _, _, hl, hrow⟩ := hacc
    cases h
    have hbit : ∀ i j, ((bs.map rowMask).toArray[i]!).testBit j = (bs.getD i []).getD j false := by
      intro i j
      rw [defn_getElem!_map_rowMask, testBit_rowMask]
    refine ⟨rfl, rfl, ⟨?_, ?_, rfl⟩, hbit⟩
    · simp only [mkCtx, List.size_toArray, List.length_map]
      simpa using hl
    · intro i hi
      simp only [mkCtx] at hi ⊢
      rw [defn_getElem!_map_rowMask]
      have hlen : i < bs.length := by
        have : bs.length = os.length := by simpa using hl
        omega
      have : (bs.getD i []).length = ps.length := by
        apply hrow
        simp only [List.mem_map]
        exact ⟨bs[i], List.getElem_mem hlen, by simp [List.getD_eq_getElem?_getD, hlen]⟩
      rw [← this]
      exact defn_rowMask_lt _
  · cases h

/-- `Context(*definition)` stores exactly the definition's table, and reading the table back
(`Context.definition()`) gives the definition's `bools` again -/
theorem C14_ctx_def_inverse {d : Defn} {K : Ctx} (h : ctxOfTriple d.objs d.props d.bools = .ok K) :
    K.n = d.objs.length ∧ K.m = d.props.length ∧ K.WF ∧
    (∀ i j, (K.rows[i]!).testBit j = (d.bools.getD i []).getD j false) ∧
    (∀ i j (hi : i < d.objs.length) (hj : j < d.props.length),
      (K.rows[i]!).testBit j = d.pairs.contains (d.objs[i], d.props[j])) ∧
    ctxBools K = d.bools := by
  obtain ⟨h1, h2, h3, h4⟩ := C14_ctxOfTriple_ok h
  have h5 : ∀ i j (hi : i < d.objs.length) (hj : j < d.props.length),
      (K.rows[i]!).testBit j = d.pairs.contains (d.objs[i], d.props[j]) := by
    intro i j hi hj
    rw [h4]
    simp [Defn.bools, List.getD_eq_getElem?_getD, hi, hj]
  refine ⟨h1, h2, h3, h4, h5, ?_⟩
  apply List.ext_getElem
  · simp [ctxBools, h1, bools_length]
  · intro i hi1 hi2
    have hi : i < d.objs.length := by rw [bools_length] at hi2; exact hi2
    apply List.ext_getElem
    · simp [ctxBools, h2, Defn.bools]
    · intro j hj1 hj2
      have hj : j < d.props.length := by simpa [Defn.bools] using hj2
      simp only [ctxBools, List.getElem_map, List.getElem_range]
      rw [h5 i j hi hj]
      simp [Defn.bools]

/-- hence the definition rebuilt from the context equals the original one -/
theorem C14_def_ctx_def {d : Defn} {K : Ctx} (hd : d.Inv)
    (h : ctxOfTriple d.objs d.props d.bools = .ok K) :
    ∃ f, Defn.ofTriple d.objs d.props (ctxBools K) = .ok f ∧ d.eqv f = true ∧
      f.objs = d.objs ∧ f.props = d.props ∧ f.bools = d.bools := by
  rw [(C14_ctx_def_inverse h).2.2.2.2.2]
  have hf := C13_fresh_eq hd
  unfold Defn.freshEq at hf
  cases hof : Defn.ofTriple d.objs d.props d.bools with
  | error e => rw [hof] at hf; cases hf
  | ok f =>
    rw [hof] at hf
    obtain ⟨_, _, rfl⟩ := ofTriple_ok hof
    refine ⟨_, rfl, hf, rfl, rfl, ?_⟩
    generalize hps : ((d.objs.zip d.bools).flatMap fun (o, row) =>
      (d.props.zip row).filterMap fun (p, b) => if b then some (o, p) else none).eraseDups = ps
    have hmem : ∀ o p, (o, p) ∈ ps ↔ o ∈ d.objs ∧ p ∈ d.props ∧ (o, p) ∈ d.pairs := by
      intro o p; rw [← hps, List.mem_eraseDups, mem_fresh_cells]
    refine (bools_eq_iff (d := ⟨d.objs, d.props, ps⟩) (e := d) rfl rfl).mpr ?_
    intro o ho p hp
    rw [hmem]
    simp only at ho hp
    tauto

example : ∃ K, ctxOfTriple exD.objs exD.props exD.bools = .ok K ∧ K.rows = #[1, 2] ∧ K.cols = #[1, 2] :=
  ⟨_, rfl, by decide, by decide⟩
example : exD.Inv ∧ ctorAccepts exD.objs exD.props (exD.bools.map (·.length)) = true :=
  ⟨exD_inv, by decide⟩

/-! ### Context → definition() → Context, equality of contexts, shape / fill ratio, table text -/

/-- an accepted triple is rectangular with duplicate-free names, so `Definition(os, ps, bs)` is
accepted too and shows exactly the given table -/
theorem C14_ofTriple_of_accepted {os ps : List Name} {bs : List (List Bool)} {K : Ctx}
    (h : ctxOfTriple os ps bs = .ok K) :
    ∃ d, Defn.ofTriple os ps bs = .ok d ∧ d.Inv ∧ d.objs = os ∧ d.props = ps ∧ d.bools = bs := by
  obtain ⟨hacc, _⟩ := ctxOfTriple_ok_iff.mp h
  have hr := rect_of_accepts hacc
  rw [defn_ctorAccepts_iff] at hacc
  have hof := ofTriple_of_nodup bs hacc.2.1 hacc.2.2.2.1
  exact ⟨_, hof, C13_inv_ofTriple hof, rfl, rfl, ofTriple_bools hof hr⟩

/-- Context → `definition()` → `Context(*definition)`: for an accepted triple the definition built
from it exists, and the context built from the definition's triple is the same context -/
theorem C14_def_ctx_roundtrip2 {os ps : List Name} {bs : List (List Bool)} {K : Ctx}
    (h : ctxOfTriple os ps bs = .ok K) :
    ∃ d, Defn.ofTriple os ps bs = .ok d ∧
      ctxOfTriple d.objs d.props d.bools = ctxOfTriple os ps bs ∧
      ctxOfTriple d.objs d.props d.bools = .ok K := by
  obtain ⟨d, hd, _, h1, h2, h3⟩ := C14_ofTriple_of_accepted h
  exact ⟨d, hd, by rw [h1, h2, h3], by rw [h1, h2, h3, h]⟩

example : ∃ K, ctxOfTriple ["o1", "o2"] ["p1", "p2"] [[true, false], [false, true]] = .ok K :=
  ⟨_, rfl⟩

/-- the same starting from an index-level context: reading the table back and constructing again
gives the same context (names only have to fit the shape and be acceptable) -/
theorem C14_ctx_def_ctx {K : Ctx} (h : K.WF) {os ps : List Name} (hn : K.n = os.length)
    (hm : K.m = ps.length) (hacc : ctorAccepts os ps (List.replicate K.n K.m) = true) :
    ctxOfTriple os ps (ctxBools K) = .ok K := by
  have hlen : (ctxBools K).map (·.length) = List.replicate K.n K.m := by
    simp [ctxBools, List.eq_replicate_iff]
  rw [ctxOfTriple_ok_iff, hlen]
  refine ⟨hacc, ?_⟩
  obtain ⟨n, m, rows, cols⟩ := K
  obtain ⟨h1, h2, h3⟩ := h
  simp only at h1 h2 h3 hn hm
  subst h3
  simp only [mkCtx, ← hn, ← hm, Ctx.mk.injEq, true_and]
  have hrows : rows = ((ctxBools ⟨n, m, rows, colsOf n m rows⟩).map rowMask).toArray := by
    apply Array.ext
    · simp [ctxBools, h1]
    · intro i hi1 hi2
      have hi : i < n := by omega
      simp only [ctxBools, List.map_map, List.getElem_toArray, List.getElem_map, List.getElem_range,
        Function.comp]
      have hget : rows[i]! = rows[i] := by simp [hi1]
      apply Nat.eq_of_testBit_eq
      intro j
      rw [testBit_rowMask, hget]
      by_cases hj : j < m
      · simp [List.getD_eq_getElem?_getD, hj]
      · have hlt := h2 i hi
        rw [hget] at hlt
        have : rows[i].testBit j = false :=
          Nat.testBit_lt_two_pow (Nat.lt_of_lt_of_le hlt (Nat.pow_le_pow_right (by omega) (by omega)))
        simp [List.getD_eq_getElem?_getD, hj, this]
  exact ⟨hrows, by rw [← hrows]⟩

example : (mkCtx 2 2 #[1, 2]).WF ∧ ctorAccepts ["a", "b"] ["x", "y"] (List.replicate 2 2) = true ∧
    ctxOfTriple ["a", "b"] ["x", "y"] (ctxBools (mkCtx 2 2 #[1, 2])) = .ok (mkCtx 2 2 #[1, 2]) := by
  have hw : (mkCtx 2 2 #[1, 2]).WF :=
    mkCtx_WF 2 2 #[1, 2] rfl (by intro i hi; interval_cases i <;> decide)
  exact ⟨hw, by decide, C14_ctx_def_ctx hw rfl rfl (by decide)⟩

/-- two contexts are equal exactly when their triples are equal -/
theorem C14_ctx_eq_iff_triple {os ps os' ps' : List Name} {bs bs' : List (List Bool)} {K K' : Ctx}
    (h : ctxOfTriple os ps bs = .ok K) (h' : ctxOfTriple os' ps' bs' = .ok K') :
    (os = os' ∧ ps = ps' ∧ K = K') ↔ (os = os' ∧ ps = ps' ∧ bs = bs') := by
  constructor
  · rintro ⟨rfl, rfl, rfl⟩
    refine ⟨rfl, rfl, ?_⟩
    obtain ⟨a1, e1⟩ := ctxOfTriple_ok_iff.mp h
    obtain ⟨a2, e2⟩ := ctxOfTriple_ok_iff.mp h'
    have := e1.symm.trans e2
    simp only [mkCtx, Ctx.mk.injEq, true_and] at this
    have hm : bs.map rowMask = bs'.map rowMask := by simpa using this.1
    exact map_rowMask_inj (rect_of_accepts a1).2 (rect_of_accepts a2).2 hm
  · rintro ⟨rfl, rfl, rfl⟩
    rw [h] at h'
    exact ⟨rfl, rfl, by cases h'; rfl⟩

example : ∃ K K', ctxOfTriple ["a", "b"] ["x"] [[true], [false]] = .ok K ∧
    ctxOfTriple ["a", "b"] ["x"] [[false], [true]] = .ok K' ∧ K.rows ≠ K'.rows :=
  ⟨_, _, rfl, rfl, by decide⟩

/-- … and the table read back from the context is the table it was built from -/
theorem C14_ctxBools_of_triple {os ps : List Name} {bs : List (List Bool)} {K : Ctx}
    (h : ctxOfTriple os ps bs = .ok K) : ctxBools K = bs := by
  obtain ⟨d, _, _, h1, h2, h3⟩ := C14_ofTriple_of_accepted h
  rw [← h1, ← h2, ← h3] at h
  rw [(C14_ctx_def_inverse h).2.2.2.2.2, h3]

/-- numerator of `Context.fill_ratio`: `sum(intent.count() for intent in self._intents)` -/
def ctxFillCount (K : Ctx) : Nat := ((List.range K.n).map fun i => card K.m (K.rows[i]!)).sum

theorem ctxFillCount_eq (K : Ctx) : ctxFillCount K = ((ctxBools K).map (·.count true)).sum := by
  simp only [ctxFillCount, ctxBools, List.map_map]
  congr 1
  apply List.map_congr_left
  intro i _
  simp only [Function.comp, card_eq_count]

/-- `shape` and the numerator of `fill_ratio` agree between a definition and its context (the fill
ratios are these counts over `n * m`) -/
theorem C14_shape_fill {d : Defn} {K : Ctx} (hd : d.Inv)
    (h : ctxOfTriple d.objs d.props d.bools = .ok K) :
    K.n = d.shape.1 ∧ K.m = d.shape.2 ∧ ctxFillCount K = d.fillCount := by
  obtain ⟨h1, h2, _, _, _, h6⟩ := C14_ctx_def_inverse h
  refine ⟨h1, h2, ?_⟩
  rw [ctxFillCount_eq, h6, bools_count_inv hd]
  rfl

example : exD.Inv ∧ ∃ K, ctxOfTriple exD.objs exD.props exD.bools = .ok K ∧
    ctxFillCount K = 2 ∧ exD.fillCount = 2 ∧ exD.shape = (2, 2) :=
  ⟨exD_inv, _, rfl, by decide, by decide, by decide⟩

/-- without the invariant the counts differ: a residue cell is counted by the definition only -/
example : ∃ K, ctxOfTriple ["o1"] ["p1"] (Defn.bools ⟨["o1"], ["p1"], [("o1", "p1"), ("gone", "p1")]⟩) = .ok K ∧
    ctxFillCount K = 1 ∧ Defn.fillCount ⟨["o1"], ["p1"], [("o1", "p1"), ("gone", "p1")]⟩ = 2 :=
  ⟨_, rfl, by decide, by decide⟩

/-- context and definition print the same table (and have the same `crc32`, …): both pass the same
`(objects, properties, bools)` triple to the same function -/
theorem C14_table_text {d : Defn} {K : Ctx} (h : ctxOfTriple d.objs d.props d.bools = .ok K)
    (indent : Nat) :
    dumpTable indent (d.objs.map String.toList) (d.props.map String.toList) (ctxBools K) =
      dumpTable indent (d.objs.map String.toList) (d.props.map String.toList) d.bools ∧
    ∀ {β : Type} (f : List Name → List Name → List (List Bool) → β),
      f d.objs d.props (ctxBools K) = f d.objs d.props d.bools := by
  rw [(C14_ctx_def_inverse h).2.2.2.2.2]
  exact ⟨rfl, fun _ => rfl⟩

/-! ### value semantics -/

/-- in the value model, editing one definition of a collection leaves all others unchanged.  This is
a fact about lists only; that the value model is adequate — deriving methods return objects that
share no mutable state with their sources — is `C14_heap_refines`, `C14_fresh`, `C14_no_alias*` and
`C14_program_refines` below. -/
theorem C14_frame (ds : List Defn) (i j : Nat) (d' : Defn) (hij : i ≠ j) :
    (ds.set i d')[j]? = ds[j]? := by
  simp [hij]

/-! ### reference semantics: refinement, fresh objects, no aliasing

`FCA/Model/DefnHeap.lean` models `Definition` objects as triples of addresses of mutable objects on a
heap.  The value model (`Model/Defn.lean`) is what one reads through a reference. -/

/-- two separate `Definition` objects on a heap -/
def exHeap : Heap :=
  [.names exD.objs, .names exD.props, .cells exD.pairs, .names exE.objs, .names exE.props, .cells exE.pairs]
def exR : DRef := ⟨0, 1, 2⟩
def exR' : DRef := ⟨3, 4, 5⟩

example : exR.Valid exHeap ∧ exR'.Valid exHeap ∧ exR.Disjoint exR' ∧
    exHeap.read exR = exD ∧ exHeap.read exR' = exE := by decide

/-- every heap operation, read back, is the value-level operation: the fifteen mutators (the operand
of an in-place union / intersection being the receiver itself or a separate object), and the six
deriving methods; a deriving method leaves every existing object — in particular its sources — as it
was -/
theorem C14_heap_refines (h : Heap) (r : DRef) (hv : r.Valid h) :
    (∀ op : HOp, op.Compat r →
      (h.step r op).map (fun x => (x.1.read r, x.2)) = (h.read r).step (op.toOp h.read)) ∧
    (∀ op : DOp, (∀ o ∈ op.refs, o.Valid h) →
      (h.derive r op).map (fun x => x.1.read x.2) = (h.read r).derive h.read op) ∧
    (∀ (op : DOp) (h' : Heap) (res : DRef), h.derive r op = .ok (h', res) →
      ∀ r', r'.Valid h → h'.read r' = h.read r') := by
  refine ⟨fun op hc => step_refines hv hc, fun op hor => derive_refines hor, ?_⟩
  intro op h' res hs r' hv'
  obtain ⟨_, _, hu⟩ := derive_fresh hs
  apply read_congr
  intro a ha
  apply hu
  simp only [DRef.addrs, List.mem_cons, List.not_mem_nil, or_false] at ha
  unfold DRef.Valid at hv'
  omega

example : exR.Valid exHeap ∧ (HOpG.unionUpdate exR' false).Compat exR ∧
    (HOpG.unionUpdate exR false).Compat exR ∧ (∀ o ∈ (DOpG.union exR' false).refs, o.Valid exHeap) :=
  ⟨by decide, Or.inr (by decide), Or.inl rfl, fun o ho => by
    simp only [DOpG.refs, List.mem_singleton] at ho; subst ho; decide⟩

/-- the deriving methods spelled out -/
theorem C14_heap_refines_derived (h : Heap) (r other : DRef) (ho : other.Valid h) :
    (h.copy r).1.read (h.copy r).2 = h.read r ∧
    (h.inverted r).1.read (h.inverted r).2 = (h.read r).inverted ∧
    (h.transposed r).1.read (h.transposed r).2 = (h.read r).transposed ∧
    (∀ a b ro, (h.take r a b ro).map (fun x => x.1.read x.2) = (h.read r).take a b ro) ∧
    (∀ ig, (h.union r other ig).map (fun x => x.1.read x.2) = (h.read r).union (h.read other) ig) ∧
    (∀ ig, (h.intersection r other ig).map (fun x => x.1.read x.2) =
      (h.read r).intersection (h.read other) ig) := by
  refine ⟨?_, read_new _ _, read_new _ _, ?_, fun ig => union_refines ho,
    fun ig => intersection_refines ho⟩
  · rw [Heap.copy, read_new, copy_eq]
  · intro a b ro
    have := derive_refines (h := h) (r := r) (op := .take a b ro) (by simp [DOpG.refs])
    simpa only [Heap.derive, Defn.derive] using this

/-- the object returned by a deriving method consists of three new addresses (not below the old heap
size), pairwise different; hence it is disjoint from every object that existed before; the old part
of the heap is unchanged -/
theorem C14_fresh {h h' : Heap} {r res : DRef} {op : DOp} (hs : h.derive r op = .ok (h', res)) :
    res = ⟨h.length, h.length + 1, h.length + 2⟩ ∧ (∀ a ∈ res.addrs, h.length ≤ a) ∧
    res.Valid h' ∧ h'.length = h.length + 3 ∧ (∀ a, a < h.length → h'[a]? = h[a]?) ∧
    ∀ r', r'.Valid h → r'.Disjoint res ∧ res.Disjoint r' := by
  obtain ⟨hres, hl, hu⟩ := derive_fresh hs
  subst hres
  refine ⟨rfl, ?_, ?_, hl, hu, ?_⟩
  · intro a ha
    simp only [DRef.addrs, List.mem_cons, List.not_mem_nil, or_false] at ha
    omega
  · simp only [DRef.Valid]; omega
  · intro r' hv'
    have : r'.Disjoint ⟨h.length, h.length + 1, h.length + 2⟩ := disjoint_new hv' Defn.empty
    exact ⟨this, this.symm⟩

example : ∃ h' res, exHeap.derive exR (.union exR' false) = .ok (h', res) ∧ res = ⟨6, 7, 8⟩ ∧
    h'.read res = ⟨["o1", "o2", "o3"], ["p1", "p2", "p3"], [("o1", "p1"), ("o2", "p2"), ("o3", "p3")]⟩ :=
  ⟨_, _, rfl, by decide, by decide⟩

/-- a mutator writes to the three objects of its receiver only: it keeps the heap size, leaves every
other address alone, and so every object with a disjoint address set reads the same afterwards -/
theorem C14_no_alias {h h' : Heap} {r r' : DRef} {op : HOp} {ret : List Name} (hd : r.Disjoint r')
    (hs : h.step r op = .ok (h', ret)) :
    h'.read r' = h.read r' ∧ h'.length = h.length ∧ ∀ a, a ∉ r.addrs → h'[a]? = h[a]? :=
  ⟨step_frame hd hs, (step_untouched hs).1, (step_untouched hs).2⟩

/-- … for every history of mutator calls on objects disjoint from `r'` -/
theorem C14_no_alias_history (h : Heap) (r' : DRef) (steps : List (DRef × HOp))
    (hd : ∀ s ∈ steps, s.1.Disjoint r') : (h.run steps).read r' = h.read r' := by
  apply read_congr
  intro a ha
  exact (run_untouched h steps).2 a fun s hs ha' => hd s hs a ha' ha

/-- source and result of a deriving method: editing either side afterwards — any history of
mutator calls, on the result or on objects that existed before — never changes the other -/
theorem C14_no_alias_derived {h h1 : Heap} {r res : DRef} {op : DOp}
    (hs : h.derive r op = .ok (h1, res)) :
    (∀ r', r'.Valid h → ∀ steps : List (DRef × HOp), (∀ s ∈ steps, s.1 = res) →
      (h1.run steps).read r' = h.read r') ∧
    (∀ steps : List (DRef × HOp), (∀ s ∈ steps, s.1.Valid h) →
      (h1.run steps).read res = h1.read res) := by
  obtain ⟨_, _, _, _, hu, hdis⟩ := C14_fresh hs
  constructor
  · intro r' hv' steps hst
    rw [C14_no_alias_history h1 r' steps (fun s hs' => by rw [hst s hs']; exact (hdis r' hv').2)]
    apply read_congr
    intro a ha
    apply hu
    simp only [DRef.addrs, List.mem_cons, List.not_mem_nil, or_false] at ha
    unfold DRef.Valid at hv'
    omega
  · intro steps hst
    exact C14_no_alias_history h1 res steps (fun s hs' => (hdis s.1 (hst s hs')).1)

example : exR.Valid exHeap ∧ ∃ h1 res, exHeap.derive exR .copy = .ok (h1, res) ∧
    ((h1.run [(res, .plain (.setItem "o9" "p9" true))]).read exR = exD) ∧
    ((h1.run [(exR, .plain (.removeObject "o1"))]).read res = exD) :=
  ⟨by decide, _, _, rfl, by decide, by decide⟩

/-- whole programs — definitions created, mutated and derived from each other in any order, every
variable bound once: running with reference semantics on the heap and running with value semantics on
a plain list of values (as the test driver does) give the same values and show the same return
values and exceptions; no two variables ever share an object -/
theorem C14_program_refines (cs : List Cmd) :
    ((PState.mk [] []).execAll cs).1.WF ∧
    ((PState.mk [] []).execAll cs).1.vals = (vexecAll [] cs).1 ∧
    ((PState.mk [] []).execAll cs).2 = (vexecAll [] cs).2 :=
  execAll_sim wf_init cs

example : (vexecAll [] [.create ["a"] ["x"] [[true]], .derive 0 .copy, .mutate 1 (.plain (.setItem "b" "x" true)),
      .mutate 0 (.unionUpdate 1 false), .derive 0 (.intersection 1 false)]).1.map Defn.bools =
    [[[true], [true]], [[true], [true]], [[true], [true]]] := by decide

end FCA

open FCA in
#print axioms C14_union_cells
open FCA in
#print axioms C14_union_rejects_iff
open FCA in
#print axioms C14_union_accepts_iff
open FCA in
#print axioms C14_intersection_cells
open FCA in
#print axioms C14_intersection_rejects_iff
open FCA in
#print axioms C14_take
open FCA in
#print axioms C14_take_inv
open FCA in
#print axioms C14_take_keyerror
open FCA in
#print axioms C14_take_keyerror_names
open FCA in
#print axioms C14_transposed_involutive
open FCA in
#print axioms C14_transposed_cells
open FCA in
#print axioms C14_transposed_inv
open FCA in
#print axioms C14_inverted_cells
open FCA in
#print axioms C14_inverted_inv
open FCA in
#print axioms C14_inverted_involutive
open FCA in
#print axioms C14_ctorAccepts_iff
open FCA in
#print axioms C14_ctorAccepts_defn
open FCA in
#print axioms C14_ctxOfTriple_ok
open FCA in
#print axioms C14_ctx_def_inverse
open FCA in
#print axioms C14_def_ctx_def
open FCA in
#print axioms C14_frame
open FCA in
#print axioms C14_ofTriple_of_accepted
open FCA in
#print axioms C14_def_ctx_roundtrip2
open FCA in
#print axioms C14_ctx_def_ctx
open FCA in
#print axioms C14_ctx_eq_iff_triple
open FCA in
#print axioms C14_ctxBools_of_triple
open FCA in
#print axioms C14_shape_fill
open FCA in
#print axioms C14_table_text
open FCA in
#print axioms C14_heap_refines
open FCA in
#print axioms C14_heap_refines_derived
open FCA in
#print axioms C14_fresh
open FCA in
#print axioms C14_no_alias
open FCA in
#print axioms C14_no_alias_history
open FCA in
#print axioms C14_no_alias_derived
open FCA in
#print axioms C14_program_refines
