import FCA.Model.Formats
import FCA.Generated.Formats
import FCA.Generated.CxtLines
import FCA.Generated.TableDump
/-
C12: the constants the format model is written with are the ones in the current source
(`concepts/formats/*.py`) and in the running CPython (`str.isspace`), regenerated on every run.
-/
namespace FCA

/-- the model's whitespace set is exactly CPython's `str.isspace()` set -/
theorem C12_generated_whitespace : Generated.pyWhitespace = pyWhitespace := by decide

/-- cxt cells are written `X` / `.` -/
theorem C12_generated_cxt_symbols : Generated.cxtSymbols = [(false, "."), (true, "X")] := by decide

/-- csv cells are written `X` / blank, or `1` / `0` with `bools_as_int`; the X/blank set is tried first -/
theorem C12_generated_csv_symbols :
    Generated.csvSymbols = [(false, false, ""), (false, true, "X"), (true, false, "0"), (true, true, "1")] ∧
    Generated.csvValueOrder = [false, true] := by decide

/-- file suffix → format, and which formats strip the trailing newline of the dumped text -/
theorem C12_generated_tables :
    Generated.bySuffix = [(".csv", "csv"), (".cxt", "cxt"), (".dat", "fimi"), (".py", "python-literal"), (".txt", "table")] ∧
    Generated.dumpsRstrip = [("csv", false), ("cxt", false), ("fimi", false), ("python-literal", true), ("table", true),
      ("wiki-table", true), ("wikitable", true)] := by decide

/-! ### the cxt writer, yield by yield -/

/-- the cell symbols of the current source (`Generated.cxtSymbols`) as the function `symbols[value]` -/
def C12_cxtSymbol (value : Bool) : List Char :=
  ((Generated.cxtSymbols.lookup value).getD "").toList

/-- `Cxt.dumpf` of the current source — `print` of every line `iter_cxt_lines` yields, with the symbols table of the current
source — writes exactly the model's `dumpCxt` text (about which `C12_cxt_roundtrip*`, `C12_strict_cxt` are proved) -/
theorem C12_generated_cxt_dump (objects properties : List Str) (bools : List (List Bool)) :
    unlines (Generated.cxt_lines C12_cxtSymbol objects properties bools) = dumpCxt objects properties bools := by
  have ht : C12_cxtSymbol true = ['X'] := by decide
  have hf : C12_cxtSymbol false = ['.'] := by decide
  have hs : ∀ row : List Bool, (row.flatMap fun value => C12_cxtSymbol value) = row.map fun b => if b then 'X' else '.' := by
    intro row
    induction row with
    | nil => rfl
    | cons b bs ih =>
      rw [List.flatMap_cons, ih]
      cases b
      · rw [hf]; rfl
      · rw [ht]; rfl
  simp only [Generated.cxt_lines, dumpCxt, hs]
  rfl

/-! ### the table writer -/

/-- `Table.dumps(…, indent=…)` of the current source — the header and one line per object printed through the `%-Ns|` template,
then the final `rstrip()` (`dumps_rstrip`, see `C12_generated_tables`) — is the model's `dumpTable` (the subject of
`C12_table_roundtrip`, `C12_strict_table`) -/
theorem C12_generated_table_dump (indent : Nat) (objects properties : List Str) (bools : List (List Bool)) :
    rstripBy isSpace (unlines (Generated.table_lines indent objects properties bools)) =
      dumpTable indent objects properties bools := rfl

end FCA
#print axioms FCA.C12_generated_whitespace
#print axioms FCA.C12_generated_cxt_dump
#print axioms FCA.C12_generated_table_dump
