import FCA.Proofs.Galois
import FCA.Proofs.Keys
/-
C01 — Derivation operators are exactly the Galois connection of the table.

Model: `Ctx.intentOf` / `Ctx.extentOf` (the trailing-zero skipping AND loop of `Vectors._pair_with`),
`mkCtx` (`Relation.__new__`), `membersW` (`members()`), `ofMembers` (`frommembers`).
-/
namespace FCA

/-- `intension(objects)` = exactly the properties every selected object has — for every context,
every width, every mask. (`K.has i j` is `j ∈ rows[i]`.) -/
theorem C01_intension (K : Ctx) (A : Nat) (_hA : Bounded K.n A) (j : Nat) :
    j ∈ᵇ K.intentOf A ↔ j < K.m ∧ ∀ i, i ∈ᵇ A → K.has i j := mem_intentOf A j

/-- `extension(properties)` = exactly the objects that have all selected properties -/
theorem C01_extension (K : Ctx) (h : K.WF) (B : Nat) (_hB : Bounded K.m B) (i : Nat) :
    i ∈ᵇ K.extentOf B ↔ i < K.n ∧ ∀ j, j ∈ᵇ B → K.has i j := mem_extentOf h B i

/-- the loop with *any* sufficient fuel gives the same answer: the bound used by the model is not
what makes the result right -/
theorem C01_fuel_irrelevant (other : Array Nat) (f1 f2 bitset i acc : Nat)
    (h1 : bitset < 2 ^ f1) (h2 : bitset < 2 ^ f2) :
    primeLoop other f1 bitset i acc = primeLoop other f2 bitset i acc :=
  primeLoop_fuel_irrelevant other f1 f2 bitset i acc h1 h2

/-- the column vectors are the transpose of the row vectors -/
theorem C01_transpose (n m : Nat) (rows : Array Nat) (i j : Nat) (hi : i < n) (hj : j < m) :
    i ∈ᵇ (mkCtx n m rows).cols[j]! ↔ j ∈ᵇ (mkCtx n m rows).rows[i]! := by
  show i ∈ᵇ (colsOf n m rows)[j]! ↔ _
  rw [mem_colsOf]; simp [hi, hj, mkCtx]

/-- the empty collection derives to all properties … -/
theorem C01_empty_intension (K : Ctx) : K.intentOf 0 = full K.m := by
  apply ext; intro j; rw [mem_intentOf]; simp

/-- … resp. all objects -/
theorem C01_empty_extension (K : Ctx) (h : K.WF) : K.extentOf 0 = full K.n := by
  apply ext; intro i; rw [mem_extentOf h]; simp

/-- the tuple form lists exactly the members, once each, in the context's own order -/
theorem C01_members (w s : Nat) :
    (membersW w s).Pairwise (· < ·) ∧ ∀ x, x ∈ membersW w s ↔ x < w ∧ x ∈ᵇ s :=
  ⟨membersW_sorted w s, fun _ => mem_membersW⟩

/-- duplicates and argument order do not matter: `frommembers` depends on the *set* of its arguments -/
theorem C01_ofMembers_congr (l l' : List Nat) (h : ∀ x, x ∈ l ↔ x ∈ l') : ofMembers l = ofMembers l' := by
  apply ext; intro i; rw [mem_ofMembers, mem_ofMembers]; exact h i

/-- the raw and the label-tuple result forms denote the same set -/
theorem C01_raw_vs_tuple (w s : Nat) (h : Bounded w s) : ofMembers (membersW w s) = s :=
  ofMembers_membersW h

/-- results stay inside the domain -/
theorem C01_bounded (K : Ctx) (h : K.WF) (A B : Nat) :
    Bounded K.m (K.intentOf A) ∧ Bounded K.n (K.extentOf B) :=
  ⟨bounded_intentOf A, bounded_extentOf h B⟩

/-- `Context.intension(objects)` on index level: `frommembers → prime → members` -/
def intension (K : Ctx) (objs : List Nat) : List Nat := membersW K.m (K.intentOf (ofMembers objs))
/-- `Context.extension(properties)` on index level -/
def extension (K : Ctx) (props : List Nat) : List Nat := membersW K.n (K.extentOf (ofMembers props))

/-- the property in one statement: for any argument list (any order, with repeats) of object numbers,
`intension` lists exactly the properties every given object has, once each, in column order -/
theorem C01_intension_list (K : Ctx) (objs : List Nat) :
    (intension K objs).Pairwise (· < ·) ∧
    ∀ j, j ∈ intension K objs ↔ j < K.m ∧ ∀ i ∈ objs, K.has i j := by
  refine ⟨membersW_sorted _ _, fun j => ?_⟩
  unfold intension
  rw [mem_membersW, mem_intentOf]
  constructor
  · rintro ⟨h1, _, h2⟩; exact ⟨h1, fun i hi => h2 i (mem_ofMembers.mpr hi)⟩
  · rintro ⟨h1, h2⟩; exact ⟨h1, h1, fun i hi => h2 i (mem_ofMembers.mp hi)⟩

theorem C01_extension_list (K : Ctx) (h : K.WF) (props : List Nat) :
    (extension K props).Pairwise (· < ·) ∧
    ∀ i, i ∈ extension K props ↔ i < K.n ∧ ∀ j ∈ props, K.has i j := by
  refine ⟨membersW_sorted _ _, fun i => ?_⟩
  unfold extension
  rw [mem_membersW, mem_extentOf h]
  constructor
  · rintro ⟨h1, _, h2⟩; exact ⟨h1, fun j hj => h2 j (mem_ofMembers.mpr hj)⟩
  · rintro ⟨h1, h2⟩; exact ⟨h1, h1, fun j hj => h2 j (mem_ofMembers.mp hj)⟩

/-- the raw result and the tuple result denote the same set -/
theorem C01_raw_tuple (K : Ctx) (objs : List Nat) :
    ofMembers (intension K objs) = K.intentOf (ofMembers objs) :=
  ofMembers_membersW (bounded_intentOf _)

/-! non-vacuity: a concrete 3×3 context (with an empty row) satisfies the hypotheses -/
def C01_exK : Ctx := mkCtx 3 3 #[0b011, 0b000, 0b110]
example : C01_exK.WF := mkCtx_WF 3 3 _ rfl (by intro i hi; interval_cases i <;> decide)
example : Bounded C01_exK.n 0b101 := by rw [bounded_iff_lt]; decide

end FCA
#print axioms FCA.C01_intension
#print axioms FCA.C01_extension
#print axioms FCA.C01_raw_vs_tuple
