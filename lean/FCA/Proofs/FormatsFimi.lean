import FCA.Proofs.FormatsStr
/-
FIMI rows: the index export lists exactly the true cells of each row, ascending.
-/
namespace FCA

/-- one FIMI row -/
def fimiRow (row : List Bool) : List Nat :=
  (row.zipIdx).filterMap fun (b, j) => if b then some j else none

theorem fimiRows_eq (bools : List (List Bool)) : fimiRows bools = bools.map fimiRow := rfl

theorem mem_fimiRow {row : List Bool} {j : Nat} : j ∈ fimiRow row ↔ row[j]? = some true := by
  simp only [fimiRow, List.mem_filterMap, Prod.exists]
  constructor
  · rintro ⟨b, i, hm, hf⟩
    have := List.mem_zipIdx_iff_getElem?.1 hm
    cases b
    · simp at hf
    · simp only [if_true, Option.some.injEq] at hf
      subst hf; simpa using this
  · intro h
    exact ⟨true, j, List.mem_zipIdx_iff_getElem?.2 (by simpa using h), by simp⟩

theorem pairwise_zipIdx_snd (row : List Bool) (k : Nat) :
    (row.zipIdx k).Pairwise (fun a a' => a.2 < a'.2) := by
  induction row generalizing k with
  | nil => simp
  | cons b bs ih =>
    rw [List.zipIdx_cons, List.pairwise_cons]
    refine ⟨?_, ih (k + 1)⟩
    rintro ⟨b', i⟩ hm
    have := (List.mem_zipIdx hm).1
    simp only; omega

theorem pairwise_fimiRow (row : List Bool) : (fimiRow row).Pairwise (· < ·) := by
  unfold fimiRow
  refine List.Pairwise.filterMap _ ?_ (pairwise_zipIdx_snd row 0)
  rintro ⟨b, i⟩ ⟨b', i'⟩ hlt j hj j' hj'
  cases b <;> cases b' <;> simp_all

/-! ### the FIMI text -/

theorem splitChar_unlines {ls : List Str} (h : ∀ l ∈ ls, '\n' ∉ l) :
    splitChar '\n' (unlines ls) = ls ++ [[]] := by
  induction ls with
  | nil => rfl
  | cons x xs ih =>
    rw [unlines_cons, splitChar_append_sep (h x (by simp)), ih (fun l hl => h l (by simp [hl]))]
    rfl

theorem splitWs_go_word {w : Str} (hw : ∀ c ∈ w, isSpace c = false) (hne : w ≠ []) (rest : Str) :
    splitWs.go (w ++ ' ' :: rest) [] = w :: splitWs.go rest [] := by
  rw [splitWs_go_nospace hw]
  simp [splitWs.go, isSpace_space, hne]

theorem splitWs_go_last {w : Str} (hw : ∀ c ∈ w, isSpace c = false) (hne : w ≠ []) :
    splitWs.go w [] = [w] := by
  have := splitWs_go_nospace hw [] []
  simp only [List.append_nil] at this
  rw [this]
  have h1 : w.reverse.isEmpty = false := by
    cases w with
    | nil => contradiction
    | cons => simp
  simp [splitWs.go, h1]

/-- `' '.join(words).split() == words` for non-empty words without whitespace -/
theorem splitWs_joinWith {ws : List Str} (h : ∀ w ∈ ws, w ≠ [] ∧ ∀ c ∈ w, isSpace c = false) :
    splitWs (joinWith [' '] ws) = ws := by
  unfold splitWs
  induction ws with
  | nil => rfl
  | cons x xs ih =>
    cases xs with
    | nil => simpa [joinWith] using splitWs_go_last (h x (by simp)).2 (h x (by simp)).1
    | cons y ys =>
      rw [joinWith_cons_cons, List.append_assoc, List.singleton_append,
        splitWs_go_word (h x (by simp)).2 (h x (by simp)).1, ih (fun w hw => h w (by simp [hw]))]

theorem dumpFimi_eq (bools : List (List Bool)) :
    dumpFimi bools =
      unlines ((fimiRows bools).map fun r => joinWith [' '] (r.map fun j => (toString j).toList)) := by
  unfold dumpFimi unlines
  rw [List.flatMap_map]

/-- reading the FIMI text back (lines, whitespace separated integers) gives the rows -/
theorem read_dumpFimi (bools : List (List Bool)) :
    (splitChar '\n' (dumpFimi bools)).dropLast.map (fun l => (splitWs l).map parseNat?) =
      (fimiRows bools).map (·.map some) := by
  have hnl : ∀ n : Nat, '\n' ∉ (toString n).toList := by
    intro n hc; have := toString_nat_nospace n _ hc; simp [isSpace_nl] at this
  rw [dumpFimi_eq, splitChar_unlines]
  · rw [List.dropLast_concat, List.map_map]
    apply List.map_congr_left
    intro r _
    simp only [Function.comp_def]
    rw [splitWs_joinWith, List.map_map]
    · apply List.map_congr_left
      intro j _
      exact parseNat?_toString j
    · intro w hw
      simp only [List.mem_map] at hw
      obtain ⟨j, _, rfl⟩ := hw
      exact ⟨toString_nat_ne_nil j, toString_nat_nospace j⟩
  · intro l hl
    simp only [List.mem_map] at hl
    obtain ⟨r, _, rfl⟩ := hl
    apply not_mem_joinWith (by decide)
    intro w hw
    simp only [List.mem_map] at hw
    obtain ⟨j, _, rfl⟩ := hw
    exact hnl j

end FCA
